/-
C11 (refinement, continued) — `deque[i] = v` and `del deque[i]`: IndexError out of range,
otherwise the item at the position Python indexing denotes is replaced / removed.
Both look the item up again by its key, hence `-- added: d.cache.cfg.disk = .pickle` as for
`deque[i]` (`exDqJson_getitem` in DC/Properties/C11.lean).
-/
import DC.Properties.C11_RefineBase
import DC.Proofs.DRefineIndex

namespace DC.Deque
open DC.Cache DC.Spec DC.DSpec

theorem DRefines.length {d : Deque} {m : DList} (h : DRefines d m) : m.items.length = (items d).length := by
  rw [← h.1, List.length_map]

theorem OkN.irf {d : Deque} {n : Nat} (h : OkN d n) : irf_Inv d.cache := ⟨h.good, h.pol, h.noexp⟩

/-- the entries of the items, through the ordered abstraction of the table -/
theorem items_entries (d : Deque) :
    (items d).map (entryOfRow d.cache) = (drf_Q (irf_abs d.cache)).map (·.2) := by
  rw [← drf_items_abs, List.map_map]; rfl

theorem items_keys (d : Deque) :
    (items d).map (fun r => (irf_key r, rf_ent d.cache r)) = drf_Q (irf_abs d.cache) := drf_items_abs d.cache

/-- a state with the same keys or fewer, no expiry, readable entries: the invariant holds -/
theorem OkN.transfer {d d' : Deque} {n : Nat} (h : OkN d n) (hg : Cache.Good d'.cache)
    (hcfg : d'.cache.cfg = d.cache.cfg) (hst : d'.cache.statistics = d.cache.statistics)
    (hml : d'.maxlen = d.maxlen)
    (hkeys : ∀ a ∈ d'.cache.rows, ∃ b ∈ d.cache.rows, irf_key a = irf_key b)
    (hexp : ∀ a ∈ d'.cache.rows, a.expT = none)
    (hrd : ∀ a ∈ d'.cache.rows, Readable (entryOfRow d'.cache a))
    (hlen : d'.cache.rows.length ≤ d.cache.rows.length) : OkN d' n := by
  have hqf : ∀ a ∈ d'.cache.rows, qfilter none a = true := by
    intro a ha
    obtain ⟨b, hb, hab⟩ := hkeys a ha
    rw [drf_qfilter_key, hab, ← drf_qfilter_key]
    exact (mem_qrows.1 (h.allq' b hb)).2
  have hallq : ∀ r ∈ d'.cache.rows, r ∈ d'.cache.queueRows none := by
    intro r hr
    rw [queueRows_eq]
    exact mem_qrows.2 ⟨hr, hqf r hr⟩
  have hq : ∀ a ∈ d'.cache.queueRows none, ∃ b ∈ d.cache.queueRows none, a.key = b.key := by
    intro a ha
    rw [queueRows_eq] at ha
    obtain ⟨b, hb, hab⟩ := hkeys a (mem_qrows.1 ha).1
    exact ⟨b, h.allq b hb, congrArg Prod.fst hab⟩
  refine ⟨hg, by rw [hcfg]; exact h.pol, hexp, hallq, ?_, ?_, ?_, by rw [hcfg]; exact h.originN,
    by rw [hst]; exact h.stats, ?_, hrd⟩
  · intro r hr
    obtain ⟨b, hb, hab⟩ := hq r hr
    rw [hab]; exact h.qok b hb
  · intro r hr
    obtain ⟨b, hb, hab⟩ := hq r hr
    rw [hab]; exact h.room b hb
  · unfold OriginOk; rw [hcfg]; exact h.origin
  · intro m hm
    rw [hml] at hm
    have h1 : (items d').length = d'.cache.rows.length := by
      show (qrows d'.cache.rows none).length = _
      exact qrows_length_all (fun r hr => by rw [← queueRows_eq]; exact hallq r hr)
    rw [h1]
    have := h.bounded m hm
    rw [h.items_length] at this
    omega

/-- the key read back from an item is the key of its row (pickle disk) -/
theorem key_roundtrip (d : Deque) (n : Nat) (E : Externals) (r : Row) (hok : OkN d n)
    (hdisk : d.cache.cfg.disk = .pickle) (hr : r ∈ d.cache.rows) :
    keyOf E d.cache.cfg (keyOfRow E d.cache r) = irf_key r := by
  obtain ⟨k, -, hk2, hk3, hk4⟩ := hok.qok r (hok.allq r hr)
  have hk : r.key = .int k := hk2.symm
  have hraw := qfilter_raw (mem_qrows.1 (hok.allq' r hr)).2
  have hi : inI64 k = true := by
    unfold inI64
    simp only [Bool.and_eq_true, decide_eq_true_eq]
    omega
  unfold keyOf keyOfRow irf_key
  rw [hdisk, hk, hraw]
  show Disk.put E (.int k) = _
  unfold Disk.put; simp [hi]

theorem key_bindable (d : Deque) (n : Nat) (r : Row) (hok : OkN d n) (hr : r ∈ d.cache.rows) :
    bindable (irf_key r).1 = true := by
  obtain ⟨k, -, hk2, hk3, hk4⟩ := hok.qok r (hok.allq r hr)
  unfold irf_key
  rw [← hk2]
  show inI64 k = true
  unfold inI64
  simp only [Bool.and_eq_true, decide_eq_true_eq]
  omega

theorem abs_pairwise (d : Deque) (n : Nat) (hok : OkN d n) :
    (drf_Q (irf_abs d.cache)).Pairwise (fun a b => sameKey a.1 b.1 = false) ∧
    ∀ p ∈ drf_Q (irf_abs d.cache), sameKey p.1 p.1 = true := by
  obtain ⟨h1, h2⟩ := irf_abs_wf hok.good.tinv
  unfold drf_Q
  constructor
  · refine (List.Perm.pairwise_iff ?_ (isort_perm _ _)).2 (List.Pairwise.filter _ h1)
    intro a b hab
    rw [drf_sameKey_symm]; exact hab
  · intro p hp
    rw [mem_isort] at hp
    exact h2 p (List.mem_filter.1 hp).1

/-! ### `deque[i] = v` -/

theorem setitem_none (d : Deque) (E : Externals) (now : Int) (i : Int) (v : PyVal) (h : d.rowAt i = none) :
    d.setitem E now i v = (d, .exc "IndexError") := by
  unfold setitem; rw [h]

theorem setitem_some (d : Deque) (E : Externals) (now : Int) (i : Int) (v : PyVal) (r : Row)
    (h : d.rowAt i = some r) :
    d.setitem E now i v =
      ({ d with cache := (d.cache.set E now (keyOfRow E d.cache r) v none false .null).1 },
        match (d.cache.set E now (keyOfRow E d.cache r) v none false .null).2 with
        | .exc e => .exc e | _ => .none) := by
  unfold setitem; rw [h]
  rfl

/-- everything `deque[i] = v` does when position `p` holds row `r` -/
theorem setitem_state (d : Deque) (n : Nat) (E : Externals) (now : Int) (v : PyVal) (r : Row) (p : Nat)
    (hok : OkN d n) (hdisk : d.cache.cfg.disk = .pickle) (hp : (items d)[p]? = some r) :
    let c' := (d.cache.set E now (keyOfRow E d.cache r) v none false .null).1
    let o := (match (d.cache.set E now (keyOfRow E d.cache r) v none false .null).2 with
        | .exc e => Out.exc e | _ => .none)
    c'.cfg = d.cache.cfg ∧ irf_Inv c' ∧
    ((entryFor E d.cache.cfg v = none ∧ o = .exc "UnicodeEncodeError" ∧ irf_abs c' = irf_abs d.cache) ∨
     (∃ e, entryFor E d.cache.cfg v = some e ∧ o = .none ∧ Readable e ∧
        irf_abs c' = (irf_abs d.cache).map (fun q => if sameKey q.1 (irf_key r) then (q.1, e) else q))) := by
  intro c' o
  have hrm : r ∈ d.cache.rows := Ok.mem_rows (List.mem_of_getElem? hp)
  have hK := key_roundtrip d n E r hok hdisk hrm
  obtain ⟨habs, hcfg, hinv⟩ := irf_set d.cache E now (keyOfRow E d.cache r) v hok.irf
  have hout := irf_set_out d.cache E now (keyOfRow E d.cache r) v hok.irf
  refine ⟨hcfg, hinv, ?_⟩
  have hhas : (irf_abs d.cache).has (irf_key r) = true := by
    rw [irf_abs_has, List.any_eq_true]
    refine ⟨r, hrm, ?_⟩
    have := (irf_abs_wf hok.good.tinv).2 (irf_key r, rf_ent d.cache r)
      (List.mem_map.2 ⟨r, hrm, rfl⟩)
    exact this
  have hb := key_bindable d n r hok hrm
  unfold OSpec.setitem at habs hout
  rw [hK] at habs hout
  unfold entryFor
  cases hpl : place E d.cache.cfg.disk d.cache.cfg.minFileSize v false with
  | error e =>
    rw [hpl] at habs hout
    exact .inl ⟨rfl, hout, habs⟩
  | ok pl =>
    rw [hpl] at habs hout
    simp only [hb, Bool.true_and] at habs hout ⊢
    cases hbv : bindable (entryOf pl none .null).val with
    | false =>
      rw [hbv] at habs hout
      simp only [Bool.false_eq_true, if_false] at habs hout ⊢
      exact .inl ⟨trivial, hout, habs⟩
    | true =>
      rw [hbv] at habs hout
      simp only [if_true] at habs hout ⊢
      refine .inr ⟨_, rfl, hout, drf_place_readable E _ _ v pl hpl none .null, ?_⟩
      rw [habs]
      unfold ODict.set
      rw [hhas]; rfl

theorem setitem_drefines (d : Deque) (m : DList) (n : Nat) (E : Externals) (now : Int) (i : Int) (v : PyVal)
    (hok : OkN d n) (hr : DRefines d m)
    (hdisk : d.cache.cfg.disk = .pickle) -- added: the key of the item is read back by the pickle `Disk`
    : (d.setitem E now i v).2 = (DSpec.setitem m E d.cache.cfg i v).2 ∧
    DRefines (d.setitem E now i v).1 (DSpec.setitem m E d.cache.cfg i v).1 := by
  have hidx := rowAt_index d n i hok
  unfold DSpec.setitem
  rw [hr.length]
  cases hpos : position (items d).length i with
  | none =>
    rw [position_none_index _ i hpos] at hidx
    rw [setitem_none d E now i v hidx]
    exact ⟨rfl, hr⟩
  | some p =>
    obtain ⟨r, hp, hix⟩ := position_some_index _ i p hpos
    rw [hix] at hidx
    rw [setitem_some d E now i v r hidx]
    obtain ⟨hcfg, hinv, hcase⟩ := setitem_state d n E now v r p hok hdisk hp
    simp only
    rcases hcase with ⟨hef, ho, habs⟩ | ⟨e, hef, ho, -, habs⟩
    · rw [hef]
      refine ⟨ho, ?_, hr.2⟩
      show (items _).map (entryOfRow _) = _
      rw [items_entries]
      show (drf_Q (irf_abs (d.cache.set E now (keyOfRow E d.cache r) v none false .null).1)).map (·.2) = _
      rw [habs, ← items_entries, hr.1]
    · rw [hef]
      refine ⟨ho, ?_, hr.2⟩
      show (items _).map (entryOfRow _) = _
      rw [items_entries]
      show (drf_Q (irf_abs (d.cache.set E now (keyOfRow E d.cache r) v none false .null).1)).map (·.2) = m.items.set p e
      rw [habs, drf_Q_map _ (fun q => by split <;> rfl)]
      obtain ⟨hpw, hself⟩ := abs_pairwise d n hok
      have hL : (drf_Q (irf_abs d.cache))[p]? = some (irf_key r, rf_ent d.cache r) := by
        rw [← items_keys, List.getElem?_map, hp]; rfl
      rw [drf_map_replace e _ p _ _ hpw hself hL, ← items_entries, hr.1]

theorem setitem_okN (d : Deque) (n : Nat) (E : Externals) (now : Int) (i : Int) (v : PyVal)
    (hok : OkN d n) (hdisk : d.cache.cfg.disk = .pickle) : OkN (d.setitem E now i v).1 n := by
  have hidx := rowAt_index d n i hok
  cases hpos : position (items d).length i with
  | none =>
    rw [position_none_index _ i hpos] at hidx
    rw [setitem_none d E now i v hidx]
    exact hok
  | some p =>
    obtain ⟨r, hp, hix⟩ := position_some_index _ i p hpos
    rw [hix] at hidx
    rw [setitem_some d E now i v r hidx]
    obtain ⟨hcfg, hinv, hcase⟩ := setitem_state d n E now v r p hok hdisk hp
    simp only
    have hst := drf_set_stats d.cache E now (keyOfRow E d.cache r) v .null hok.good.depth
    have hmem : ∀ (g : Key × Entry → Key × Entry),
        irf_abs (d.cache.set E now (keyOfRow E d.cache r) v none false .null).1 = (irf_abs d.cache).map g →
        ∀ a ∈ (d.cache.set E now (keyOfRow E d.cache r) v none false .null).1.rows,
          ∃ b ∈ d.cache.rows, (irf_key a, rf_ent (d.cache.set E now (keyOfRow E d.cache r) v none false .null).1 a) =
            g (irf_key b, rf_ent d.cache b) := by
      intro g hg a ha
      have : (irf_key a, rf_ent (d.cache.set E now (keyOfRow E d.cache r) v none false .null).1 a) ∈
          irf_abs (d.cache.set E now (keyOfRow E d.cache r) v none false .null).1 :=
        List.mem_map.2 ⟨a, ha, rfl⟩
      rw [hg] at this
      obtain ⟨q, hq, hqa⟩ := List.mem_map.1 this
      obtain ⟨b, hb, hbq⟩ := List.mem_map.1 hq
      exact ⟨b, hb, by rw [← hqa, ← hbq]⟩
    have hlen : ∀ (g : Key × Entry → Key × Entry),
        irf_abs (d.cache.set E now (keyOfRow E d.cache r) v none false .null).1 = (irf_abs d.cache).map g →
        (d.cache.set E now (keyOfRow E d.cache r) v none false .null).1.rows.length ≤ d.cache.rows.length := by
      intro g hg
      have := congrArg List.length hg
      rw [irf_abs_length, List.length_map, irf_abs_length] at this
      omega
    rcases hcase with ⟨-, -, habs⟩ | ⟨e, -, -, hre, habs⟩
    · have habs' : irf_abs (d.cache.set E now (keyOfRow E d.cache r) v none false .null).1 =
          (irf_abs d.cache).map id := by rw [List.map_id]; exact habs
      refine hok.transfer hinv.good hcfg hst rfl ?_ hinv.noexp ?_ (hlen _ habs')
      · intro a ha
        obtain ⟨b, hb, hab⟩ := hmem _ habs' a ha
        exact ⟨b, hb, congrArg Prod.fst hab⟩
      · intro a ha
        obtain ⟨b, hb, hab⟩ := hmem _ habs' a ha
        have := congrArg Prod.snd hab
        simp only [id] at this
        rw [entryOfRow_eq, this]
        exact hok.readable b hb
    · refine hok.transfer hinv.good hcfg hst rfl ?_ hinv.noexp ?_ (hlen _ habs)
      · intro a ha
        obtain ⟨b, hb, hab⟩ := hmem _ habs a ha
        refine ⟨b, hb, ?_⟩
        have := congrArg Prod.fst hab
        simp only at this
        rw [this]; split <;> rfl
      · intro a ha
        obtain ⟨b, hb, hab⟩ := hmem _ habs a ha
        have := congrArg Prod.snd hab
        simp only at this
        rw [entryOfRow_eq, this]
        split
        · exact hre
        · exact hok.readable b hb

theorem setitem_cfg (d : Deque) (n : Nat) (E : Externals) (now : Int) (i : Int) (v : PyVal)
    (hok : OkN d n) : (d.setitem E now i v).1.cache.cfg = d.cache.cfg := by
  unfold setitem
  cases d.rowAt i with
  | none => rfl
  | some r => exact (irf_set d.cache E now (keyOfRow E d.cache r) v hok.irf).2.1

/-! ### `del deque[i]` -/

theorem delitem_none' (d : Deque) (E : Externals) (now : Int) (i : Int) (h : d.rowAt i = none) :
    d.delitem E now i = (d, .exc "IndexError") := by
  unfold delitem; rw [h]

theorem delitem_some' (d : Deque) (E : Externals) (now : Int) (i : Int) (r : Row)
    (h : d.rowAt i = some r) :
    d.delitem E now i =
      ({ d with cache := (d.cache.delitem E now (keyOfRow E d.cache r)).1 },
        match (d.cache.delitem E now (keyOfRow E d.cache r)).2 with
        | .exc "KeyError" => .exc "IndexError" | _ => .none) := by
  unfold delitem; rw [h]
  rfl

theorem items_rowids (d : Deque) (n : Nat) (hok : OkN d n) :
    (items d).Pairwise (fun a b => a.rowid ≠ b.rowid) := by
  have h1 : d.cache.rows.Pairwise (fun a b => a.rowid ≠ b.rowid) :=
    List.Pairwise.imp (fun h => Nat.ne_of_lt h) hok.good.tinv.tbl.asc
  show (qrows d.cache.rows none).Pairwise _
  unfold qrows
  refine (List.Perm.pairwise_iff ?_ (isort_perm _ _)).2 (List.Pairwise.filter _ h1)
  intro a b hab; exact fun h => hab h.symm

/-- removing the item of a row: what is left -/
theorem delrow_state (d : Deque) (n : Nat) (E : Externals) (now : Int) (r : Row) (p : Nat)
    (hok : OkN d n) (hdisk : d.cache.cfg.disk = .pickle) (hp : (items d)[p]? = some r) :
    let c' := (d.cache.delitem E now (keyOfRow E d.cache r)).1
    (d.cache.delitem E now (keyOfRow E d.cache r)).2 = .bool true ∧
    Cache.Good c' ∧ c'.cfg = d.cache.cfg ∧ c'.statistics = d.cache.statistics ∧
    c'.rows = d.cache.rows.filter (fun x => x.rowid != r.rowid) ∧
    (∀ a ∈ c'.rows, rf_ent c' a = rf_ent d.cache a) ∧
    items { d with cache := c' } = (items d).eraseIdx p := by
  intro c'
  have hrm : r ∈ d.cache.rows := Ok.mem_rows (List.mem_of_getElem? hp)
  have hK := key_roundtrip d n E r hok hdisk hrm
  have hkm : keyMatch r.key r.raw r = true := by
    unfold keyMatch
    simp only [Bool.and_eq_true, beq_self_eq_true, and_true]
    exact eqv_self (hok.good.tinv.tbl.nonnull r hrm)
  have hsel : d.cache.selLive (DC.put E d.cache.cfg.disk (keyOfRow E d.cache r)).1
      (DC.put E d.cache.cfg.disk (keyOfRow E d.cache r)).2 now = some r := by
    have : DC.put E d.cache.cfg.disk (keyOfRow E d.cache r) = irf_key r := hK
    rw [this]
    exact selLive_of_mem hok.good.tinv.tbl.uniq hrm hkm (live_of_noexp (hok.noexp r hrm) now)
  obtain ⟨ho, hrows, hcfg, -, -⟩ := delitem_some d.cache E now (keyOfRow E d.cache r) r hsel
  obtain ⟨-, habs, -, hinv⟩ := irf_delitem d.cache E now (keyOfRow E d.cache r) hok.irf
  have hst := drf_delitem_stats d.cache E now (keyOfRow E d.cache r) hok.good.depth
  have hhas : (irf_abs d.cache).has (irf_key r) = true := by
    rw [irf_abs_has, List.any_eq_true]
    exact ⟨r, hrm, hkm⟩
  have hent : ∀ a ∈ c'.rows, rf_ent c' a = rf_ent d.cache a := by
    have h1 : irf_abs c' = (irf_abs d.cache).del (irf_key r) := by
      rw [habs]; unfold OSpec.delitem; rw [hK, hhas]; rfl
    have h2 : c'.rows = d.cache.rows.filter (fun x => !keyMatch (irf_key r).1 (irf_key r).2 x) := by
      have := (irf_del_rows d.cache E now (keyOfRow E d.cache r) hok.irf).1
      rw [hK] at this; exact this
    have h3 : c'.rows.map (fun a => (irf_key a, rf_ent c' a)) =
        c'.rows.map (fun a => (irf_key a, rf_ent d.cache a)) := by
      show irf_abs c' = _
      rw [h1, h2]
      unfold ODict.del irf_abs
      rw [List.filter_map]
      rfl
    intro a ha
    exact congrArg Prod.snd (List.map_inj_left.1 h3 a ha)
  refine ⟨ho, hinv.good, hcfg, hst, hrows, hent, ?_⟩
  show qrows c'.rows none = _
  rw [hrows, qrows_filter hok.good.tinv.tbl.uniq hok.good.tinv.tbl.nonnull]
  exact drf_filter_erase _ p r (items_rowids d n hok) hp

theorem delitem_drefines (d : Deque) (m : DList) (n : Nat) (E : Externals) (now : Int) (i : Int)
    (hok : OkN d n) (hr : DRefines d m)
    (hdisk : d.cache.cfg.disk = .pickle) -- added: the key of the item is read back by the pickle `Disk`
    : (d.delitem E now i).2 = (DSpec.delitem m i).2 ∧
    DRefines (d.delitem E now i).1 (DSpec.delitem m i).1 := by
  have hidx := rowAt_index d n i hok
  unfold DSpec.delitem
  rw [hr.length]
  cases hpos : position (items d).length i with
  | none =>
    rw [position_none_index _ i hpos] at hidx
    rw [delitem_none' d E now i hidx]
    exact ⟨rfl, hr⟩
  | some p =>
    obtain ⟨r, hp, hix⟩ := position_some_index _ i p hpos
    rw [hix] at hidx
    rw [delitem_some' d E now i r hidx]
    obtain ⟨ho, -, -, -, -, hent, hitems⟩ := delrow_state d n E now r p hok hdisk hp
    simp only
    refine ⟨by rw [ho], ?_, hr.2⟩
    show (items _).map (entryOfRow _) = m.items.eraseIdx p
    rw [hitems, ← hr.1, ← drf_map_eraseIdx]
    apply List.map_congr_left
    intro a ha
    apply hent
    have : a ∈ items { d with cache := (d.cache.delitem E now (keyOfRow E d.cache r)).1 } := by
      rw [hitems]; exact ha
    exact Ok.mem_rows this

theorem delrow_okN (d : Deque) (n : Nat) (E : Externals) (now : Int) (r : Row) (p : Nat)
    (hok : OkN d n) (hdisk : d.cache.cfg.disk = .pickle) (hp : (items d)[p]? = some r) :
    OkN { d with cache := (d.cache.delitem E now (keyOfRow E d.cache r)).1 } n := by
  obtain ⟨-, hg, hcfg, hst, hrows, hent, hitems⟩ := delrow_state d n E now r p hok hdisk hp
  refine hok.shrink hg hcfg hst rfl ?_ hent ?_
  · intro a ha
    have ha' : a ∈ (d.cache.delitem E now (keyOfRow E d.cache r)).1.rows := ha
    rw [hrows] at ha'; exact (List.mem_filter.1 ha').1
  · rw [hitems, List.length_eraseIdx]
    split <;> omega

theorem delitem_okN (d : Deque) (n : Nat) (E : Externals) (now : Int) (i : Int)
    (hok : OkN d n) (hdisk : d.cache.cfg.disk = .pickle) : OkN (d.delitem E now i).1 n := by
  have hidx := rowAt_index d n i hok
  cases hpos : position (items d).length i with
  | none =>
    rw [position_none_index _ i hpos] at hidx
    rw [delitem_none' d E now i hidx]
    exact hok
  | some p =>
    obtain ⟨r, hp, hix⟩ := position_some_index _ i p hpos
    rw [hix] at hidx
    rw [delitem_some' d E now i r hidx]
    exact delrow_okN d n E now r p hok hdisk hp

theorem delitem_cfg (d : Deque) (n : Nat) (E : Externals) (now : Int) (i : Int)
    (hok : OkN d n) : (d.delitem E now i).1.cache.cfg = d.cache.cfg := by
  unfold delitem
  cases d.rowAt i with
  | none => rfl
  | some r => exact (irf_del_rows d.cache E now (keyOfRow E d.cache r) hok.irf).2

end DC.Deque
