/-
C09 — size-based eviction starts only at the size limit and follows the
configured policy order.  All statements quantify over every table, every
clock value and every observation of the database file size (`env`).
-/
import DC.Proofs.Cull

namespace DC.Cache

/-- the policy key of a row -/
def policyKey (p : Policy) (r : Row) : Int :=
  match p with
  | .lrs => r.storeT
  | .lru => r.accT
  | .lfu => r.accN
  | .none => 0

/-- a write with `cull_limit = 0` removes nothing -/
theorem cull_zero (s : Cache) (now : Int) (h : s.cfg.cullLimit = 0) :
    (s.cullW now).1 = s ∧ (s.cullW now).2 = [] := by
  unfold cullW
  simp [h]

/-- one write removes at most `cull_limit` rows and only removes (never adds or alters) -/
theorem evict_bound (s : Cache) (now : Int) (hasc : RowidsAsc s.rows) :
    (s.cullW now).1.rows.Sublist s.rows ∧
    s.rows.length ≤ (s.cullW now).1.rows.length + s.cfg.cullLimit :=
  ⟨cullW_sublist s now hasc, cullW_length s now hasc⟩

/-- policy 'none' (Deque, Index) never evicts: only expired rows leave -/
theorem policy_none_never (s : Cache) (now : Int) (hasc : RowidsAsc s.rows)
    (h : s.cfg.policy = .none) :
    ∀ r ∈ s.rows, r ∉ (s.cullW now).1.rows → expired now r = true := by
  intro r hr hnot
  cases hex : expired now r with
  | true => rfl
  | false => exact absurd h (cullW_removed s now hasc r hr hnot hex).1

/-- below the size limit the policy part removes nothing: only expired rows leave.
`pb` is the observed database size of the `volume()` call. -/
theorem evict_only_at_limit (s : Cache) (now : Int) (hasc : RowidsAsc s.rows) (pb : Nat) (rest : List Nat)
    (henv : s.env = pb :: rest)
    (hbelow : belowLimit s.cfg ((pb : Int) +
        (s.delIn ((s.selExpired now s.cfg.cullLimit).map (·.rowid))).size) = true) :
    ∀ r ∈ s.rows, r ∉ (s.cullW now).1.rows → expired now r = true := by
  intro r hr hnot
  cases hex : expired now r with
  | true => rfl
  | false =>
    have h1 := (cullW_removed s now hasc r hr hnot hex).2.1 pb rest henv
    rw [h1] at hbelow; cases hbelow

/-- expired rows go first: if fewer than `cull_limit` rows were expired, none is left -/
theorem expired_first (s : Cache) (now : Int) (hasc : RowidsAsc s.rows)
    (h : (s.rows.filter (expired now)).length ≤ s.cfg.cullLimit) :
    ∀ r ∈ (s.cullW now).1.rows, expired now r = false := by
  intro r hr
  cases hex : expired now r with
  | false => rfl
  | true =>
    have hrs : r ∈ s.rows := (cullW_sublist s now hasc).subset hr
    exact absurd (selExpired_all h hrs hex) (cullW_not_selExpired s now hasc r hr)

/-- eviction order: every unexpired row evicted by the policy is no younger (in the
policy's key: store time / access time / access count) than every surviving row -/
theorem evict_order (s : Cache) (now : Int) (hasc : RowidsAsc s.rows) :
    ∀ v ∈ s.rows, v ∉ (s.cullW now).1.rows → expired now v = false →
    ∀ w ∈ (s.cullW now).1.rows, policyKey s.cfg.policy v ≤ policyKey s.cfg.policy w := by
  intro v hv hnot hex w hw
  have h := (cullW_removed s now hasc v hv hnot hex).2.2 w hw
  revert h
  cases s.cfg.policy <;> simp [policyLt, policyKey]

/-- reads refresh the policy key: under LRU a successful `get` sets the access time to now,
under LFU it increments the access count; `set` resets both -/
theorem read_refreshes (p : Policy) (now : Int) (r : Row) :
    (p = .lru → (touchPolicy p now r).accT = now) ∧
    (p = .lfu → (touchPolicy p now r).accN = r.accN + 1) ∧
    (touchPolicy p now r).key = r.key ∧ (touchPolicy p now r).rowid = r.rowid := by
  cases p <;> simp [touchPolicy]

/-- explicit `cull()`: afterwards no expired row remains -/
theorem cull_no_expired (s : Cache) (now : Int) (hasc : RowidsAsc s.rows) (hp : 0 < s.cfg.page) :
    ∀ r ∈ (s.cull now).1.rows, expired now r = false := by
  intro r hr
  have := (List.mem_filter.1 ((cull_spec s now hasc hp).1.subset hr)).2
  simpa using this

/-- explicit `cull()` with policy 'none' removes exactly the expired rows and returns
their number (fix D5: it used to return 0) -/
theorem cull_none (s : Cache) (now : Int) (hasc : RowidsAsc s.rows) (hp : 0 < s.cfg.page)
    (h : s.cfg.policy = .none) :
    (s.cull now).1.rows = s.rows.filter (fun r => !(expired now r)) ∧
    (s.cull now).2 = .int (s.rows.filter (expired now)).length :=
  (cull_spec s now hasc hp).2.2 h

/-- explicit `cull()` returns the number of rows it removed -/
theorem cull_count (s : Cache) (now : Int) (hasc : RowidsAsc s.rows) (hp : 0 < s.cfg.page) :
    (s.cull now).2 = .int ((s.rows.length : Int) - (s.cull now).1.rows.length) := by
  obtain ⟨k, hk, hlen⟩ := (cull_spec s now hasc hp).2.1
  rw [hk]
  exact congrArg Out.int (by omega)

/-- the fuel of the policy loop of `cull()` is never what stops it: with batch ≥ 1 every
round removes a row, so `rows + 1` rounds suffice for every observation sequence — the
model loop is the `while volume() > size_limit` loop of the code, and it terminates -/
theorem cullLoop_fuel (s : Cache) (n k : Nat) (hb : 0 < s.cfg.batch) (hasc : RowidsAsc s.rows) :
    cullLoop (s.rows.length + 1 + k) s n = cullLoop (s.rows.length + 1) s n :=
  cullLoop_fuel_irrel _ _ s n hb hasc (by omega) (by omega)

/-- one round of the policy loop: it stops exactly when the observed volume is within the
limit or the table is empty -/
theorem cullLoop_stop (s : Cache) (n fuel : Nat) (pb : Nat) (rest : List Nat) (henv : s.env = pb :: rest)
    (h : aboveLimit s.cfg ((pb : Int) + s.size) = false) :
    (cullLoop (fuel + 1) s n).1.rows = s.rows ∧ (cullLoop (fuel + 1) s n).2 = n := by
  rw [cullLoop_succ, volume_snd_cons s pb rest henv, volume_cfg, h]
  simp

/-- non-vacuity: LRU table at its limit; the least recently used unexpired row goes -/
def exLruRow (i : Nat) (acc : Int) (sz : Nat) : Row :=
  { rowid := i, key := .int i, raw := true, storeT := 0, expT := none, accT := acc, accN := 0,
    tag := .null, size := sz, mode := 2, file := some i, val := .null }

def exLru : Cache :=
  { rows := [exLruRow 1 30 100, exLruRow 2 10 100, exLruRow 3 20 100], count := 3, size := 300,
    cfg := { policy := .lru, cullLimit := 1, limN := 250 }, env := [0] }

example : ((exLru.cullW 40).1.rows.map (·.rowid)) = [1, 3] := by decide

end DC.Cache

