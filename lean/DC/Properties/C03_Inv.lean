/-
C03 / C08 (sequential part) — every public method keeps the table well formed:
rowids ascending and positive, no two rows with equal (key, raw), no NULL key,
Settings.count = number of rows, Settings.size = sum of the rows' sizes — for
every state, every argument, every clock value, every observation, inside and
outside transaction blocks (the snapshot a ROLLBACK restores is well formed too).
By induction this holds after every finite call history (`run_inv`).
-/
import DC.Proofs.Inv

namespace DC.Cache

theorem inv_init (c : Cfg) (st : Bool) : TableInv ({ cfg := c, statistics := st } : Cache) := by
  sorry

theorem set_inv (s : Cache) (E : Externals) (now : Int) (k v : PyVal) (ttl : Option Int) (read : Bool)
    (tag : SqlVal) (h : TableInv s) : TableInv (s.set E now k v ttl read tag).1 := by
  sorry

theorem add_inv (s : Cache) (E : Externals) (now : Int) (k v : PyVal) (ttl : Option Int) (read : Bool)
    (tag : SqlVal) (h : TableInv s) : TableInv (s.add E now k v ttl read tag).1 := by
  sorry

theorem touch_inv (s : Cache) (E : Externals) (now : Int) (k : PyVal) (ttl : Option Int)
    (h : TableInv s) : TableInv (s.touch E now k ttl).1 := by
  sorry

theorem incr_inv (s : Cache) (E : Externals) (now : Int) (k : PyVal) (delta : Int) (dflt : Option Int)
    (h : TableInv s) : TableInv (s.incr E now k delta dflt).1 := by
  sorry

theorem get_inv (s : Cache) (E : Externals) (now : Int) (k : PyVal) (read et tg : Bool)
    (h : TableInv s) : TableInv (s.get E now k read et tg).1 := by
  sorry

theorem contains_inv (s : Cache) (E : Externals) (now : Int) (k : PyVal)
    (h : TableInv s) : TableInv (s.contains E now k).1 := by
  sorry

theorem pop_inv (s : Cache) (E : Externals) (now : Int) (k : PyVal) (et tg : Bool)
    (h : TableInv s) : TableInv (s.pop E now k et tg).1 := by
  sorry

theorem delitem_inv (s : Cache) (E : Externals) (now : Int) (k : PyVal)
    (h : TableInv s) : TableInv (s.delitem E now k).1 := by
  sorry

theorem delete_inv (s : Cache) (E : Externals) (now : Int) (k : PyVal)
    (h : TableInv s) : TableInv (s.delete E now k).1 := by
  sorry

theorem push_inv (s : Cache) (E : Externals) (now : Int) (v : PyVal) (pfx : Option Str) (back : Bool)
    (ttl : Option Int) (read : Bool) (tag : SqlVal) (h : TableInv s) :
    TableInv (s.push E now v pfx back ttl read tag).1 := by
  sorry

theorem pull_inv (s : Cache) (E : Externals) (now : Int) (pfx : Option Str) (front et tg : Bool)
    (h : TableInv s) : TableInv (s.pull E now pfx front et tg).1 := by
  sorry

theorem peek_inv (s : Cache) (E : Externals) (now : Int) (pfx : Option Str) (front et tg : Bool)
    (h : TableInv s) : TableInv (s.peek E now pfx front et tg).1 := by
  sorry

theorem peekitem_inv (s : Cache) (E : Externals) (now : Int) (last et tg : Bool)
    (h : TableInv s) : TableInv (s.peekitem E now last et tg).1 := by
  sorry

theorem clear_inv (s : Cache) (h : TableInv s) : TableInv (s.clear).1 := by
  sorry

theorem evict_inv (s : Cache) (tag : SqlVal) (h : TableInv s) : TableInv (s.evict tag).1 := by
  sorry

theorem expire_inv (s : Cache) (now : Int) (h : TableInv s) : TableInv (s.expire now).1 := by
  sorry

theorem cull_inv (s : Cache) (now : Int) (h : TableInv s) : TableInv (s.cull now).1 := by
  sorry

theorem iter_inv (s : Cache) (E : Externals) (asc : Bool) (h : TableInv s) : TableInv (s.iter E asc).1 := by
  sorry

theorem iterkeys_inv (s : Cache) (E : Externals) (rev : Bool) (h : TableInv s) :
    TableInv (s.iterkeys E rev).1 := by
  sorry

theorem len_inv (s : Cache) (h : TableInv s) : TableInv (s.len).1 := by
  sorry

theorem stats_inv (s : Cache) (enable reset : Bool) (h : TableInv s) : TableInv (s.stats enable reset).1 := by
  sorry

theorem tbegin_inv (s : Cache) (h : TableInv s) : TableInv s.tbegin := by
  sorry

theorem tend_inv (s : Cache) (h : TableInv s) : TableInv s.tend := by
  sorry

theorem traise_inv (s : Cache) (n : Nat) (h : TableInv s) : TableInv (s.traise n) := by
  sorry

/-- `len()` is the number of stored rows in every reachable state -/
theorem len_exact (s : Cache) (h : TableInv s) : (s.len).2 = .int s.rows.length := by
  sorry

/-- a look-up addresses at most one row: the row found by key is the only row with that key -/
theorem lookup_unique (s : Cache) (h : TableInv s) (k : SqlVal) (raw : Bool) (r r' : Row)
    (hr : r ∈ s.rows) (hr' : r' ∈ s.rows) (hk : keyMatch k raw r = true) (hk' : keyMatch k raw r' = true)
    (hnn : k ≠ .null) : r = r' := by
  sorry

/-- nothing else is touched by `set`: every other row is unchanged, unless the lazy cull of
this write removed it (C04/C09 say which rows that can be) -/
theorem set_other_rows (s : Cache) (E : Externals) (now : Int) (k v : PyVal) (ttl : Option Int)
    (read : Bool) (tag : SqlVal) (h : TableInv s) :
    ∀ r ∈ (s.set E now k v ttl read tag).1.rows,
      keyMatch (DC.put E s.cfg.disk k).1 (DC.put E s.cfg.disk k).2 r = false → r ∈ s.rows := by
  sorry

/-- nothing else is touched by `delete`/`del`: exactly the live row of that key leaves -/
theorem delete_rows (s : Cache) (E : Externals) (now : Int) (k : PyVal) (h : TableInv s) :
    (s.delete E now k).1.rows =
      match s.selLive (DC.put E s.cfg.disk k).1 (DC.put E s.cfg.disk k).2 now with
      | some r => s.rows.filter (fun x => x.rowid != r.rowid)
      | none => s.rows := by
  sorry

/-- reads never change the set of stored keys and values -/
theorem get_rows_keys (s : Cache) (E : Externals) (now : Int) (k : PyVal) (read et tg : Bool) :
    (s.get E now k read et tg).1.rows.map (fun r => (r.rowid, r.key, r.raw, r.val, r.file, r.expT, r.tag)) =
    s.rows.map (fun r => (r.rowid, r.key, r.raw, r.val, r.file, r.expT, r.tag)) := by
  sorry

end DC.Cache
