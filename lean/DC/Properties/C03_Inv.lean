/-
C03 / C08 (sequential part) — every public method keeps the table well formed:
rowids ascending and positive, no two rows with equal (key, raw), no NULL key,
Settings.count = number of rows, Settings.size = sum of the rows' sizes — for
every state, every argument, every clock value, every observation, inside and
outside transaction blocks (the snapshot a ROLLBACK restores is well formed too).
By induction this holds after every finite call history (`run_inv`).
-/
import DC.Proofs.Inv
import DC.Model.Run

namespace DC.Cache

theorem inv_init (c : Cfg) (st : Bool) : TableInv ({ cfg := c, statistics := st } : Cache) := by
  exact ⟨TableOk.nil, nofun⟩

theorem set_inv (s : Cache) (E : Externals) (now : Int) (k v : PyVal) (ttl : Option Int) (read : Bool)
    (tag : SqlVal) (h : TableInv s) : TableInv (s.set E now k v ttl read tag).1 := by
  unfold set
  have hnn := put_ne_null' E s.cfg.disk k
  generalize DC.put E s.cfg.disk k = p at hnn ⊢
  rcases p with ⟨dbk, raw⟩
  simp only at hnn ⊢
  split
  · exact h
  · rename_i s' c hst
    obtain ⟨h', hrows⟩ := store_inv hst h
    apply transact_inv _ _ h'
    intro t ht _
    cases hold : t.selKey dbk raw with
    | none =>
      inv_auto
      exact insRow_inv _ _ _ _ (logSql_inv _ ht) hold hnn
    | some r => inv_auto

theorem add_inv (s : Cache) (E : Externals) (now : Int) (k v : PyVal) (ttl : Option Int) (read : Bool)
    (tag : SqlVal) (h : TableInv s) : TableInv (s.add E now k v ttl read tag).1 := by
  unfold add
  have hnn := put_ne_null' E s.cfg.disk k
  generalize DC.put E s.cfg.disk k = p at hnn ⊢
  rcases p with ⟨dbk, raw⟩
  simp only at hnn ⊢
  split
  · exact h
  · rename_i s' c hst
    obtain ⟨h', hrows⟩ := store_inv hst h
    apply transact_inv _ _ h'
    intro t ht _
    cases hold : t.selKey dbk raw with
    | none =>
      inv_auto
      exact insRow_inv _ _ _ _ (logSql_inv _ ht) hold hnn
    | some r => inv_auto

theorem touch_inv (s : Cache) (E : Externals) (now : Int) (k : PyVal) (ttl : Option Int)
    (h : TableInv s) : TableInv (s.touch E now k ttl).1 := by
  unfold touch
  rcases DC.put E s.cfg.disk k with ⟨dbk, raw⟩
  simp only
  apply transact_inv _ _ h
  intro t ht _
  inv_auto

theorem incr_inv (s : Cache) (E : Externals) (now : Int) (k : PyVal) (delta : Int) (dflt : Option Int)
    (h : TableInv s) : TableInv (s.incr E now k delta dflt).1 := by
  unfold incr
  have hnn := put_ne_null' E s.cfg.disk k
  generalize DC.put E s.cfg.disk k = p at hnn ⊢
  rcases p with ⟨dbk, raw⟩
  simp only at hnn ⊢
  apply transact_inv _ _ h
  intro t ht _
  cases hold : t.selKey dbk raw with
  | none =>
    simp only
    split
    · inv_auto
    · split
      · inv_auto
      · rename_i s' c hst
        obtain ⟨h', hrows⟩ := store_inv hst (logSql_inv "selKey" ht)
        have h'' := regCreated_inv c.file h'
        have hrows' : (s'.regCreated c.file).rows = (t.logSql "selKey").rows := by rw [regCreated_rows]; exact hrows
        inv_auto
        exact insRow_inv _ _ _ _ h'' ((selKey_congr hrows' dbk raw).trans hold) hnn
  | some r =>
    simp only
    split
    · split
      · inv_auto
      · split
        · inv_auto
        · rename_i s' c hst
          obtain ⟨h', hrows⟩ := store_inv hst (logSql_inv "selKey" ht)
          have h'' := regCreated_inv c.file h'
          inv_auto
    · inv_auto

theorem get_inv (s : Cache) (E : Externals) (now : Int) (k : PyVal) (read et tg : Bool)
    (h : TableInv s) : TableInv (s.get E now k read et tg).1 := by
  unfold get
  rcases DC.put E s.cfg.disk k with ⟨dbk, raw⟩
  simp only
  split
  · inv_auto
  · apply transact_inv _ _ h
    intro t ht _
    inv_auto
    all_goals (first | with_reducible apply setMisses_inv | with_reducible apply setHits_inv)
    all_goals inv_auto

theorem contains_inv (s : Cache) (E : Externals) (now : Int) (k : PyVal)
    (h : TableInv s) : TableInv (s.contains E now k).1 := by
  exact logSql_inv _ h

theorem pop_inv (s : Cache) (E : Externals) (now : Int) (k : PyVal) (et tg : Bool)
    (h : TableInv s) : TableInv (s.pop E now k et tg).1 := by
  unfold pop
  rcases DC.put E s.cfg.disk k with ⟨dbk, raw⟩
  simp only
  inv_auto

theorem delitem_inv (s : Cache) (E : Externals) (now : Int) (k : PyVal)
    (h : TableInv s) : TableInv (s.delitem E now k).1 := by
  unfold delitem
  rcases DC.put E s.cfg.disk k with ⟨dbk, raw⟩
  simp only
  apply transact_inv _ _ h
  intro t ht _
  inv_auto

theorem delete_fst (s : Cache) (E : Externals) (now : Int) (k : PyVal) :
    (s.delete E now k).1 = (s.delitem E now k).1 := by
  unfold delete
  split <;> simp_all

theorem delete_inv (s : Cache) (E : Externals) (now : Int) (k : PyVal)
    (h : TableInv s) : TableInv (s.delete E now k).1 := by
  rw [delete_fst]
  exact delitem_inv s E now k h

theorem push_inv (s : Cache) (E : Externals) (now : Int) (v : PyVal) (pfx : Option Str) (back : Bool)
    (ttl : Option Int) (read : Bool) (tag : SqlVal) (h : TableInv s) :
    TableInv (s.push E now v pfx back ttl read tag).1 := by
  unfold push
  split
  · exact h
  · rename_i s' c hst
    obtain ⟨h', hrows⟩ := store_inv hst h
    apply transact_inv _ _ h'
    intro t ht _
    simp only
    split
    · inv_auto
    · split
      · inv_auto
      · split
        · inv_auto
        · rename_i hsel _
          inv_auto
          refine insRow_inv _ _ _ _ (logSql_inv _ ht) ?_ (queueKey_ne_null _ _)
          cases hs : (t.logSql "selQueueEnd").selKey (queueKey pfx _) true with
          | none => rfl
          | some r => rw [hs] at hsel; simp at hsel

theorem pull_inv (s : Cache) (E : Externals) (now : Int) (pfx : Option Str) (front et tg : Bool)
    (h : TableInv s) : TableInv (s.pull E now pfx front et tg).1 := by
  exact pullLoop_inv E now pfx front et tg _ h

theorem peek_inv (s : Cache) (E : Externals) (now : Int) (pfx : Option Str) (front et tg : Bool)
    (h : TableInv s) : TableInv (s.peek E now pfx front et tg).1 := by
  exact peekLoop_inv E now pfx front et tg _ h

theorem peekitem_inv (s : Cache) (E : Externals) (now : Int) (last et tg : Bool)
    (h : TableInv s) : TableInv (s.peekitem E now last et tg).1 := by
  exact peekitemLoop_inv E now last et tg _ h

theorem clear_inv (s : Cache) (h : TableInv s) : TableInv (s.clear).1 := by
  show TableInv (clearLoop (s.rows.length + 1) s 0 0).1
  exact clearLoop_inv _ _ _ h

theorem evict_inv (s : Cache) (tag : SqlVal) (h : TableInv s) : TableInv (s.evict tag).1 := by
  show TableInv (evictLoop tag (s.rows.length + 1) s 0 0).1
  exact evictLoop_inv tag _ _ _ h

theorem expire_inv (s : Cache) (now : Int) (h : TableInv s) : TableInv (s.expire now).1 := by
  show TableInv (expireLoop now (s.rows.length + 1) s none 0).1
  exact expireLoop_inv now _ _ _ h

theorem cull_inv (s : Cache) (now : Int) (h : TableInv s) : TableInv (s.cull now).1 := by
  rw [cull_eq]
  split
  · exact expireLoop_inv now _ _ _ h
  · exact cullLoop_inv' _ _ (expireLoop_inv now _ _ _ h)

theorem iter_inv (s : Cache) (E : Externals) (asc : Bool) (h : TableInv s) : TableInv (s.iter E asc).1 := by
  unfold iter
  simp only
  split
  · exact logSql_inv _ h
  · exact iterLoop_inv asc _ _ _ _ (logSql_inv _ h)

theorem iterkeys_inv (s : Cache) (E : Externals) (rev : Bool) (h : TableInv s) :
    TableInv (s.iterkeys E rev).1 := by
  unfold iterkeys
  simp only
  split
  · exact logSql_inv _ h
  · exact iterkeysLoop_inv rev _ _ _ (logSql_inv _ h)

theorem len_inv (s : Cache) (h : TableInv s) : TableInv (s.len).1 := by
  exact logSql_inv _ h

theorem stats_inv (s : Cache) (enable reset : Bool) (h : TableInv s) : TableInv (s.stats enable reset).1 := by
  unfold stats
  simp only
  split
  · exact h.same rfl rfl rfl rfl
  · exact h.same rfl rfl rfl rfl

theorem tbegin_inv (s : Cache) (h : TableInv s) : TableInv s.tbegin := by
  exact tbegin_inv' h

theorem tend_inv (s : Cache) (h : TableInv s) : TableInv s.tend := by
  exact tend_inv' h

theorem traise_inv (s : Cache) (n : Nat) (h : TableInv s) : TableInv (s.traise n) := by
  exact traise_inv' n h

/-- `len()` is the number of stored rows in every reachable state -/
theorem len_exact (s : Cache) (h : TableInv s) : (s.len).2 = .int s.rows.length := by
  show Out.int s.count = _
  rw [h.tbl.count]

/-- a look-up addresses at most one row: the row found by key is the only row with that key -/
theorem lookup_unique (s : Cache) (h : TableInv s) (k : SqlVal) (raw : Bool) (r r' : Row)
    (hr : r ∈ s.rows) (hr' : r' ∈ s.rows) (hk : keyMatch k raw r = true) (hk' : keyMatch k raw r' = true)
    (hnn : k ≠ .null) : r = r' := by
  have _ := hnn
  exact keysUnique_eq h.tbl.uniq hr hr' hk hk'

/-- nothing else is touched by `set`: every other row is unchanged, unless the lazy cull of
this write removed it (C04/C09 say which rows that can be) -/
theorem set_other_rows (s : Cache) (E : Externals) (now : Int) (k v : PyVal) (ttl : Option Int)
    (read : Bool) (tag : SqlVal) (h : TableInv s) :
    ∀ r ∈ (s.set E now k v ttl read tag).1.rows,
      keyMatch (DC.put E s.cfg.disk k).1 (DC.put E s.cfg.disk k).2 r = false → r ∈ s.rows := by
  unfold set
  have hnn := put_ne_null' E s.cfg.disk k
  generalize DC.put E s.cfg.disk k = p at hnn ⊢
  rcases p with ⟨dbk, raw⟩
  simp only at hnn ⊢
  split
  · intro r hr _; exact hr
  · rename_i s' c hst
    obtain ⟨h', hrows⟩ := store_inv hst h
    refine transact_rows_of _ _ (fun l => ∀ r ∈ l, keyMatch dbk raw r = false → r ∈ s.rows) ?_
    intro t hr hc hz hs
    have ht : TableInv t := h'.same hr hc hz hs
    have hts : t.rows = s.rows := hr.trans hrows
    refine ⟨?_, fun _ => by rw [hrows]; intro r hr _; exact hr⟩
    split
    · intro r hr _; rw [← hts]; exact hr
    · split
      · intro r hr _; rw [← hts]; exact hr
      · cases hold : t.selKey dbk raw with
        | none =>
          intro r hr hkm
          have hI := insRow_inv dbk raw now
            { c with expT := ttl.map (now + ·), tag := tag } (logSql_inv "selKey" ht) hold hnn
          have hsub := cullW_sublist _ now hI.tbl.asc
          rcases insRow_mem _ _ _ _ (hsub.subset hr) with ⟨h1, h2⟩ | hm
          · simp [keyMatch, h1, h2, eqv_self hnn] at hkm
          · rw [← hts]; exact hm
        | some r0 =>
          intro r hr hkm
          have hr0 : r0 ∈ t.rows := List.mem_of_find?_eq_some hold
          have hk0 : keyMatch dbk raw r0 = true := List.find?_some hold
          have hU := updRow_inv r0.rowid now
            { c with expT := ttl.map (now + ·), tag := tag } (logSql_inv "selKey" ht)
          have hsub := cullW_sublist _ now hU.tbl.asc
          rcases updRow_mem (s := t.logSql "selKey") ht.tbl.asc hr0 now _ (hsub.subset hr) with ⟨h1, h2⟩ | hm
          · simp only [keyMatch, h1, h2] at hkm hk0
            rw [hk0] at hkm; cases hkm
          · rw [← hts]; exact hm

/-- nothing else is touched by `delete`/`del`: exactly the live row of that key leaves -/
theorem delete_rows (s : Cache) (E : Externals) (now : Int) (k : PyVal) (h : TableInv s) :
    (s.delete E now k).1.rows =
      match s.selLive (DC.put E s.cfg.disk k).1 (DC.put E s.cfg.disk k).2 now with
      | some r => s.rows.filter (fun x => x.rowid != r.rowid)
      | none => s.rows := by
  have _ := h
  rw [delete_fst]
  unfold delitem
  generalize DC.put E s.cfg.disk k = p
  rcases p with ⟨dbk, raw⟩
  simp only
  refine transact_rows_of _ _ (fun l => l = match s.selLive dbk raw now with
      | some r => s.rows.filter (fun x => x.rowid != r.rowid)
      | none => s.rows) ?_
  intro t hrows _ _ _
  rw [selLive_congr hrows]
  cases hsel : s.selLive dbk raw now with
  | none => exact ⟨hrows, fun _ => rfl⟩
  | some r =>
    refine ⟨?_, fun hc => by cases hc⟩
    show ((t.logSql "selLive").delRowQuiet r.rowid).rows = _
    rw [delRowQuiet_rows, logSql_rows, hrows]

/-- reads never change the set of stored keys and values -/
theorem get_rows_keys (s : Cache) (E : Externals) (now : Int) (k : PyVal) (read et tg : Bool) :
    (s.get E now k read et tg).1.rows.map (fun r => (r.rowid, r.key, r.raw, r.val, r.file, r.expT, r.tag)) =
    s.rows.map (fun r => (r.rowid, r.key, r.raw, r.val, r.file, r.expT, r.tag)) := by
  show (s.get E now k read et tg).1.rows.map readProj = s.rows.map readProj
  unfold get
  rcases DC.put E s.cfg.disk k with ⟨dbk, raw⟩
  simp only
  split
  · split
    · rfl
    · split <;> simp
  · refine transact_rows_of _ _ (fun l => l.map readProj = s.rows.map readProj) ?_
    intro t hrows _ _ _
    refine ⟨?_, fun _ => rfl⟩
    rw [← hrows]
    split
    · split <;> rfl
    · split
      · split <;> simp
      · split <;> split <;> simp [updGet_readProj]

end DC.Cache

namespace DC.Cache

/-- every single call keeps the table well formed -/
theorem step_inv (s : Cache) (op : Op) (h : TableInv s) : TableInv (s.step op).1 := by
  cases op with
  | set E now k v ttl read tag => exact set_inv s E now k v ttl read tag h
  | add E now k v ttl read tag => exact add_inv s E now k v ttl read tag h
  | touch E now k ttl => exact touch_inv s E now k ttl h
  | incr E now k delta dflt => exact incr_inv s E now k delta dflt h
  | get E now k read et tg => exact get_inv s E now k read et tg h
  | contains E now k => exact contains_inv s E now k h
  | pop E now k et tg => exact pop_inv s E now k et tg h
  | delitem E now k => exact delitem_inv s E now k h
  | delete E now k => exact delete_inv s E now k h
  | push E now v pfx back ttl read tag => exact push_inv s E now v pfx back ttl read tag h
  | pull E now pfx front et tg => exact pull_inv s E now pfx front et tg h
  | peek E now pfx front et tg => exact peek_inv s E now pfx front et tg h
  | peekitem E now last et tg => exact peekitem_inv s E now last et tg h
  | clear => exact clear_inv s h
  | evict tag => exact evict_inv s tag h
  | expire now => exact expire_inv s now h
  | cull now => exact cull_inv s now h
  | iter E asc => exact iter_inv s E asc h
  | iterkeys E rev => exact iterkeys_inv s E rev h
  | len => exact len_inv s h
  | stats enable reset => exact stats_inv s enable reset h
  | tbegin => exact tbegin_inv s h
  | tend => exact tend_inv s h
  | traise n => exact traise_inv s n h
  | observe env => exact ⟨h.tbl, h.snap⟩

/-- C03/C08: after EVERY finite call history — any methods, any arguments, any clock
trajectory, any observations, any nesting of transaction blocks, commits and aborts —
the table is well formed: no two rows for one key, `len` = number of rows,
Settings.size = Σ row sizes. -/
theorem run_inv (s : Cache) (ops : List Op) (h : TableInv s) : TableInv (s.run ops) := by
  induction ops generalizing s with
  | nil => exact h
  | cons op ops ih => exact ih _ (step_inv s op h)

/-- in particular for every history from an empty cache -/
theorem reachable_inv (c : Cfg) (st : Bool) (ops : List Op) :
    TableInv (({ cfg := c, statistics := st } : Cache).run ops) :=
  run_inv _ ops (inv_init c st)

end DC.Cache
