/-
C03 / C09 (refinement under an eviction policy) — for EVERY eviction policy the
Cache model refines the *lossy* reference dictionary: the dictionary of
DC/Model/Spec.lean in which, after each call, the environment may drop some
keys (`Spec.dropKeys`).  What the environment may drop is pinned down:

 * only the writing calls that run `_cull` (`set`, `add`, the (re)creating branch
   of `incr`) and the explicit `cull()` ever drop anything (`Evicted`);
 * nothing is dropped under policy `none`, with `cull_limit = 0`, or when the volume
   observed after the write is below the size limit (`Loss.polNone`, `Loss.limZero`,
   `Loss.vol`; `evicted_below_limit_simple`: in particular when pages + old size counter +
   size of the new value file are below the limit, via `WriteLoss.size`);
 * at most `cull_limit` keys minus the expired rows the same call removed (`Loss.count`);
 * every dropped key held an *unexpired* entry of the dictionary (`Lossy.was`) and
   precedes every surviving row in the policy's order (`Loss.order`);
 * the item just written CAN be among the dropped keys (`set_evicts_itself_lfu`,
   `set_evicts_itself_lrs_tie`).

The hit/miss statistics and the access-time / access-count columns that `get`
updates under `lru` / `lfu` are not part of the relation `Refines` (it compares
mode, value cell, file content, expiry time and tag only): `get_refines_any`.

Everything is stated for quiescent states (`Good c`), `0 < c.cfg.page` (as in
C03_Refine, for the bulk removals) and non-decreasing clocks.
-/
import DC.Properties.C03_Refine
import DC.Proofs.LossyCullOp

namespace DC.Cache
open DC.Spec

/-- `c'` represents the dictionary `m'` without the keys of the evicted rows `L`; every evicted
row held an entry of `m'` that was not expired at `now` -/
structure Lossy (c' : Cache) (m' : Spec.Dict) (now : Int) (L : List Row) : Prop where
  refines : Refines c' (dropKeys m' (L.map rowKey)) now
  was : ∀ r ∈ L, ∃ e, m'.get (rowKey r) = some e ∧ EntOf r e ∧ e.expired now = false

theorem lossy_nil {c' : Cache} {m' : Spec.Dict} {now : Int} (h : Refines c' m' now) :
    Lossy c' m' now [] :=
  ⟨by rw [List.map_nil, rf_dropKeys_nil]; exact h, fun _ h => absurd h List.not_mem_nil⟩

/-- policy `none` is the special case of the existing relation: nothing dropped -/
theorem lossy_nil_iff {c' : Cache} {m' : Spec.Dict} {now : Int} :
    Lossy c' m' now [] ↔ Refines c' m' now :=
  ⟨fun h => by have := h.refines; rw [List.map_nil, rf_dropKeys_nil] at this; exact this, lossy_nil⟩

theorem lossy_of_refines {o1 o2 : Out} {c' : Cache} {m' : Spec.Dict} {now : Int}
    (h : o1 = o2 ∧ Refines c' m' now) : o1 = o2 ∧ ∃ L, Lossy c' m' now L ∧ L = [] :=
  ⟨h.1, [], lossy_nil h.2, rfl⟩

/-- the size of the value file `Disk.store` writes for a placement (0: stored in the database) -/
def placedSize : Except StoreErr Placement → Int
  | .ok (.file _ ct) => ct.size
  | _ => 0

theorem entrySize_entryOf (p : Placement) (e : Option Int) (t : SqlVal) :
    entrySize (entryOf p e t) = placedSize (.ok p) := by
  cases p <;> rfl

/-- what a writing call (`set`, `add`, `incr`) may lose to eviction: `Loss` (DC/Proofs/LossyDefs.lean),
and the size counter before the eviction (final counter + sizes of the evicted rows) is at most
the counter before the call plus the size `w` of the value file written -/
structure WriteLoss (c c' : Cache) (K : Spec.Key) (now : Int) (w : Int) (L : List Row) : Prop where
  loss : Loss c c' K now L
  size : L ≠ [] → c'.size + sumSizes L ≤ c.size + w

theorem writeLoss_nil (c c' : Cache) (K : Spec.Key) (now : Int) (w : Int) : WriteLoss c c' K now w [] :=
  ⟨loss_nil _ _ _ _, fun h => absurd rfl h⟩

/-! ### `get` under every policy -/

/-- `get` returns what the dictionary returns and leaves the represented dictionary alone —
also under `lru` / `lfu`, where it rewrites access_time / access_count, and with statistics on -/
theorem get_refines_any (c : Cache) (m : Spec.Dict) (clock now : Int) (E : Externals) (k : PyVal)
    (read et tg : Bool)
    (hg : Good c) (hr : Refines c m clock) (hn : clock ≤ now) :
    (c.get E now k read et tg).2 = (Spec.get m E c.cfg now k read et tg).2 ∧
    Refines (c.get E now k read et tg).1 (Spec.get m E c.cfg now k read et tg).1 now := by
  rw [refines_iff] at hr ⊢
  have hK := rf_VRel_mono (hr.2 (keyOf E c.cfg k)) hn
  have hm : (Spec.get m E c.cfg now k read et tg).1 = m := by
    unfold Spec.get; split
    · split <;> rfl
    · rfl
  refine ⟨?_, ?_⟩
  · rw [rf_get_out' _ _ _ _ _ _ _ hg]
    unfold Spec.get
    rcases rf_VRel_cases hK with h | ⟨h, e, hd, -, hl⟩
    · rw [h]; cases m.get (keyOf E c.cfg k) with
      | none => rfl
      | some e => simp only; split <;> rfl
    · rw [h, hd]; simp [hl]
  · rw [hm]
    refine ⟨hr.1, fun k' => ?_⟩
    rw [rf_get_view c E now k read et tg hg]
    exact rf_VRel_mono (hr.2 k') hn

/-! ### the writing calls -/

theorem set_refines_lossy (c : Cache) (m : Spec.Dict) (clock now : Int) (E : Externals) (k v : PyVal)
    (ttl : Option Int) (read : Bool) (tag : SqlVal)
    (hg : Good c) (hr : Refines c m clock) (hn : clock ≤ now) :
    (c.set E now k v ttl read tag).2 = (Spec.set m E c.cfg now k v ttl read tag).2 ∧
    ∃ L, Lossy (c.set E now k v ttl read tag).1 (Spec.set m E c.cfg now k v ttl read tag).1 now L ∧
      WriteLoss c (c.set E now k v ttl read tag).1 (keyOf E c.cfg k) now
        (placedSize (place E c.cfg.disk c.cfg.minFileSize v read)) L := by
  rw [refines_iff] at hr
  have hA := rf_set_view_gen c E now k v ttl read tag hg
  have hsame : ∀ c' : Cache, (∀ k', rf_view c' k' = rf_view c k') → Lossy c' m now [] := by
    intro c' h
    apply lossy_nil
    rw [refines_iff]
    refine ⟨hr.1, fun k' => ?_⟩
    rw [h k']
    exact rf_VRel_mono (hr.2 k') hn
  unfold Spec.set
  cases hpl : place E c.cfg.disk c.cfg.minFileSize v read with
  | error e =>
    rw [hpl] at hA
    simp only at hA ⊢
    rw [hA]
    exact ⟨rfl, [], hsame _ (fun _ => rfl), writeLoss_nil _ _ _ _ _⟩
  | ok p =>
    rw [hpl] at hA
    simp only at hA ⊢
    split
    · rename_i hb
      rw [if_pos hb] at hA
      obtain ⟨L, hR, hL, hW, hS⟩ := rf_wrote_refines hr hn hA.2
      rw [entrySize_entryOf] at hS
      exact ⟨hA.1, L, ⟨(refines_iff _ _ _).2 hR, hW⟩, hL, fun _ => hS⟩
    · rename_i hb
      rw [if_neg hb] at hA
      exact ⟨hA.1, [], hsame _ hA.2, writeLoss_nil _ _ _ _ _⟩

theorem add_refines_lossy (c : Cache) (m : Spec.Dict) (clock now : Int) (E : Externals) (k v : PyVal)
    (ttl : Option Int) (read : Bool) (tag : SqlVal)
    (hg : Good c) (hr : Refines c m clock) (hn : clock ≤ now) :
    (c.add E now k v ttl read tag).2 = (Spec.add m E c.cfg now k v ttl read tag).2 ∧
    ∃ L, Lossy (c.add E now k v ttl read tag).1 (Spec.add m E c.cfg now k v ttl read tag).1 now L ∧
      WriteLoss c (c.add E now k v ttl read tag).1 (keyOf E c.cfg k) now
        (placedSize (place E c.cfg.disk c.cfg.minFileSize v read)) L := by
  rw [refines_iff] at hr
  have hA := rf_add_view_gen c E now k v ttl read tag hg
  have hK := rf_VRel_mono (hr.2 (keyOf E c.cfg k)) hn
  have hsame : ∀ c' : Cache, (∀ k', rf_view c' k' = rf_view c k') → Lossy c' m now [] := by
    intro c' h
    apply lossy_nil
    rw [refines_iff]
    refine ⟨hr.1, fun k' => ?_⟩
    rw [h k']
    exact rf_VRel_mono (hr.2 k') hn
  unfold Spec.add
  cases hpl : place E c.cfg.disk c.cfg.minFileSize v read with
  | error e =>
    rw [hpl] at hA
    simp only at hA ⊢
    rw [hA]
    exact ⟨rfl, [], hsame _ (fun _ => rfl), writeLoss_nil _ _ _ _ _⟩
  | ok p =>
    rw [hpl] at hA
    simp only at hA ⊢
    rw [rf_has_dict, ← rf_has_rel hK]
    split
    · rename_i hb
      rw [if_pos hb] at hA
      exact ⟨hA.1, [], hsame _ hA.2, writeLoss_nil _ _ _ _ _⟩
    · rename_i hb
      rw [if_neg hb] at hA
      split
      · rename_i hh
        rw [if_pos hh] at hA
        exact ⟨hA.1, [], hsame _ hA.2, writeLoss_nil _ _ _ _ _⟩
      · rename_i hh
        rw [if_neg hh] at hA
        split
        · rename_i hcb
          rw [if_pos hcb] at hA
          obtain ⟨L, hR, hL, hW, hS⟩ := rf_wrote_refines hr hn hA.2
          rw [entrySize_entryOf] at hS
          exact ⟨hA.1, L, ⟨(refines_iff _ _ _).2 hR, hW⟩, hL, fun _ => hS⟩
        · rename_i hcb
          rw [if_neg hcb] at hA
          exact ⟨hA.1, [], hsame _ hA.2, writeLoss_nil _ _ _ _ _⟩

/-- the size of the value file the (re)creating branch of `incr` writes -/
def incrWriteSize (E : Externals) (cfg : Cfg) (delta : Int) (dflt : Option Int) : Int :=
  match dflt with
  | some d => placedSize (place E cfg.disk cfg.minFileSize (.int (d + delta)) false)
  | none => 0

theorem incr_fresh_refines_lossy {c c' : Cache} {m : Spec.Dict} {clock now : Int} {o : Out}
    {E : Externals} {k : PyVal} {delta : Int} {dflt : Option Int}
    (hr : m.WF ∧ ∀ k, rf_VRel (rf_view c k) (m.get k) clock) (hn : clock ≤ now)
    (hF : rf_IncrFreshG c c' o E (keyOf E c.cfg k) now delta dflt) :
    o = (specIncrFresh m E c.cfg k delta dflt).2 ∧
    ∃ L, Lossy c' (specIncrFresh m E c.cfg k delta dflt).1 now L ∧
      WriteLoss c c' (keyOf E c.cfg k) now (incrWriteSize E c.cfg delta dflt) L := by
  unfold rf_IncrFreshG at hF
  unfold specIncrFresh incrWriteSize
  have hsame : (∀ k', rf_view c' k' = rf_view c k') → Lossy c' m now [] := by
    intro h
    apply lossy_nil
    rw [refines_iff]
    refine ⟨hr.1, fun k' => ?_⟩
    rw [h k']
    exact rf_VRel_mono (hr.2 k') hn
  cases dflt with
  | none => exact ⟨hF.1, [], hsame hF.2, writeLoss_nil _ _ _ _ _⟩
  | some d =>
    simp only at hF ⊢
    cases hpl : place E c.cfg.disk c.cfg.minFileSize (.int (d + delta)) false with
    | error e =>
      rw [hpl] at hF
      exact ⟨hF.1, [], hsame hF.2, writeLoss_nil _ _ _ _ _⟩
    | ok p =>
      rw [hpl] at hF
      obtain ⟨L, hR, hL, hW, hS⟩ := rf_wrote_refines hr hn hF.2
      rw [entrySize_entryOf] at hS
      exact ⟨hF.1, L, ⟨(refines_iff _ _ _).2 hR, hW⟩, hL, fun _ => hS⟩

theorem incr_refines_lossy (c : Cache) (m : Spec.Dict) (clock now : Int) (E : Externals) (k : PyVal)
    (delta : Int) (dflt : Option Int)
    (hg : Good c) (hr : Refines c m clock) (hn : clock ≤ now) :
    (c.incr E now k delta dflt).2 = (Spec.incr m E c.cfg now k delta dflt).2 ∧
    ∃ L, Lossy (c.incr E now k delta dflt).1 (Spec.incr m E c.cfg now k delta dflt).1 now L ∧
      WriteLoss c (c.incr E now k delta dflt).1 (keyOf E c.cfg k) now (incrWriteSize E c.cfg delta dflt) L := by
  rw [refines_iff] at hr
  have hA := rf_incr_view_gen c E now k delta dflt hg
  have hK := rf_VRel_mono (hr.2 (keyOf E c.cfg k)) hn
  have hsame : (∀ k', rf_view (c.incr E now k delta dflt).1 k' = rf_view c k') →
      Lossy (c.incr E now k delta dflt).1 m now [] := by
    intro h
    apply lossy_nil
    rw [refines_iff]
    refine ⟨hr.1, fun k' => ?_⟩
    rw [h k']
    exact rf_VRel_mono (hr.2 k') hn
  rw [specIncr_eq]
  rcases rf_VRel_cases hK with h | ⟨h, e, hd, he, -⟩
  · rw [h] at hA
    cases hd : m.get (keyOf E c.cfg k) with
    | none =>
      rw [hd] at hA
      exact incr_fresh_refines_lossy hr hn hA
    | some e =>
      rw [hd] at hA
      simp only at hA ⊢
      by_cases hx : e.expired now = true
      · rw [if_pos hx] at hA ⊢
        exact incr_fresh_refines_lossy hr hn hA
      · rw [if_neg hx] at hA ⊢
        cases hval : e.val with
        | int i =>
          rw [hval] at hA
          simp only at hA ⊢
          by_cases hin : inI64 (i + delta) = true
          · rw [if_pos hin] at hA ⊢
            refine ⟨hA.1, [], lossy_nil ?_, writeLoss_nil _ _ _ _ _⟩
            rw [refines_iff]
            refine ⟨rf_wf_put hr.1 _ _, ?_⟩
            refine rf_assemble (upd := fun _ => some { e with val := .int (i + delta) }) hr.2 hn
              (fun k' => .inl ?_) (fun k' => rf_get_put _ _ _ _) (fun _ _ _ => rf_VRel_refl _ _)
            exact hA.2 k'
          · rw [if_neg hin] at hA ⊢
            exact ⟨hA.1, [], hsame hA.2, writeLoss_nil _ _ _ _ _⟩
        | null => rw [hval] at hA; exact ⟨hA.1, [], hsame hA.2, writeLoss_nil _ _ _ _ _⟩
        | real b => rw [hval] at hA; exact ⟨hA.1, [], hsame hA.2, writeLoss_nil _ _ _ _ _⟩
        | text b => rw [hval] at hA; exact ⟨hA.1, [], hsame hA.2, writeLoss_nil _ _ _ _ _⟩
        | blob b => rw [hval] at hA; exact ⟨hA.1, [], hsame hA.2, writeLoss_nil _ _ _ _ _⟩
  · rw [h] at hA
    rw [hd]
    simp only at hA ⊢
    rw [if_pos he]
    exact incr_fresh_refines_lossy hr hn hA

/-! ### the explicit `cull()` under a policy -/

/-- `cull()`: the expired entries go (as in the dictionary's `cull`), and the keys of the rows
evicted by the policy loop are dropped; `CullLoss` says which rows these can be, when the loop
starts and stops, and what the call returns -/
theorem cull_refines_lossy (c : Cache) (m : Spec.Dict) (clock now : Int)
    (hg : Good c) (hpg : 0 < c.cfg.page) (hr : Refines c m clock) (hn : clock ≤ now) :
    ∃ L, Lossy (c.cull now).1 (Spec.cull m now).1 now L ∧
      CullLoss c (c.cull now).1 (c.cull now).2 now L := by
  rw [refines_iff] at hr
  obtain ⟨hsub, -, hloss⟩ := rf_cull_lossy c now hg hpg
  have hview := rf_cull_view c now hg hpg
  have hv1 : ∀ k, rf_VRel ((rf_view c k).filter (fun e => !e.expired now))
      ((Spec.cull m now).1.get k) now := by
    intro k
    show rf_VRel _ (Dict.get (m.filter (fun p => !p.2.expired now)) k) now
    rw [rf_get_filter hr.1 (fun e => !e.expired now)]
    exact rf_VRel_filter _ (rf_VRel_mono (hr.2 k) hn)
  refine ⟨_, ⟨?_, ?_⟩, hloss⟩
  · rw [refines_iff]
    exact ⟨rf_wf_dropKeys (rf_wf_filter hr.1 _) _, rf_VRel_lossy hview hv1⟩
  · intro r hrL
    obtain ⟨hrX, hre, -⟩ := mem_lostRows.1 hrL
    have hrc : r ∈ c.rows := (List.mem_filter.1 hrX).1
    have hkm : keyMatch r.key r.raw r = true := rf_keyMatch_self (hg.tinv.tbl.nonnull r hrc)
    have hvr : (rf_view c (rowKey r)).filter (fun e => !e.expired now) = some (rf_ent c r) := by
      unfold rf_view rf_look
      show ((c.rows.find? (keyMatch r.key r.raw)).map (rf_ent c)).filter _ = _
      rw [rf_find_of_mem hg.tinv.tbl.uniq hrc hkm]
      simp [Option.filter, rf_ent_expired, hre]
    refine ⟨rf_ent c r, rf_VRel_some (hv1 (rowKey r)) hvr, ⟨rfl, rfl, rfl, rfl⟩, ?_⟩
    rw [rf_ent_expired]; exact hre

/-! ### one call -/

/-- what one call may evict: `L` are the rows evicted by `op` in state `c` -/
def Evicted (c : Cache) (op : Op) (L : List Row) : Prop :=
  match op with
  | .set E now k v _ read _ => WriteLoss c (c.step op).1 (keyOf E c.cfg k) now
      (placedSize (place E c.cfg.disk c.cfg.minFileSize v read)) L
  | .add E now k v _ read _ => WriteLoss c (c.step op).1 (keyOf E c.cfg k) now
      (placedSize (place E c.cfg.disk c.cfg.minFileSize v read)) L
  | .incr E now k delta dflt => WriteLoss c (c.step op).1 (keyOf E c.cfg k) now
      (incrWriteSize E c.cfg delta dflt) L
  | .cull now => CullLoss c (c.step op).1 (c.step op).2 now L
  | _ => L = []

/-- **one call, every policy**: its result is the dictionary's result, and the state after it
represents the dictionary after it minus the keys of the rows `L` the call evicted -/
theorem step_refines_lossy (c : Cache) (m : Spec.Dict) (clock : Int) (op : Op)
    (hg : Good c)
    (hpg : 0 < c.cfg.page) -- page size of the bulk-removal loops, see `clear_refines`
    (hr : Refines c m clock) (hk : Keyed op = true)
    (hm : ∀ n, opClock op = some n → clock ≤ n) :
    (if Determined op then (c.step op).2 else .none) = (Spec.step m c.cfg op).2 ∧
    ∃ L, Lossy (c.step op).1 (Spec.step m c.cfg op).1 ((opClock op).getD clock) L ∧
      Evicted c op L := by
  cases op <;> simp only [Keyed, Bool.false_eq_true] at hk <;>
    simp only [step, Spec.step, Determined, opClock, Option.getD_some, Option.getD_none, if_true,
      Bool.false_eq_true, if_false, Evicted]
  · exact set_refines_lossy c m clock _ _ _ _ _ _ _ hg hr (hm _ rfl)
  · exact add_refines_lossy c m clock _ _ _ _ _ _ _ hg hr (hm _ rfl)
  · exact lossy_of_refines (touch_refines c m clock _ _ _ _ hg hr (hm _ rfl))
  · exact incr_refines_lossy c m clock _ _ _ _ _ hg hr (hm _ rfl)
  · exact lossy_of_refines (get_refines_any c m clock _ _ _ _ _ _ hg hr (hm _ rfl))
  · exact lossy_of_refines (contains_refines c m clock _ _ _ hg hr (hm _ rfl))
  · exact lossy_of_refines (pop_refines c m clock _ _ _ _ _ hg hr (hm _ rfl))
  · exact lossy_of_refines (delitem_refines c m clock _ _ _ hg hr (hm _ rfl))
  · exact lossy_of_refines (delete_refines c m clock _ _ _ hg hr (hm _ rfl))
  · exact ⟨rfl, [], lossy_nil (clear_refines c m clock hg hpg hr), rfl⟩
  · exact ⟨rfl, [], lossy_nil (evict_refines c m clock _ hg hpg hr), rfl⟩
  · exact ⟨rfl, [], lossy_nil (expire_refines c m clock _ hg hpg hr (hm _ rfl)), rfl⟩
  · exact ⟨rfl, cull_refines_lossy c m clock _ hg hpg hr (hm _ rfl)⟩

/-! ### what may be dropped, spelled out (C09) -/

/-- the calls that can evict at all -/
def evicts : Op → Bool
  | .set .. | .add .. | .incr .. | .cull .. => true
  | _ => false

/-- (a) every other call evicts nothing -/
theorem evicted_other {c : Cache} {op : Op} {L : List Row} (h : Evicted c op L)
    (hop : evicts op = false) : L = [] := by
  cases op <;> simp only [evicts, Bool.true_eq_false] at hop <;> exact h

/-- (a) policy `none` never evicts -/
theorem evicted_policy_none {c : Cache} {op : Op} {L : List Row} (h : Evicted c op L)
    (hp : c.cfg.policy = .none) : L = [] := by
  cases op <;> simp only [Evicted] at h <;> first | exact h | exact h.polNone hp | exact h.loss.polNone hp

/-- (a) with `cull_limit = 0` no write evicts (the explicit `cull()` does not look at `cull_limit`) -/
theorem evicted_cull_zero {c : Cache} {op : Op} {L : List Row} (h : Evicted c op L)
    (h0 : c.cfg.cullLimit = 0) (hop : ∀ now, op ≠ .cull now) : L = [] := by
  cases op <;> simp only [Evicted] at h <;> first | exact h | exact h.loss.limZero h0 | skip
  exact absurd rfl (hop _)

/-- the key a writing call writes -/
def writeKey (cfg : Cfg) : Op → Option Spec.Key
  | .set E _ k .. | .add E _ k .. | .incr E _ k .. => some (keyOf E cfg k)
  | _ => none

/-- the size of the value file a writing call writes -/
def opWriteSize (cfg : Cfg) : Op → Int
  | .set E _ _ v _ read _ | .add E _ _ v _ read _ => placedSize (place E cfg.disk cfg.minFileSize v read)
  | .incr E _ _ delta dflt => incrWriteSize E cfg delta dflt
  | _ => 0

/-- a writing call's `WriteLoss` -/
theorem evicted_write {c : Cache} {op : Op} {L : List Row} (h : Evicted c op L) {K : Spec.Key}
    (hK : writeKey c.cfg op = some K) :
    ∃ now, opClock op = some now ∧ WriteLoss c (c.step op).1 K now (opWriteSize c.cfg op) L := by
  cases op <;> simp only [writeKey, Option.some.injEq] at hK <;> try cases hK
  all_goals exact ⟨_, rfl, h⟩

/-- (a) a write evicts nothing when the volume observed after the write — database pages `pb`
plus the size counter after the write and the removal of expired rows, which is the final size
counter plus the sizes of whatever was evicted — is below the size limit -/
theorem evicted_below_limit {c : Cache} {op : Op} {L : List Row} (h : Evicted c op L) {K : Spec.Key}
    (hK : writeKey c.cfg op = some K) (pb : Nat) (rest : List Nat) (henv : c.env = pb :: rest)
    (hb : belowLimit c.cfg ((pb : Int) + (c.step op).1.size + sumSizes L) = true) : L = [] := by
  obtain ⟨now, -, hl⟩ := evicted_write h hK
  apply Classical.byContradiction
  intro hne
  rw [hl.loss.vol hne pb rest henv] at hb
  cases hb

theorem belowLimit_mono {cfg : Cfg} {a b : Int} (h : belowLimit cfg a = true) (hle : b ≤ a) :
    belowLimit cfg b = true := by
  unfold belowLimit at h ⊢
  simp only [decide_eq_true_eq] at h ⊢
  exact Int.lt_of_le_of_lt (Int.mul_le_mul_of_nonneg_right hle (Int.natCast_nonneg _)) h

/-- (a), in terms of the state before the call only: a write evicts nothing when the observed
database pages plus the size counter before the call plus the size of the value file it writes
are below the size limit -/
theorem evicted_below_limit_simple {c : Cache} {op : Op} {L : List Row} (h : Evicted c op L)
    {K : Spec.Key} (hK : writeKey c.cfg op = some K) (pb : Nat) (rest : List Nat)
    (henv : c.env = pb :: rest)
    (hb : belowLimit c.cfg ((pb : Int) + c.size + opWriteSize c.cfg op) = true) : L = [] := by
  obtain ⟨now, -, hl⟩ := evicted_write h hK
  apply Classical.byContradiction
  intro hne
  have h1 := hl.loss.vol hne pb rest henv
  have h2 := hl.size hne
  have := belowLimit_mono (b := (pb : Int) + (c.step op).1.size + sumSizes L) hb (by omega)
  rw [h1] at this
  cases this

/-- (b) one write evicts at most `cull_limit` rows — minus the expired rows the same write
removed (`expiredGone`: expired rows of other keys that are gone afterwards) -/
theorem evicted_bound {c : Cache} {op : Op} {L : List Row} (h : Evicted c op L) {K : Spec.Key}
    (hK : writeKey c.cfg op = some K) :
    L.length ≤ c.cfg.cullLimit ∧
    ∃ now, opClock op = some now ∧
      (L ≠ [] → L.length + expiredGone c (c.step op).1 K now ≤ c.cfg.cullLimit) := by
  obtain ⟨now, hnow, hl⟩ := evicted_write h hK
  refine ⟨?_, now, hnow, hl.loss.count⟩
  by_cases hne : L = []
  · rw [hne]; exact Nat.zero_le _
  · have := hl.loss.count hne; omega

/-- (c) eviction follows the policy order: an evicted row never has a larger policy key
(store time / access time / access count) than a surviving row -/
theorem evicted_order {c : Cache} {op : Op} {L : List Row} (h : Evicted c op L) :
    ∀ r ∈ L, ∀ w ∈ (c.step op).1.rows, policyKey c.cfg.policy r ≤ policyKey c.cfg.policy w := by
  cases op <;> simp only [Evicted] at h <;>
    first
      | exact h.order
      | exact h.loss.order
      | (intro r hr; rw [h] at hr; exact absurd hr List.not_mem_nil)

/-! ### histories -/

/-- the rows evicted along a history, one list per call -/
def EvictedRun (c : Cache) : List Op → List (List Row) → Prop
  | [], Ls => Ls = []
  | op :: ops, L :: Ls => Evicted c op L ∧ EvictedRun (c.step op).1 ops Ls
  | _ :: _, [] => False

theorem runLossy_nil (m : Spec.Dict) (cfg : Cfg) (ops : List Op) :
    Spec.runLossy m cfg ops [] = Spec.run m cfg ops := by
  induction ops generalizing m with
  | nil => rfl
  | cons op ops ih =>
    show Spec.runLossy (dropKeys (Spec.step m cfg op).1 []) cfg ops [] = _
    rw [rf_dropKeys_nil, ih]; rfl

theorem outsLossy_nil (m : Spec.Dict) (cfg : Cfg) (ops : List Op) :
    Spec.outsLossy m cfg ops [] = Spec.outs m cfg ops := by
  induction ops generalizing m with
  | nil => rfl
  | cons op ops ih =>
    show _ :: Spec.outsLossy (dropKeys (Spec.step m cfg op).1 []) cfg ops [] = _
    rw [rf_dropKeys_nil, ih]; rfl

/-- the history theorem with everything the induction carries -/
theorem run_refines_lossy_strong (c : Cache) (m : Spec.Dict) (clock : Int) (ops : List Op)
    (hg : Good c) (hpg : 0 < c.cfg.page)
    (hr : Refines c m clock) (hk : ∀ op ∈ ops, Keyed op = true) (hm : Monotone clock ops) :
    ∃ Ls : List (List Row), EvictedRun c ops Ls ∧
      outs c ops = Spec.outsLossy m c.cfg ops (Ls.map (·.map rowKey)) ∧
      Refines (c.run ops) (Spec.runLossy m c.cfg ops (Ls.map (·.map rowKey))) (lastClock clock ops) ∧
      Good (c.run ops) ∧ (c.run ops).cfg = c.cfg := by
  induction ops generalizing c m clock with
  | nil => exact ⟨[], rfl, rfl, hr, hg, rfl⟩
  | cons op ops ih =>
    have hkop := hk op (List.mem_cons_self)
    have hcfg := rf_step_cfg_gen c op hkop
    obtain ⟨hm1, hm'⟩ := (monotone_cons clock op ops).1 hm
    obtain ⟨ho, L, hL, hE⟩ := step_refines_lossy c m clock op hg hpg hr hkop hm1
    obtain ⟨Ls, h0, h1, h3, h4, h5⟩ := ih (c.step op).1 (dropKeys (Spec.step m c.cfg op).1 (L.map rowKey))
      ((opClock op).getD clock) (step_good c op hkop hg)
      (by rw [hcfg]; exact hpg) hL.refines (fun o ho => hk o (List.mem_cons_of_mem _ ho)) hm'
    rw [hcfg] at h1 h3 h5
    refine ⟨L :: Ls, ⟨hE, h0⟩, ?_, ?_, h4, h5⟩
    · show _ :: _ = _ :: _
      rw [ho, h1]; rfl
    · rw [run_cons]; exact h3

/-- **the history theorem for every eviction policy**: for every history of key-addressed calls
with a non-decreasing clock there is a list of evicted rows per call (`EvictedRun`: only where
and what C09 allows) such that every call returns what the reference dictionary returns when
the keys of those rows are dropped after each call, and the final states correspond -/
theorem run_refines_lossy (c : Cache) (m : Spec.Dict) (clock : Int) (ops : List Op)
    (hg : Good c) (hpg : 0 < c.cfg.page)
    (hr : Refines c m clock) (hk : ∀ op ∈ ops, Keyed op = true) (hm : Monotone clock ops) :
    ∃ Ls : List (List Row), EvictedRun c ops Ls ∧
      outs c ops = Spec.outsLossy m c.cfg ops (Ls.map (·.map rowKey)) ∧
      ∃ clock', Refines (c.run ops) (Spec.runLossy m c.cfg ops (Ls.map (·.map rowKey))) clock' := by
  obtain ⟨Ls, h0, h1, h2, -⟩ := run_refines_lossy_strong c m clock ops hg hpg hr hk hm
  exact ⟨Ls, h0, h1, _, h2⟩

/-- along a history on a cache without eviction policy nothing is ever dropped -/
theorem evictedRun_policy_none (c : Cache) (ops : List Op) (Ls : List (List Row))
    (hk : ∀ op ∈ ops, Keyed op = true) (hp : c.cfg.policy = .none) (h : EvictedRun c ops Ls) :
    ∀ L ∈ Ls, L = [] := by
  induction ops generalizing c Ls with
  | nil => intro L hL; rw [show Ls = [] from h] at hL; exact absurd hL List.not_mem_nil
  | cons op ops ih =>
    cases Ls with
    | nil => exact absurd h id
    | cons L0 Ls =>
      intro L hL
      rcases List.mem_cons.1 hL with rfl | hL
      · exact evicted_policy_none h.1 hp
      · exact ih (c.step op).1 Ls (fun o ho => hk o (List.mem_cons_of_mem _ ho))
          (by rw [rf_step_cfg_gen c op (hk op List.mem_cons_self)]; exact hp) h.2 L hL

/-- **what a user sees, every policy**: after any history of key-addressed calls with a
non-decreasing clock on a fresh cache, `get` returns exactly what `get` on the lossy dictionary
built by that history returns: the value *last stored* under the key (with its expiry time /
tag) if the key was stored and since then neither removed, nor expired at `now`, nor evicted —
never a stale or foreign value —, the default otherwise. -/
theorem get_after_history_lossy (cf : Cfg) (st : Bool) (ops : List Op) (E : Externals) (now : Int)
    (k : PyVal) (read et tg : Bool)
    (hpg : 0 < cf.page)
    (hk : ∀ op ∈ ops, Keyed op = true)
    (hm : Monotone 0 (ops ++ [.get E now k read et tg])) :
    ∃ Ls : List (List Row), EvictedRun ({ cfg := cf, statistics := st } : Cache) ops Ls ∧
      ((({ cfg := cf, statistics := st } : Cache).run ops).get E now k read et tg).2 =
        (Spec.get (Spec.runLossy [] cf ops (Ls.map (·.map rowKey))) E cf now k read et tg).2 := by
  obtain ⟨hm1, hm2⟩ := monotone_append 0 ops _ hm
  obtain ⟨Ls, h0, -, h2, h3, h4⟩ := run_refines_lossy_strong ({ cfg := cf, statistics := st } : Cache)
    [] 0 ops (good_init cf st) hpg (refines_init' cf st 0) hk hm1
  refine ⟨Ls, h0, ?_⟩
  have := (get_refines_any _ _ _ now E k read et tg h3 h2 (hm2 now rfl)).1
  rw [h4] at this
  exact this

/-- a value `get` returns is the dictionary's: if the lossy dictionary holds no live entry for
the key, `get` returns the default -/
theorem get_default_of_absent (m : Spec.Dict) (E : Externals) (cfg : Cfg) (now : Int) (k : PyVal)
    (read et tg : Bool) (h : m.has (keyOf E cfg k) now = false) :
    (Spec.get m E cfg now k read et tg).2 = defaultFlags et tg := by
  unfold Spec.get
  unfold Dict.has at h
  cases hd : m.get (keyOf E cfg k) with
  | none => rfl
  | some e => rw [hd] at h; simp only at h ⊢; rw [h]; rfl

/-! ### policy `none`: the lossless history theorem is the special case -/

theorem runLossy_nils (m : Spec.Dict) (cfg : Cfg) (ops : List Op) (drops : List (List Spec.Key))
    (h : ∀ d ∈ drops, d = []) :
    Spec.runLossy m cfg ops drops = Spec.run m cfg ops ∧
    Spec.outsLossy m cfg ops drops = Spec.outs m cfg ops := by
  induction ops generalizing m drops with
  | nil => exact ⟨rfl, rfl⟩
  | cons op ops ih =>
    have hh : drops.headD [] = [] := by
      cases drops with
      | nil => rfl
      | cons d ds => exact h d List.mem_cons_self
    have ht : ∀ d ∈ drops.tail, d = [] := fun d hd => h d (List.mem_of_mem_tail hd)
    obtain ⟨i1, i2⟩ := ih (dropKeys (Spec.step m cfg op).1 (drops.headD [])) drops.tail ht
    rw [hh, rf_dropKeys_nil] at i1 i2
    refine ⟨?_, ?_⟩
    · show Spec.runLossy (dropKeys (Spec.step m cfg op).1 (drops.headD [])) cfg ops drops.tail = _
      rw [hh, rf_dropKeys_nil, i1]; rfl
    · show _ :: Spec.outsLossy (dropKeys (Spec.step m cfg op).1 (drops.headD [])) cfg ops drops.tail = _
      rw [hh, rf_dropKeys_nil, i2]; rfl

/-- `run_refines` (C03_Refine) re-derived from the lossy history theorem: without an eviction
policy every drop list is empty and the lossy dictionary is the dictionary -/
theorem run_refines_from_lossy (c : Cache) (m : Spec.Dict) (clock : Int) (ops : List Op)
    (hg : Good c) (hp : c.cfg.policy = .none) (hpg : 0 < c.cfg.page)
    (hr : Refines c m clock) (hk : ∀ op ∈ ops, Keyed op = true) (hm : Monotone clock ops) :
    outs c ops = Spec.outs m c.cfg ops ∧
    ∃ clock', Refines (c.run ops) (Spec.run m c.cfg ops) clock' := by
  obtain ⟨Ls, h0, h1, clock', h2⟩ := run_refines_lossy c m clock ops hg hpg hr hk hm
  have hnil : ∀ d ∈ Ls.map (·.map rowKey), d = [] := by
    intro d hd
    obtain ⟨L, hL, rfl⟩ := List.mem_map.1 hd
    rw [evictedRun_policy_none c ops Ls hk hp h0 L hL]; rfl
  obtain ⟨e1, e2⟩ := runLossy_nils m c.cfg ops _ hnil
  rw [e2] at h1
  rw [e1] at h2
  exact ⟨h1, clock', h2⟩

/-! ### the empty cache with observations; non-vacuity -/

/-- a fresh cache that will make the database-size observations `env` is quiescent -/
theorem good_init_env (cf : Cfg) (st : Bool) (env : List Nat) :
    Good ({ cfg := cf, statistics := st, env := env } : Cache) := by
  have g := good_init cf st
  exact ⟨⟨g.tinv.tbl, g.tinv.snap⟩, ⟨g.finv.ref, g.finv.inj, g.finv.fresh, g.finv.nodup⟩,
    g.noOrphan, g.depth, g.snap, g.pending, g.created⟩

theorem refines_init_env (cf : Cfg) (st : Bool) (env : List Nat) (clock : Int) :
    Refines ({ cfg := cf, statistics := st, env := env } : Cache) [] clock :=
  ⟨rf_wf_nil, fun _ => rfl⟩

/-- non-vacuity: a least-frequently-used cache with `cull_limit = 1` and a size limit of 10 bytes;
the database file is observed at 0 bytes by the first write and at 100 bytes by the second.
`a` is stored and read once; then `b` is stored: the cache is over its limit, one row is evicted —
the row with the smallest access count, which is `b` itself. -/
def exEv : Cache := { cfg := { policy := .lfu, cullLimit := 1, limN := 10 }, env := [0, 100] }

def exEvOps : List Op :=
  [ .set toyV 1 (.str [97]) (.int 1) none false .null,
    .get toyV 2 (.str [97]) false false false,
    .set toyV 3 (.str [98]) (.int 2) none false .null,
    .get toyV 4 (.str [98]) false false false,
    .get toyV 4 (.str [97]) false false false ]

example : ∃ Ls : List (List Row), EvictedRun exEv exEvOps Ls ∧
    outs exEv exEvOps = Spec.outsLossy [] exEv.cfg exEvOps (Ls.map (·.map rowKey)) ∧
    ∃ clock', Refines (exEv.run exEvOps) (Spec.runLossy [] exEv.cfg exEvOps (Ls.map (·.map rowKey))) clock' :=
  run_refines_lossy exEv [] 0 exEvOps (good_init_env _ _ _) (by decide) (refines_init_env _ _ _ 0)
    (by decide) (by decide +kernel)

/-- what the cache returns along that history: the second `set` reports success, and the item it
stored is gone at once -/
theorem exEv_outs : outs exEv exEvOps =
    [.bool true, .val (.int 1), .bool true, .default, .val (.int 1)] := by rfl

/-- … which is what the lossy dictionary returns when `b` is dropped after the third call (and
not what the plain dictionary returns: it still holds `b`) -/
example : Spec.outsLossy [] exEv.cfg exEvOps [[], [], [(.text [98], true)], [], []] =
    [.bool true, .val (.int 1), .bool true, .default, .val (.int 1)] := by rfl

example : Spec.outs [] exEv.cfg exEvOps =
    [.bool true, .val (.int 1), .bool true, .val (.int 2), .val (.int 1)] := by rfl

/-- **(c), the just-written item can be the one evicted** — least-frequently-used: a new row
starts with access count 0 (core.py `_row_insert` / `_row_update`), so when the cache is at its
size limit and every other item has been read at least once, `set` evicts the very item it
has just stored (core.py `_cull`: `SELECT … ORDER BY access_count LIMIT ?`) and still returns
`True`. -/
theorem set_evicts_itself_lfu :
    ((exEv.run (exEvOps.take 2)).set toyV 3 (.str [98]) (.int 2) none false .null).2 = .bool true ∧
    ((exEv.run (exEvOps.take 2)).set toyV 3 (.str [98]) (.int 2) none false .null).1.selKey
      (.text [98]) true = none ∧
    (((exEv.run (exEvOps.take 2)).set toyV 3 (.str [98]) (.int 2) none false .null).1.selKey
      (.text [97]) true).isSome = true := ⟨by rfl, by decide +kernel, by decide +kernel⟩

/-- … and least-recently-stored with a tie: `a` and `b` were stored at the same clock value, `a`
is stored again at that clock value while the cache is at its limit: all store times are equal,
the index order (rowid) decides, and `a` — the item just re-written — is evicted -/
def exTie : Cache := { cfg := { policy := .lrs, cullLimit := 1, limN := 10 }, env := [0, 0, 100] }

def exTieOps : List Op :=
  [ .set toyV 5 (.str [97]) (.int 1) none false .null,
    .set toyV 5 (.str [98]) (.int 2) none false .null,
    .set toyV 5 (.str [97]) (.int 3) none false .null,
    .get toyV 6 (.str [97]) false false false,
    .get toyV 6 (.str [98]) false false false ]

theorem set_evicts_itself_lrs_tie : outs exTie exTieOps =
    [.bool true, .bool true, .bool true, .default, .val (.int 2)] := by rfl

end DC.Cache
