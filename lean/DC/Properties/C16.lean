/-
C16 — memoized functions return what the function returns and never share entries.
-/
import DC.Proofs.MemoLemmas

namespace DC.Memo

/-- keyword names are distinct (kwargs is a dict) -/
def NamesDistinct (kw : Kwargs) : Prop := (kw.map (·.1)).Nodup

/-- no positional argument is `None` (the separator token) -/
def NoNoneArg (args : List Arg) : Prop := ∀ a ∈ args, a.tok ≠ Tok.none

/-- base tokens are ordinary values (the function's name), never the separator -/
def BaseOk (base : List Tok) : Prop := ∀ t ∈ base, t ≠ Tok.none

/-- Full-strength injectivity FAILS (known finding D14): two different calls share a key.
Witness: f(1, None, 'a') and f(1, a=None). -/
theorem key_injective_fails :
    ¬ (∀ (base : List Tok) (a₁ a₂ : List Arg) (k₁ k₂ : Kwargs), NamesDistinct k₁ → NamesDistinct k₂ →
        argsToKey base a₁ k₁ false [] [] = argsToKey base a₂ k₂ false [] [] →
        a₁.map (·.tok) = a₂.map (·.tok) ∧ (keepKw k₁ []).map (fun p => (p.1, p.2.tok)) = (keepKw k₂ []).map (fun p => (p.1, p.2.tok))) := by
  intro h
  have := h [.val 9] [⟨.val 1, 1⟩, ⟨.none, 0⟩, ⟨.val 3, 3⟩] [⟨.val 1, 1⟩] [] [(3, ⟨.none, 0⟩)]
    (by simp [NamesDistinct]) (by simp [NamesDistinct]) (by decide)
  exact absurd this.1 (by decide)

/-- ... and holds whenever no positional argument is None: calls with different positional
values, different keyword names or values, or positional versus keyword, never share a key -/
theorem key_injective_partial (base : List Tok) (a₁ a₂ : List Arg) (k₁ k₂ : Kwargs) (typed : Bool)
    (hb : BaseOk base) (h₁ : NoNoneArg a₁) (h₂ : NoNoneArg a₂)
    (h : argsToKey base a₁ k₁ typed [] [] = argsToKey base a₂ k₂ typed [] []) :
    a₁.map (·.tok) = a₂.map (·.tok) ∧
    (keepKw k₁ []).map (fun p => (p.1, p.2.tok)) = (keepKw k₂ []).map (fun p => (p.1, p.2.tok)) := by
  have := key_parts base a₁ a₂ k₁ k₂ typed hb h₁ h₂ h
  exact ⟨this.1, this.2.1⟩

/-- with `typed`, arguments that differ only in type get different keys (f(3) vs f(3.0)) -/
theorem typed_separates (base : List Tok) (a₁ a₂ : List Arg) (k₁ k₂ : Kwargs)
    (hb : BaseOk base) (h₁ : NoNoneArg a₁) (h₂ : NoNoneArg a₂)
    (h : argsToKey base a₁ k₁ true [] [] = argsToKey base a₂ k₂ true [] []) :
    a₁.map (·.ty) = a₂.map (·.ty) ∧ (keepKw k₁ []).map (fun p => p.2.ty) = (keepKw k₂ []).map (fun p => p.2.ty) := by
  exact (key_parts base a₁ a₂ k₁ k₂ true hb h₁ h₂ h).2.2 rfl

/-- ignored arguments do not influence the key, and only they: the key with an ignore set is
the key of the call with those arguments removed -/
theorem ignore_exact (base : List Tok) (args : List Arg) (kw : Kwargs) (typed : Bool)
    (ignPos ignKw : List Nat) :
    argsToKey base args kw typed ignPos ignKw =
      argsToKey base (keepArgs args ignPos) (kw.filter (fun p => !ignKw.contains p.1)) typed [] [] := by
  simp only [argsToKey, keepArgs_nil, keepKw_filter]

/-- the order in which keyword arguments are written does not matter -/
theorem kwargs_order_irrelevant (base : List Tok) (args : List Arg) (k₁ k₂ : Kwargs) (typed : Bool)
    (h₁ : NamesDistinct k₁) (hp : k₁.Perm k₂) :
    argsToKey base args k₁ typed [] [] = argsToKey base args k₂ typed [] [] := by
  have : keepKw k₁ [] = keepKw k₂ [] := by
    rw [keepKw_nil, keepKw_nil]
    exact isort_kw_perm k₁ k₂ h₁ hp
  simp only [argsToKey, this]

/-- a cache is coherent for `f` when every live entry under the key of a call holds `f` of
that call -/
def Coherent {R} (f : List Arg → Kwargs → R) (base : List Tok) (typed : Bool) (ignPos ignKw : List Nat)
    (dom : List (List Arg × Kwargs)) (c : Store R) : Prop :=
  ∀ p ∈ dom, ∀ now r, c.get (argsToKey base p.1 p.2 typed ignPos ignKw) now = some r → r = f p.1 p.2

/-- the wrapper returns exactly what the function returns, for every call in a domain on which
keys do not collide, and keeps the cache coherent (so this holds along whole call histories) -/
theorem wrapper_correct {R} (f : List Arg → Kwargs → R) (base : List Tok) (typed : Bool)
    (ignPos ignKw : List Nat) (dom : List (List Arg × Kwargs))
    (hinj : ∀ p ∈ dom, ∀ q ∈ dom, argsToKey base p.1 p.2 typed ignPos ignKw = argsToKey base q.1 q.2 typed ignPos ignKw →
      f p.1 p.2 = f q.1 q.2)
    (expire : Option Int) (now : Int) (c : Store R) (hc : Coherent f base typed ignPos ignKw dom c)
    (args : List Arg) (kw : Kwargs) (hd : (args, kw) ∈ dom) :
    (call f base typed ignPos ignKw expire now c args kw).1 = f args kw ∧
    Coherent f base typed ignPos ignKw dom (call f base typed ignPos ignKw expire now c args kw).2.1 := by
  simp only [call]
  cases hg : c.get (argsToKey base args kw typed ignPos ignKw) now with
  | some r =>
    exact ⟨hc (args, kw) hd now r hg, hc⟩
  | none =>
    have hset : ∀ e, Coherent f base typed ignPos ignKw dom
        (c.set (argsToKey base args kw typed ignPos ignKw) (f args kw) e) := by
      intro e p hp now' r' hr'
      by_cases hk : argsToKey base p.1 p.2 typed ignPos ignKw = argsToKey base args kw typed ignPos ignKw
      · rw [hk, get_set_self] at hr'
        have hf : f p.1 p.2 = f args kw := hinj p hp (args, kw) hd hk
        rw [hf]
        cases e with
        | none => simpa using hr'.symm
        | some t =>
          simp only at hr'
          split at hr'
          · simpa using hr'.symm
          · exact absurd hr' (by simp)
      · rw [get_set_other _ _ _ _ _ _ hk] at hr'
        exact hc p hp now' r' hr'
    cases expire with
    | none => exact ⟨rfl, hset _⟩
    | some e =>
      simp only
      split
      · exact ⟨rfl, hset _⟩
      · exact ⟨rfl, hc⟩

/-- a repeated call within the expiry time is served from the cache: the function does not run -/
theorem repeat_is_hit {R} (f : List Arg → Kwargs → R) (base : List Tok) (typed : Bool)
    (ignPos ignKw : List Nat) (expire : Option Int) (now now' : Int) (c : Store R)
    (args : List Arg) (kw : Kwargs)
    (hexp : ∀ e, expire = some e → 0 < e ∧ now' < now + e) :
    let c' := (call f base typed ignPos ignKw expire now c args kw).2.1
    (call f base typed ignPos ignKw expire now' c' args kw).2.2 = false ∨
    (call f base typed ignPos ignKw expire now c args kw).2.2 = false := by
  intro c'
  cases hg : c.get (argsToKey base args kw typed ignPos ignKw) now with
  | some r => right; simp [call, hg]
  | none =>
    left
    cases expire with
    | none =>
      have hc' : c' = c.set (argsToKey base args kw typed ignPos ignKw) (f args kw) none := by
        simp [c', call, hg]
      simp only [call, hc', get_set_self]
    | some e =>
      obtain ⟨he, hlt⟩ := hexp e rfl
      have hc' : c' = c.set (argsToKey base args kw typed ignPos ignKw) (f args kw) (some (now + e)) := by
        simp [c', call, hg, he]
      have : now + e > now' := hlt
      simp only [call, hc', get_set_self, this, if_true]

/-- an expiry of zero (or less) stores nothing -/
theorem expire_zero_stores_nothing {R} (f : List Arg → Kwargs → R) (base : List Tok) (typed : Bool)
    (ignPos ignKw : List Nat) (e : Int) (he : e ≤ 0) (now : Int) (c : Store R) (args : List Arg) (kw : Kwargs) :
    (call f base typed ignPos ignKw (some e) now c args kw).2.1 = c := by
  simp only [call]
  cases c.get (argsToKey base args kw typed ignPos ignKw) now with
  | some r => rfl
  | none =>
    have : ¬ e > 0 := by omega
    simp [this]

/-- non-vacuity: the D14 witness evaluated -/
example : argsToKey [.val 9] [⟨.val 1, 1⟩, ⟨.none, 0⟩, ⟨.val 3, 3⟩] [] false [] [] =
    argsToKey [.val 9] [⟨.val 1, 1⟩] [(3, ⟨.none, 0⟩)] false [] [] := by decide

end DC.Memo
