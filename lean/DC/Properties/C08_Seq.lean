/-
C08 (sequential part) — after every call that runs outside a transaction block,
whether it succeeded or raised, the bookkeeping matches the content:
Settings.count = rows, Settings.size = Σ row sizes, every file-backed row refers
to an existing file of the recorded size, two rows never share a file, and no
value file exists that no row refers to.  `Good` packages this; every method
preserves it for every state, argument, clock value and observation.
-/
import DC.Proofs.Files

namespace DC.Cache

theorem good_init (c : Cfg) (st : Bool) : Good ({ cfg := c, statistics := st } : Cache) := by
  apply good_of_pi (inv_init c st)
  constructor <;> simp [core]

/-- `Good` implies C08's consistency predicate (what `check()` verifies) -/
theorem good_consistent (s : Cache) (h : Good s) : Consistent s :=
  ⟨h.tinv.tbl.count, h.tinv.tbl.size, h.finv.ref, h.noOrphan⟩

theorem set_good (s : Cache) (E : Externals) (now : Int) (k v : PyVal) (ttl : Option Int) (read : Bool)
    (tag : SqlVal) (h : Good s) : Good (s.set E now k v ttl read tag).1 :=
  good_of_pi (set_inv s E now k v ttl read tag h.tinv) (set_PI s E now k v ttl read tag h.pi)

theorem add_good (s : Cache) (E : Externals) (now : Int) (k v : PyVal) (ttl : Option Int) (read : Bool)
    (tag : SqlVal) (h : Good s) : Good (s.add E now k v ttl read tag).1 := by
  apply good_of_pi (add_inv s E now k v ttl read tag h.tinv)
  have hP := h.pi
  unfold add
  simp only
  cases hst : s.store E v read with
  | error e => exact hP
  | ok p =>
    obtain ⟨s1, c⟩ := p
    obtain ⟨hP1, hfile⟩ := store_PI hst hP
    simp only
    apply transact_PI _ _ _ _ hP1.depth
    split
    · right; exact ⟨rfl, rfl, hP1.cl_congr (by simp)⟩
    simp only [selKey_log]
    split
    · rename_i r hr
      split
      · left; exact ⟨rfl, by core_simp; exact hP1.cl_congr (by simp)⟩
      split
      · right; exact ⟨rfl, rfl, hP1.cl_congr (by simp)⟩
      left
      refine ⟨rfl, ?_⟩
      simp only [List.append_nil]
      apply cullW_PI
      refine PI_updRow (cl := [c.file]) ?_ r (selKey_mem hr) now _ ?_ ?_
      · first | exact hP1 | (core_simp; exact hP1)
      · intro g hg; exact ⟨List.mem_singleton.2 hg.symm, hfile g hg⟩
      · intro f; simp; grind
    · split
      · right; exact ⟨rfl, rfl, hP1.cl_congr (by simp)⟩
      left
      refine ⟨rfl, ?_⟩
      simp only [List.append_nil]
      have := cullW_PI (((s1.log .begin).logSql "selKey").insRow (DC.put E s.cfg.disk k).1 (DC.put E s.cfg.disk k).2 now
          { c with expT := ttl.map (now + ·), tag := tag }) now [] ?_
      · simpa using this
      refine PI_insRow (cl := [c.file]) ?_ _ _ _ _ ?_ ?_
      · first | exact hP1 | (core_simp; exact hP1)
      · intro g hg; exact ⟨List.mem_singleton.2 hg.symm, hfile g hg⟩
      · intro f; simp; grind

theorem touch_good (s : Cache) (E : Externals) (now : Int) (k : PyVal) (ttl : Option Int)
    (h : Good s) : Good (s.touch E now k ttl).1 := by
  apply good_of_pi (touch_inv s E now k ttl h.tinv)
  have hP := h.pi
  unfold touch
  simp only
  apply transact_PI _ _ _ _ h.depth
  left
  simp only [selKey_log]
  split
  · split
    · exact ⟨rfl, by apply PI_updExp; core_simp; exact hP⟩
    · exact ⟨rfl, by core_simp; exact hP⟩
  · exact ⟨rfl, by core_simp; exact hP⟩

theorem incr_good (s : Cache) (E : Externals) (now : Int) (k : PyVal) (delta : Int) (dflt : Option Int)
    (h : Good s) : Good (s.incr E now k delta dflt).1 := by
  apply good_of_pi (incr_inv s E now k delta dflt h.tinv)
  have hP := h.pi
  have hP0 : PI (core ((s.log .begin).logSql "selKey")) [] := by core_simp; exact hP
  have hfailP : PI (core s) [none] := hP.cl_congr (by simp)
  unfold incr
  simp only
  apply transact_PI _ _ _ _ h.depth
  simp only [selKey_log]
  split
  · split
    · right; exact ⟨rfl, rfl, hfailP⟩
    · split
      · right; exact ⟨rfl, rfl, hfailP⟩
      · rename_i s1 c hst
        obtain ⟨hP1, hfile⟩ := store_PI hst hP0
        rw [regCreated_zero s1 c.file hP1.depth]
        left
        refine ⟨rfl, ?_⟩
        simp only [List.append_nil]
        have := cullW_PI (s1.insRow (DC.put E s.cfg.disk k).1 (DC.put E s.cfg.disk k).2 now c) now [] ?_
        · simpa using this
        refine PI_insRow (cl := [c.file]) hP1 _ _ _ _ ?_ ?_
        · intro g hg; exact ⟨List.mem_singleton.2 hg.symm, hfile g hg⟩
        · intro f; simp; grind
  · rename_i r hr
    split
    · split
      · right; exact ⟨rfl, rfl, hfailP⟩
      · split
        · right; exact ⟨rfl, rfl, hfailP⟩
        · rename_i s1 c hst
          obtain ⟨hP1, hfile⟩ := store_PI hst hP0
          have hr1 : r ∈ s1.rows := by rw [(store_keep hst).1]; exact selKey_mem hr
          rw [regCreated_zero s1 c.file hP1.depth]
          left
          refine ⟨rfl, ?_⟩
          have := cullW_PI (s1.updRow r.rowid now c) now [r.file] ?_
          · exact this.cl_congr (by intro f; simp [or_comm])
          refine PI_updRow (cl := [c.file]) hP1 r hr1 now _ ?_ ?_
          · intro g hg; exact ⟨List.mem_singleton.2 hg.symm, hfile g hg⟩
          · intro f; simp; grind
    · split
      · split
        · left; exact ⟨rfl, by apply PI_updIncr; exact hP0⟩
        · right; exact ⟨rfl, rfl, hfailP⟩
      · right; exact ⟨rfl, rfl, hfailP⟩

theorem get_good (s : Cache) (E : Externals) (now : Int) (k : PyVal) (read et tg : Bool)
    (h : Good s) : Good (s.get E now k read et tg).1 := by
  apply good_of_pi (get_inv s E now k read et tg h.tinv)
  have hP := h.pi
  unfold get
  simp only
  split
  · split
    · core_simp; exact hP
    · split <;> (core_simp; exact hP)
  · apply transact_PI _ _ _ _ h.depth
    left
    simp only [selLive_log]
    split
    · refine ⟨rfl, ?_⟩
      split <;> (core_simp; exact hP)
    · split
      · refine ⟨rfl, ?_⟩
        split <;> (core_simp; exact hP)
      · refine ⟨rfl, ?_⟩
        simp only [List.nil_append]
        (repeat' split) <;> first | (core_simp; exact hP) | (apply PI_updGet; core_simp; exact hP)

theorem pop_good (s : Cache) (E : Externals) (now : Int) (k : PyVal) (et tg : Bool)
    (h : Good s) : Good (s.pop E now k et tg).1 := by
  apply good_of_pi (pop_inv s E now k et tg h.tinv)
  have hP := h.pi
  unfold pop
  simp only
  split
  · rename_i hr
    simp only
    apply transact_PI _ _ _ _ h.depth
    left
    exact ⟨rfl, by core_simp; exact hP⟩
  · rename_i r hr
    simp only
    have h1 : PI (core (s.transact fun s => { s := (s.logSql "selLive").delRow r.rowid, out := Out.none }).1) [r.file] := by
      apply transact_PI _ _ _ _ h.depth
      left
      refine ⟨rfl, ?_⟩
      have := PI_delRow (s := (s.log .begin).logSql "selLive") (cl := []) (by core_simp; exact hP) r (selLive_mem hr)
      simpa using this
    have h2 : ∀ t : Cache, PI (core t) [r.file] → PI (core (t.removeCommitted r.file)) [] := by
      intro t ht
      rw [removeCommitted_zero _ _ ht.depth, core_fremoveAll]
      exact PI.finish (cl := [r.file]) (extra := []) (by simpa using ht)
    split <;> (apply h2; core_simp; exact h1)

theorem delitem_good (s : Cache) (E : Externals) (now : Int) (k : PyVal)
    (h : Good s) : Good (s.delitem E now k).1 := by
  apply good_of_pi (delitem_inv s E now k h.tinv)
  have hP := h.pi
  unfold delitem
  simp only
  apply transact_PI _ _ _ _ h.depth
  simp only [selLive_log]
  split
  · right
    exact ⟨rfl, rfl, hP.cl_congr (by simp)⟩
  · rename_i r hr
    left
    refine ⟨rfl, ?_⟩
    have := PI_delRow (s := (s.log .begin).logSql "selLive") (cl := []) (by core_simp; exact hP) r (selLive_mem hr)
    simpa using this

theorem delete_good (s : Cache) (E : Externals) (now : Int) (k : PyVal)
    (h : Good s) : Good (s.delete E now k).1 := by
  rw [delete_fst_fl]; exact delitem_good s E now k h

theorem push_good (s : Cache) (E : Externals) (now : Int) (v : PyVal) (pfx : Option Str) (back : Bool)
    (ttl : Option Int) (read : Bool) (tag : SqlVal) (h : Good s) :
    Good (s.push E now v pfx back ttl read tag).1 := by
  apply good_of_pi (push_inv s E now v pfx back ttl read tag h.tinv)
  have hP := h.pi
  unfold push
  cases hst : s.store E v read with
  | error e => exact hP
  | ok p =>
    obtain ⟨s1, c⟩ := p
    obtain ⟨hP1, hfile⟩ := store_PI hst hP
    simp only
    apply transact_PI _ _ _ _ hP1.depth
    have hfailP : PI (core s1) [c.file] := hP1
    split
    · right; exact ⟨rfl, rfl, hfailP.cl_congr (by simp)⟩
    · rename_i num _
      split
      · right; exact ⟨rfl, rfl, hfailP.cl_congr (by simp)⟩
      split
      · right; exact ⟨rfl, rfl, hfailP.cl_congr (by simp)⟩
      left
      refine ⟨rfl, ?_⟩
      simp only [List.append_nil]
      have := cullW_PI (((s1.log .begin).logSql "selQueueEnd").insRow (queueKey pfx num) true now
          { c with expT := ttl.map (now + ·), tag := tag }) now [] ?_
      · simpa using this
      refine PI_insRow (cl := [c.file]) ?_ _ _ _ _ ?_ ?_
      · first | exact hP1 | (core_simp; exact hP1)
      · intro g hg; exact ⟨List.mem_singleton.2 hg.symm, hfile g hg⟩
      · intro f; simp; grind

theorem pull_good (s : Cache) (E : Externals) (now : Int) (pfx : Option Str) (front et tg : Bool)
    (h : Good s) : Good (s.pull E now pfx front et tg).1 :=
  good_of_pi (pull_inv s E now pfx front et tg h.tinv) (pullLoop_PI _ _ _ _ _ _ _ _ h.pi)

theorem peek_good (s : Cache) (E : Externals) (now : Int) (pfx : Option Str) (front et tg : Bool)
    (h : Good s) : Good (s.peek E now pfx front et tg).1 :=
  good_of_pi (peek_inv s E now pfx front et tg h.tinv) (peekLoop_PI _ _ _ _ _ _ _ _ h.pi)

theorem peekitem_good (s : Cache) (E : Externals) (now : Int) (last et tg : Bool)
    (h : Good s) : Good (s.peekitem E now last et tg).1 :=
  good_of_pi (peekitem_inv s E now last et tg h.tinv) (peekitemLoop_PI _ _ _ _ _ _ _ h.pi)

theorem clear_good (s : Cache) (h : Good s) : Good (s.clear).1 := by
  apply good_of_pi (clear_inv s h.tinv)
  unfold clear; simp only
  exact clearLoop_PI _ _ _ _ h.pi

theorem evict_good (s : Cache) (tag : SqlVal) (h : Good s) : Good (s.evict tag).1 := by
  apply good_of_pi (evict_inv s tag h.tinv)
  unfold evict; simp only
  exact evictLoop_PI _ _ _ _ _ h.pi

theorem expire_good (s : Cache) (now : Int) (h : Good s) : Good (s.expire now).1 := by
  apply good_of_pi (expire_inv s now h.tinv)
  unfold expire; simp only
  exact expireLoop_PI _ _ _ _ _ h.pi

theorem cull_good (s : Cache) (now : Int) (h : Good s) : Good (s.cull now).1 := by
  apply good_of_pi (cull_inv s now h.tinv)
  unfold cull
  simp only
  split
  · exact expireLoop_PI _ _ _ _ _ h.pi
  · exact cullLoop_PI _ _ _ (expireLoop_PI _ _ _ _ _ h.pi)

/-- a whole transaction block that commits, or that rolls back at any point, ends in a
`Good` state again when it started from one and every inner call is one of the above;
the two bracketing steps: -/
theorem tbegin_tend_good (s : Cache) (h : Good s) : Good s.tbegin.tend := by
  apply good_of_pi (tend_inv _ (tbegin_inv _ h.tinv))
  have hP := h.pi
  have : core s.tbegin.tend = core s := by
    unfold tbegin tend
    simp [h.depth, fremoveAll, core, log, h.snap, h.pending, h.created]
  rw [this]; exact hP

theorem tbegin_traise_good (s : Cache) (h : Good s) : Good (s.tbegin.traise 1) := by
  apply good_of_pi (traise_inv _ _ (tbegin_inv _ h.tinv))
  have hP := h.pi
  have : core (s.tbegin.traise 1) = core s := by
    unfold tbegin traise
    simp [h.depth, fremoveAll, core, log, h.snap, h.pending, h.created, restore, takeSnap]
  rw [this]; exact hP

end DC.Cache
