/-
C08 (sequential part) — after every call that runs outside a transaction block,
whether it succeeded or raised, the bookkeeping matches the content:
Settings.count = rows, Settings.size = Σ row sizes, every file-backed row refers
to an existing file of the recorded size, two rows never share a file, and no
value file exists that no row refers to.  `Good` packages this; every method
preserves it for every state, argument, clock value and observation.
-/
import DC.Proofs.Files

namespace DC.Cache

theorem good_init (c : Cfg) (st : Bool) : Good ({ cfg := c, statistics := st } : Cache) := by
  sorry

/-- `Good` implies C08's consistency predicate (what `check()` verifies) -/
theorem good_consistent (s : Cache) (h : Good s) : Consistent s := by
  sorry

theorem set_good (s : Cache) (E : Externals) (now : Int) (k v : PyVal) (ttl : Option Int) (read : Bool)
    (tag : SqlVal) (h : Good s) : Good (s.set E now k v ttl read tag).1 := by
  sorry

theorem add_good (s : Cache) (E : Externals) (now : Int) (k v : PyVal) (ttl : Option Int) (read : Bool)
    (tag : SqlVal) (h : Good s) : Good (s.add E now k v ttl read tag).1 := by
  sorry

theorem touch_good (s : Cache) (E : Externals) (now : Int) (k : PyVal) (ttl : Option Int)
    (h : Good s) : Good (s.touch E now k ttl).1 := by
  sorry

theorem incr_good (s : Cache) (E : Externals) (now : Int) (k : PyVal) (delta : Int) (dflt : Option Int)
    (h : Good s) : Good (s.incr E now k delta dflt).1 := by
  sorry

theorem get_good (s : Cache) (E : Externals) (now : Int) (k : PyVal) (read et tg : Bool)
    (h : Good s) : Good (s.get E now k read et tg).1 := by
  sorry

theorem pop_good (s : Cache) (E : Externals) (now : Int) (k : PyVal) (et tg : Bool)
    (h : Good s) : Good (s.pop E now k et tg).1 := by
  sorry

theorem delete_good (s : Cache) (E : Externals) (now : Int) (k : PyVal)
    (h : Good s) : Good (s.delete E now k).1 := by
  sorry

theorem delitem_good (s : Cache) (E : Externals) (now : Int) (k : PyVal)
    (h : Good s) : Good (s.delitem E now k).1 := by
  sorry

theorem push_good (s : Cache) (E : Externals) (now : Int) (v : PyVal) (pfx : Option Str) (back : Bool)
    (ttl : Option Int) (read : Bool) (tag : SqlVal) (h : Good s) :
    Good (s.push E now v pfx back ttl read tag).1 := by
  sorry

theorem pull_good (s : Cache) (E : Externals) (now : Int) (pfx : Option Str) (front et tg : Bool)
    (h : Good s) : Good (s.pull E now pfx front et tg).1 := by
  sorry

theorem peek_good (s : Cache) (E : Externals) (now : Int) (pfx : Option Str) (front et tg : Bool)
    (h : Good s) : Good (s.peek E now pfx front et tg).1 := by
  sorry

theorem peekitem_good (s : Cache) (E : Externals) (now : Int) (last et tg : Bool)
    (h : Good s) : Good (s.peekitem E now last et tg).1 := by
  sorry

theorem clear_good (s : Cache) (h : Good s) : Good (s.clear).1 := by
  sorry

theorem evict_good (s : Cache) (tag : SqlVal) (h : Good s) : Good (s.evict tag).1 := by
  sorry

theorem expire_good (s : Cache) (now : Int) (h : Good s) : Good (s.expire now).1 := by
  sorry

theorem cull_good (s : Cache) (now : Int) (h : Good s) : Good (s.cull now).1 := by
  sorry

/-- a whole transaction block that commits, or that rolls back at any point, ends in a
`Good` state again when it started from one and every inner call is one of the above;
the two bracketing steps: -/
theorem tbegin_tend_good (s : Cache) (h : Good s) : Good s.tbegin.tend := by
  sorry

theorem tbegin_traise_good (s : Cache) (h : Good s) : Good (s.tbegin.traise 1) := by
  sorry

end DC.Cache
