/-
C12 (continued) — update, the value view and equality of an Index with other
mappings (persistent.py:1098-1145): against an Index / OrderedDict the
comparison is pairwise in order, against any other mapping key by key.
-/
import DC.Properties.C12
import DC.Properties.C11_Seq

namespace DC.Index

/-- the (key, value) pairs `items()` yields -/
def pairs (x : Index) (E : Externals) (now : Int) : List (PyVal × PyVal) :=
  pairsOf (Fanout.outList (x.items E now).2)

/-- pairwise equality of two pair lists, in order -/
def allEqPairs : List (PyVal × PyVal) → List (PyVal × PyVal) → Bool
  | [], [] => true
  | a :: as, b :: bs => pyEq a.1 b.1 && pyEq a.2 b.2 && allEqPairs as bs
  | _, _ => false

private theorem seq_allEqPairs_length : ∀ (xs ys : List (PyVal × PyVal)),
    allEqPairs xs ys = true → xs.length = ys.length
  | [], [], _ => rfl
  | [], _ :: _, h => by simp [allEqPairs] at h
  | _ :: _, [], h => by simp [allEqPairs] at h
  | a :: as, b :: bs, h => by
    simp only [allEqPairs, Bool.and_eq_true] at h
    simp [seq_allEqPairs_length as bs h.2]

private theorem seq_zip_any_eq : ∀ (xs ys : List (PyVal × PyVal)), xs.length = ys.length →
    (!(xs.zip ys).any (fun p => !pyEq p.1.1 p.2.1 || !pyEq p.1.2 p.2.2)) = allEqPairs xs ys
  | [], [], _ => by simp [allEqPairs]
  | [], _ :: _, h => by simp at h
  | _ :: _, [], h => by simp at h
  | a :: as, b :: bs, h => by
    have ih := seq_zip_any_eq as bs (by simpa using h)
    simp only [List.zip_cons_cons, List.any_cons, allEqPairs, Bool.not_or, Bool.not_not, ih]

private theorem seq_allEqPairs_self : ∀ (xs : List (PyVal × PyVal)),
    (∀ kv ∈ xs, pyEq kv.1 kv.1 = true ∧ pyEq kv.2 kv.2 = true) → allEqPairs xs xs = true
  | [], _ => rfl
  | a :: as, h => by
    have h1 := h a (by simp)
    have ih := seq_allEqPairs_self as (fun kv hkv => h kv (by simp [hkv]))
    simp [allEqPairs, h1.1, h1.2, ih]

theorem update_nil (x : Index) (E : Externals) (now : Int) : x.update E now [] = (x, .none) := by
  rfl

/- STATEMENT BEFORE THE FIX OF `Index.update` (MutableMapping.update stops at the first assignment
that raises) — now false when the first assignment raises:

theorem update_cons : x.update E now ((k, v) :: kvs) = (x.setitem E now k v).1.update E now kvs
theorem update_append : x.update E now (a ++ b) = (x.update E now a).1.update E now b

restated for the success case (`update_cons_ok`, `update_append_ok`), with the failing-case
counterparts `update_stops_at_error` and `update_append_error`. -/

/-- the old `update_cons` is false: when the first assignment raises, `update` returns the exception,
while continuing with the remaining pairs (here: none) would return `None` -/
theorem update_cons_needs_ok :
    let x : Index := { cache := { cfg := { policy := .none } } }
    (x.update Cache.exE 0 [(.str [97], .str [0xD800])]).2.isExc = true ∧
    ((x.setitem Cache.exE 0 (.str [97]) (.str [0xD800])).1.update Cache.exE 0 []).2.isExc = false := by
  decide +kernel

/-- `update` is one assignment per pair, left to right, as long as they succeed -/
theorem update_cons_ok (x : Index) (E : Externals) (now : Int) (k v : PyVal) (kvs : List (PyVal × PyVal))
    (hok : (x.setitem E now k v).2.isExc = false) :
    x.update E now ((k, v) :: kvs) = (x.setitem E now k v).1.update E now kvs := by
  rw [update]
  cases h : x.setitem E now k v with
  | mk x1 o =>
    rw [h] at hok
    cases o <;> first | rfl | cases hok

/-- an assignment that raises ends `update`: the pairs before it stay assigned, the exception
propagates, the remaining pairs are not looked at -/
theorem update_stops_at_error (x : Index) (E : Externals) (now : Int) (k v : PyVal)
    (kvs : List (PyVal × PyVal)) (e : String) (herr : (x.setitem E now k v).2 = .exc e) :
    x.update E now ((k, v) :: kvs) = ((x.setitem E now k v).1, .exc e) := by
  rw [update]
  cases h : x.setitem E now k v with
  | mk x1 o =>
    rw [h] at herr
    simp only at herr
    subst herr
    rfl

theorem update_append_ok (x : Index) (E : Externals) (now : Int) (a b : List (PyVal × PyVal))
    (hok : (x.update E now a).2.isExc = false) :
    x.update E now (a ++ b) = (x.update E now a).1.update E now b := by
  induction a generalizing x with
  | nil => rfl
  | cons kv a ih =>
    obtain ⟨k, v⟩ := kv
    cases hs : (x.setitem E now k v).2.isExc with
    | false =>
      rw [List.cons_append, update_cons_ok x E now k v _ hs]
      rw [update_cons_ok x E now k v _ hs] at hok ⊢
      exact ih _ hok
    | true =>
      cases ho : (x.setitem E now k v).2 <;> rw [ho] at hs <;> try cases hs
      rename_i e
      rw [update_stops_at_error x E now k v a e ho] at hok
      cases hok

theorem update_append_error (x : Index) (E : Externals) (now : Int) (a b : List (PyVal × PyVal))
    (herr : (x.update E now a).2.isExc = true) :
    x.update E now (a ++ b) = x.update E now a := by
  induction a generalizing x with
  | nil => cases herr
  | cons kv a ih =>
    obtain ⟨k, v⟩ := kv
    cases hs : (x.setitem E now k v).2.isExc with
    | false =>
      rw [List.cons_append, update_cons_ok x E now k v _ hs]
      rw [update_cons_ok x E now k v _ hs] at herr ⊢
      exact ih _ herr
    | true =>
      cases ho : (x.setitem E now k v).2 <;> rw [ho] at hs <;> try cases hs
      rename_i e
      rw [List.cons_append, update_stops_at_error x E now k v _ e ho,
        update_stops_at_error x E now k v a e ho]

/-- different lengths are never equal, whatever the contents -/
theorem eqTo_len (x : Index) (E : Externals) (now : Int) (ordered : Bool) (other : List (PyVal × PyVal))
    (h : x.cache.count ≠ (other.length : Int)) :
    (x.eqTo E now ordered other).2 = .bool false ∧ (x.neTo E now ordered other).2 = .bool true := by
  have hne : (x.cache.count != (other.length : Int)) = true := by simpa using h
  have h1 : x.eqTo E now ordered other = (x, .bool false) := by
    unfold eqTo; rw [if_pos hne]
  refine ⟨by rw [h1], ?_⟩
  unfold neTo; rw [h1]; rfl

/-! The views walk the items and look every key up again; a look-up that misses raises KeyError
(persistent.py: `ItemsView.__iter__` / `Index.__eq__` evaluate `self[key]`), which becomes the
outcome of the call.  `NoMiss`: the walk of `items()` meets no such key. -/

/-- the walk of the item view misses no key -/
def NoMiss (x : Index) (E : Externals) (now : Int) : Prop := (x.items E now).2.isExc = false

theorem items_walk (x : Index) (E : Externals) (now : Int) :
    (x.items E now).2 = if (itemsWalk E now x.cache.rows x.cache []).2.2 then .exc "KeyError"
      else .list (itemsWalk E now x.cache.rows x.cache []).2.1 := rfl

theorem noMiss_walk (x : Index) (E : Externals) (now : Int) (hm : NoMiss x E now) :
    (itemsWalk E now x.cache.rows x.cache []).2.2 = false ∧
    pairs x E now = pairsOf (itemsWalk E now x.cache.rows x.cache []).2.1 := by
  unfold NoMiss pairs at *
  rw [items_walk] at hm ⊢
  cases hw : (itemsWalk E now x.cache.rows x.cache []).2.2 with
  | true => rw [hw] at hm; cases hm
  | false => exact ⟨rfl, rfl⟩

/-- a miss is the outcome of the whole call: `items()` KeyError, then `values()` KeyError -/
theorem values_propagates_miss (x : Index) (E : Externals) (now : Int) (e : String)
    (h : (x.items E now).2 = .exc e) : (x.values E now).2 = .exc e := by
  unfold values
  cases hq : x.items E now with
  | mk x1 o =>
    rw [hq] at h
    simp only at h
    subst h
    rfl

/-- what `==` returns in general: the comparison of the items walked, or KeyError when the walk
ended in a miss before any unequal pair -/
theorem eqTo_walk (x : Index) (E : Externals) (now : Int) (ordered : Bool) (other : List (PyVal × PyVal))
    (hc : x.cache.count = (other.length : Int)) :
    ∃ b, (b = if ordered then
            !((pairsOf (itemsWalk E now x.cache.rows x.cache []).2.1).zip other).any
              (fun p => !pyEq p.1.1 p.2.1 || !pyEq p.1.2 p.2.2)
          else (pairsOf (itemsWalk E now x.cache.rows x.cache []).2.1).all (fun kv =>
            match other.find? (fun p => pyEq kv.1 p.1) with
            | some p => pyEq kv.2 p.2
            | none => false)) ∧
      (x.eqTo E now ordered other).2 =
        if (itemsWalk E now x.cache.rows x.cache []).2.2 && b then .exc "KeyError" else .bool b := by
  refine ⟨_, rfl, ?_⟩
  unfold eqTo
  simp only [hc, bne_self_eq_false, Bool.false_eq_true, if_false]
  rfl

/-- `!=` is the negation of `==`; a KeyError of `==` propagates -/
theorem neTo_not_or_miss (x : Index) (E : Externals) (now : Int) (ordered : Bool) (other : List (PyVal × PyVal)) :
    (∃ b, (x.eqTo E now ordered other).2 = .bool b ∧ (x.neTo E now ordered other).2 = .bool (!b)) ∨
    ((x.eqTo E now ordered other).2 = .exc "KeyError" ∧ (x.neTo E now ordered other).2 = .exc "KeyError") := by
  have key : (∃ x1 b, x.eqTo E now ordered other = (x1, .bool b)) ∨
      (∃ x1, x.eqTo E now ordered other = (x1, .exc "KeyError")) := by
    unfold eqTo
    split
    · exact .inl ⟨_, _, rfl⟩
    · cases ordered <;> simp only [Bool.false_eq_true, if_false, if_true] <;> split <;>
        first | exact .inr ⟨_, rfl⟩ | exact .inl ⟨_, _, rfl⟩
  rcases key with ⟨x1, b, hb⟩ | ⟨x1, hb⟩
  · refine .inl ⟨b, by rw [hb], ?_⟩
    unfold neTo; rw [hb]
  · refine .inr ⟨by rw [hb], ?_⟩
    unfold neTo; rw [hb]

/- STATEMENT BEFORE THE CHANGE OF `Index.eqTo` (a look-up of the walk that misses now raises KeyError
as in persistent.py) — false on a miss (`eqTo_needs_nomiss` below); `neTo_not_or_miss` is the general
form:

theorem neTo_not : ∃ b, (x.eqTo E now ordered other).2 = .bool b ∧ (x.neTo E now ordered other).2 = .bool (!b) -/

/-- `!=` is the negation of `==` -/
theorem neTo_not (x : Index) (E : Externals) (now : Int) (ordered : Bool) (other : List (PyVal × PyVal))
    (hm : NoMiss x E now) -- added: the walk misses no key (otherwise both raise KeyError)
    : ∃ b, (x.eqTo E now ordered other).2 = .bool b ∧ (x.neTo E now ordered other).2 = .bool (!b) := by
  rcases neTo_not_or_miss x E now ordered other with h | ⟨h, -⟩
  · exact h
  · exfalso
    by_cases hc : x.cache.count = (other.length : Int)
    · obtain ⟨b, -, hb⟩ := eqTo_walk x E now ordered other hc
      rw [(noMiss_walk x E now hm).1] at hb
      rw [hb] at h
      simp at h
    · rw [(eqTo_len x E now ordered other hc).1] at h
      cases h

/-- against an ordered mapping: equal exactly when the items are pairwise equal IN ORDER
(given that the row counter agrees with what `items()` yields) -/
theorem eqTo_ordered (x : Index) (E : Externals) (now : Int) (other : List (PyVal × PyVal))
    (hc : x.cache.count = ((pairs x E now).length : Int))
    (hm : NoMiss x E now) -- added: the walk misses no key (`eqTo_needs_nomiss`)
    : (x.eqTo E now true other).2 = .bool (allEqPairs (pairs x E now) other) := by
  obtain ⟨hw, hp⟩ := noMiss_walk x E now hm
  by_cases hn : x.cache.count = (other.length : Int)
  · have hlen : (pairs x E now).length = other.length := by
      have := hc.symm.trans hn
      exact Int.ofNat.inj this
    obtain ⟨b, hb, he⟩ := eqTo_walk x E now true other hn
    rw [he, hw, hb]
    simp only [Bool.false_and, Bool.false_eq_true, if_false, if_true, ← hp]
    exact congrArg Out.bool (seq_zip_any_eq (pairs x E now) other hlen)
  · have hf : allEqPairs (pairs x E now) other = false := by
      cases hb : allEqPairs (pairs x E now) other
      · rfl
      · exfalso; apply hn; rw [hc, seq_allEqPairs_length _ _ hb]
    rw [(eqTo_len x E now true other hn).1, hf]

/-- against an unordered mapping: equal exactly when every item of the index has its key in
`other` with an equal value (lengths being equal) -/
theorem eqTo_unordered (x : Index) (E : Externals) (now : Int) (other : List (PyVal × PyVal))
    (hc : x.cache.count = (other.length : Int))
    (hm : NoMiss x E now) -- added: the walk misses no key (`eqTo_needs_nomiss`)
    : (x.eqTo E now false other).2 = .bool ((pairs x E now).all (fun kv =>
      match other.find? (fun p => pyEq kv.1 p.1) with
      | some p => pyEq kv.2 p.2
      | none => false)) := by
  obtain ⟨hw, hp⟩ := noMiss_walk x E now hm
  obtain ⟨b, hb, he⟩ := eqTo_walk x E now false other hc
  rw [he, hw, hb]
  simp only [Bool.false_and, Bool.false_eq_true, if_false, ← hp]

/-- an index equals the ordered mapping of its own items (no NaN among keys and values) -/
theorem eqTo_ordered_self (x : Index) (E : Externals) (now : Int)
    (hc : x.cache.count = ((pairs x E now).length : Int))
    (hn : ∀ kv ∈ pairs x E now, pyEq kv.1 kv.1 = true ∧ pyEq kv.2 kv.2 = true)
    (hm : NoMiss x E now) -- added: the walk misses no key
    : (x.eqTo E now true (pairs x E now)).2 = .bool true := by
  rw [eqTo_ordered x E now _ hc hm, seq_allEqPairs_self _ hn]

/-- order matters against an ordered mapping: two different keys swapped compare unequal -/
theorem eqTo_ordered_swap (x : Index) (E : Externals) (now : Int) (a b : PyVal × PyVal) (rest : List (PyVal × PyVal))
    (hp : pairs x E now = a :: b :: rest) (hc : x.cache.count = ((pairs x E now).length : Int))
    (hab : pyEq a.1 b.1 = false) :
    (x.eqTo E now true (b :: a :: rest)).2 = .bool false := by
  have hm : NoMiss x E now := by
    unfold NoMiss
    unfold pairs at hp
    cases ho : (x.items E now).2 <;> first | rfl | (rw [ho] at hp; cases hp)
  rw [eqTo_ordered x E now _ hc hm, hp]
  simp [allEqPairs, hab]

/-- the value view is the second components of the item view -/
theorem values_spec (x : Index) (E : Externals) (now : Int)
    (hm : NoMiss x E now) -- added: the walk misses no key (otherwise `values_propagates_miss`)
    : (x.values E now).2 = .list ((Fanout.outList (x.items E now).2).filterMap
      (fun t => match t with | .tup [_, v] => some v | _ => none)) := by
  unfold NoMiss at hm
  unfold values
  cases hq : x.items E now with
  | mk x1 o =>
    rw [hq] at hm
    cases o <;> first | rfl | cases hm

/-! ### a value file that is gone -/

/-- `'a'` is bound to a value kept in file 0, and that file is gone -/
def exGone : Index :=
  { cache := { rows := [{ rowid := 1, key := .text [97], raw := true, storeT := 0, expT := none, accT := 0,
                          accN := 0, tag := .null, size := 2, mode := 2, file := some 0, val := .null }],
               count := 1, size := 2, nfile := 1, cfg := { policy := .none } } }

/-- the outcome of `list(index.items())` is the KeyError of the look-up that misses (the value file of
the only item is gone), and so for `values()`, `==` and `!=`; the keys are still listed -/
theorem items_propagates_miss :
    (match (exGone.items Cache.exE 0).2 with | .exc "KeyError" => true | _ => false) = true ∧
    (match (exGone.values Cache.exE 0).2 with | .exc "KeyError" => true | _ => false) = true ∧
    (match (exGone.eqTo Cache.exE 0 true [(.str [97], .bytes [1, 2])]).2 with
      | .exc "KeyError" => true | _ => false) = true ∧
    (match (exGone.neTo Cache.exE 0 false [(.str [97], .bytes [1, 2])]).2 with
      | .exc "KeyError" => true | _ => false) = true ∧
    (match (exGone.iter Cache.exE true).2 with | .list [.val (.str [97])] => true | _ => false) = true ∧
    (match (exGone.eqTo Cache.exE 0 true []).2 with | .bool false => true | _ => false) = true := by
  decide +kernel

/-- with two items, the first readable: a comparison that finds the first pair unequal answers
`False` before it reaches the missing one; with the first pair equal it raises KeyError; `items()`
produces nothing but the exception -/
def exGone2 : Index :=
  { cache := { rows := [{ rowid := 1, key := .text [97], raw := true, storeT := 0, expT := none, accT := 0,
                          accN := 0, tag := .null, size := 0, mode := 1, file := none, val := .int 1 },
                        { rowid := 2, key := .text [98], raw := true, storeT := 0, expT := none, accT := 0,
                          accN := 0, tag := .null, size := 2, mode := 2, file := some 0, val := .null }],
               count := 2, size := 2, nfile := 1, cfg := { policy := .none } } }

theorem eqTo_miss_after_unequal :
    (match (exGone2.eqTo Cache.exE 0 true [(.str [97], .int 2), (.str [98], .int 2)]).2 with
      | .bool false => true | _ => false) = true ∧
    (match (exGone2.eqTo Cache.exE 0 false [(.str [97], .int 2), (.str [98], .int 2)]).2 with
      | .bool false => true | _ => false) = true ∧
    (match (exGone2.eqTo Cache.exE 0 true [(.str [97], .int 1), (.str [98], .int 2)]).2 with
      | .exc "KeyError" => true | _ => false) = true ∧
    (match (exGone2.eqTo Cache.exE 0 false [(.str [97], .int 1), (.str [98], .int 2)]).2 with
      | .exc "KeyError" => true | _ => false) = true ∧
    (match (exGone2.items Cache.exE 0).2 with | .exc "KeyError" => true | _ => false) = true := by
  decide +kernel

/-- `NoMiss` is necessary in `neTo_not`, `eqTo_unordered`, `values_spec` (the Index whose value file
is gone) and in `eqTo_ordered` / `eqTo_ordered_self` (same rows, a row counter of 0, which the
hypothesis `hc` of those two forces when `items()` raises) -/
theorem eqTo_needs_nomiss :
    (¬ ∃ b, (exGone.eqTo Cache.exE 0 false [(.str [97], .int 1)]).2 = .bool b) ∧
    exGone.cache.count = (([(.str [97], .int 1)] : List (PyVal × PyVal)).length : Int) ∧
    (¬ ∃ l, (exGone.values Cache.exE 0).2 = .list l) ∧
    (let x : Index := { cache := { exGone.cache with count := 0 } }
     x.cache.count = ((pairs x Cache.exE 0).length : Int) ∧
     ¬ ∃ b, (x.eqTo Cache.exE 0 true (pairs x Cache.exE 0)).2 = .bool b) := by
  have h1 : (exGone.eqTo Cache.exE 0 false [(.str [97], .int 1)]).2 = .exc "KeyError" := by rfl
  have h2 : (exGone.values Cache.exE 0).2 = .exc "KeyError" := by rfl
  refine ⟨?_, rfl, ?_, ?_⟩
  · rintro ⟨b, hb⟩; rw [h1] at hb; cases hb
  · rintro ⟨l, hl⟩; rw [h2] at hl; cases hl
  · have h3 : pairs { cache := { exGone.cache with count := 0 } } Cache.exE 0 = [] := by rfl
    have h4 : (({ cache := { exGone.cache with count := 0 } } : Index).eqTo Cache.exE 0 true []).2 =
        .exc "KeyError" := by rfl
    simp only
    rw [h3]
    refine ⟨rfl, ?_⟩
    rintro ⟨b, hb⟩; rw [h4] at hb; cases hb

end DC.Index
