/-
C12 (continued) — update, the value view and equality of an Index with other
mappings (persistent.py:1098-1145): against an Index / OrderedDict the
comparison is pairwise in order, against any other mapping key by key.
-/
import DC.Properties.C12
import DC.Properties.C11_Seq

namespace DC.Index

/-- the (key, value) pairs `items()` yields -/
def pairs (x : Index) (E : Externals) (now : Int) : List (PyVal × PyVal) :=
  pairsOf (Fanout.outList (x.items E now).2)

/-- pairwise equality of two pair lists, in order -/
def allEqPairs : List (PyVal × PyVal) → List (PyVal × PyVal) → Bool
  | [], [] => true
  | a :: as, b :: bs => pyEq a.1 b.1 && pyEq a.2 b.2 && allEqPairs as bs
  | _, _ => false

private theorem seq_allEqPairs_length : ∀ (xs ys : List (PyVal × PyVal)),
    allEqPairs xs ys = true → xs.length = ys.length
  | [], [], _ => rfl
  | [], _ :: _, h => by simp [allEqPairs] at h
  | _ :: _, [], h => by simp [allEqPairs] at h
  | a :: as, b :: bs, h => by
    simp only [allEqPairs, Bool.and_eq_true] at h
    simp [seq_allEqPairs_length as bs h.2]

private theorem seq_zip_any_eq : ∀ (xs ys : List (PyVal × PyVal)), xs.length = ys.length →
    (!(xs.zip ys).any (fun p => !pyEq p.1.1 p.2.1 || !pyEq p.1.2 p.2.2)) = allEqPairs xs ys
  | [], [], _ => by simp [allEqPairs]
  | [], _ :: _, h => by simp at h
  | _ :: _, [], h => by simp at h
  | a :: as, b :: bs, h => by
    have ih := seq_zip_any_eq as bs (by simpa using h)
    simp only [List.zip_cons_cons, List.any_cons, allEqPairs, Bool.not_or, Bool.not_not, ih]

private theorem seq_allEqPairs_self : ∀ (xs : List (PyVal × PyVal)),
    (∀ kv ∈ xs, pyEq kv.1 kv.1 = true ∧ pyEq kv.2 kv.2 = true) → allEqPairs xs xs = true
  | [], _ => rfl
  | a :: as, h => by
    have h1 := h a (by simp)
    have ih := seq_allEqPairs_self as (fun kv hkv => h kv (by simp [hkv]))
    simp [allEqPairs, h1.1, h1.2, ih]

theorem update_nil (x : Index) (E : Externals) (now : Int) : x.update E now [] = (x, .none) := by
  rfl

/- STATEMENT BEFORE THE FIX OF `Index.update` (MutableMapping.update stops at the first assignment
that raises) — now false when the first assignment raises:

theorem update_cons : x.update E now ((k, v) :: kvs) = (x.setitem E now k v).1.update E now kvs
theorem update_append : x.update E now (a ++ b) = (x.update E now a).1.update E now b

restated for the success case (`update_cons_ok`, `update_append_ok`), with the failing-case
counterparts `update_stops_at_error` and `update_append_error`. -/

/-- the old `update_cons` is false: when the first assignment raises, `update` returns the exception,
while continuing with the remaining pairs (here: none) would return `None` -/
theorem update_cons_needs_ok :
    let x : Index := { cache := { cfg := { policy := .none } } }
    (x.update Cache.exE 0 [(.str [97], .str [0xD800])]).2.isExc = true ∧
    ((x.setitem Cache.exE 0 (.str [97]) (.str [0xD800])).1.update Cache.exE 0 []).2.isExc = false := by
  decide +kernel

/-- `update` is one assignment per pair, left to right, as long as they succeed -/
theorem update_cons_ok (x : Index) (E : Externals) (now : Int) (k v : PyVal) (kvs : List (PyVal × PyVal))
    (hok : (x.setitem E now k v).2.isExc = false) :
    x.update E now ((k, v) :: kvs) = (x.setitem E now k v).1.update E now kvs := by
  rw [update]
  cases h : x.setitem E now k v with
  | mk x1 o =>
    rw [h] at hok
    cases o <;> first | rfl | cases hok

/-- an assignment that raises ends `update`: the pairs before it stay assigned, the exception
propagates, the remaining pairs are not looked at -/
theorem update_stops_at_error (x : Index) (E : Externals) (now : Int) (k v : PyVal)
    (kvs : List (PyVal × PyVal)) (e : String) (herr : (x.setitem E now k v).2 = .exc e) :
    x.update E now ((k, v) :: kvs) = ((x.setitem E now k v).1, .exc e) := by
  rw [update]
  cases h : x.setitem E now k v with
  | mk x1 o =>
    rw [h] at herr
    simp only at herr
    subst herr
    rfl

theorem update_append_ok (x : Index) (E : Externals) (now : Int) (a b : List (PyVal × PyVal))
    (hok : (x.update E now a).2.isExc = false) :
    x.update E now (a ++ b) = (x.update E now a).1.update E now b := by
  induction a generalizing x with
  | nil => rfl
  | cons kv a ih =>
    obtain ⟨k, v⟩ := kv
    cases hs : (x.setitem E now k v).2.isExc with
    | false =>
      rw [List.cons_append, update_cons_ok x E now k v _ hs]
      rw [update_cons_ok x E now k v _ hs] at hok ⊢
      exact ih _ hok
    | true =>
      cases ho : (x.setitem E now k v).2 <;> rw [ho] at hs <;> try cases hs
      rename_i e
      rw [update_stops_at_error x E now k v a e ho] at hok
      cases hok

theorem update_append_error (x : Index) (E : Externals) (now : Int) (a b : List (PyVal × PyVal))
    (herr : (x.update E now a).2.isExc = true) :
    x.update E now (a ++ b) = x.update E now a := by
  induction a generalizing x with
  | nil => cases herr
  | cons kv a ih =>
    obtain ⟨k, v⟩ := kv
    cases hs : (x.setitem E now k v).2.isExc with
    | false =>
      rw [List.cons_append, update_cons_ok x E now k v _ hs]
      rw [update_cons_ok x E now k v _ hs] at herr ⊢
      exact ih _ herr
    | true =>
      cases ho : (x.setitem E now k v).2 <;> rw [ho] at hs <;> try cases hs
      rename_i e
      rw [List.cons_append, update_stops_at_error x E now k v _ e ho,
        update_stops_at_error x E now k v a e ho]

/-- different lengths are never equal, whatever the contents -/
theorem eqTo_len (x : Index) (E : Externals) (now : Int) (ordered : Bool) (other : List (PyVal × PyVal))
    (h : x.cache.count ≠ (other.length : Int)) :
    (x.eqTo E now ordered other).2 = .bool false ∧ (x.neTo E now ordered other).2 = .bool true := by
  have hne : (x.cache.count != (other.length : Int)) = true := by simpa using h
  have h1 : x.eqTo E now ordered other = (x, .bool false) := by
    unfold eqTo; rw [if_pos hne]
  refine ⟨by rw [h1], ?_⟩
  unfold neTo; rw [h1]; rfl

/-- `!=` is the negation of `==` -/
theorem neTo_not (x : Index) (E : Externals) (now : Int) (ordered : Bool) (other : List (PyVal × PyVal)) :
    ∃ b, (x.eqTo E now ordered other).2 = .bool b ∧ (x.neTo E now ordered other).2 = .bool (!b) := by
  have key : ∃ x1 b, x.eqTo E now ordered other = (x1, .bool b) := by
    unfold eqTo
    split
    · exact ⟨_, _, rfl⟩
    · cases ordered
      · exact ⟨_, _, rfl⟩
      · exact ⟨_, _, rfl⟩
  obtain ⟨x1, b, hb⟩ := key
  refine ⟨b, by rw [hb], ?_⟩
  unfold neTo; rw [hb]

/-- against an ordered mapping: equal exactly when the items are pairwise equal IN ORDER
(given that the row counter agrees with what `items()` yields) -/
theorem eqTo_ordered (x : Index) (E : Externals) (now : Int) (other : List (PyVal × PyVal))
    (hc : x.cache.count = ((pairs x E now).length : Int)) :
    (x.eqTo E now true other).2 = .bool (allEqPairs (pairs x E now) other) := by
  unfold eqTo
  by_cases hn : x.cache.count = (other.length : Int)
  · have hlen : (pairs x E now).length = other.length := by
      have := hc.symm.trans hn
      exact Int.ofNat.inj this
    simp only [hn, bne_self_eq_false, Bool.false_eq_true, if_false, if_true]
    exact congrArg Out.bool (seq_zip_any_eq (pairs x E now) other hlen)
  · have hne : (x.cache.count != (other.length : Int)) = true := by simpa using hn
    have hf : allEqPairs (pairs x E now) other = false := by
      cases hb : allEqPairs (pairs x E now) other
      · rfl
      · exfalso; apply hn; rw [hc, seq_allEqPairs_length _ _ hb]
    rw [if_pos hne, hf]

/-- against an unordered mapping: equal exactly when every item of the index has its key in
`other` with an equal value (lengths being equal) -/
theorem eqTo_unordered (x : Index) (E : Externals) (now : Int) (other : List (PyVal × PyVal))
    (hc : x.cache.count = (other.length : Int)) :
    (x.eqTo E now false other).2 = .bool ((pairs x E now).all (fun kv =>
      match other.find? (fun p => pyEq kv.1 p.1) with
      | some p => pyEq kv.2 p.2
      | none => false)) := by
  unfold eqTo
  simp only [hc, bne_self_eq_false, Bool.false_eq_true, if_false]
  rfl

/-- an index equals the ordered mapping of its own items (no NaN among keys and values) -/
theorem eqTo_ordered_self (x : Index) (E : Externals) (now : Int)
    (hc : x.cache.count = ((pairs x E now).length : Int))
    (hn : ∀ kv ∈ pairs x E now, pyEq kv.1 kv.1 = true ∧ pyEq kv.2 kv.2 = true) :
    (x.eqTo E now true (pairs x E now)).2 = .bool true := by
  rw [eqTo_ordered x E now _ hc, seq_allEqPairs_self _ hn]

/-- order matters against an ordered mapping: two different keys swapped compare unequal -/
theorem eqTo_ordered_swap (x : Index) (E : Externals) (now : Int) (a b : PyVal × PyVal) (rest : List (PyVal × PyVal))
    (hp : pairs x E now = a :: b :: rest) (hc : x.cache.count = ((pairs x E now).length : Int))
    (hab : pyEq a.1 b.1 = false) :
    (x.eqTo E now true (b :: a :: rest)).2 = .bool false := by
  rw [eqTo_ordered x E now _ hc, hp]
  simp [allEqPairs, hab]

/-- the value view is the second components of the item view -/
theorem values_spec (x : Index) (E : Externals) (now : Int) :
    (x.values E now).2 = .list ((Fanout.outList (x.items E now).2).filterMap
      (fun t => match t with | .tup [_, v] => some v | _ => none)) := by
  rfl

end DC.Index
