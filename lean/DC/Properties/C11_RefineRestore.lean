/-
C11 (refinement, continued) — when the hypothesis `DSpec.restores` of `rotate` / `reverse` holds:
for a codec whose `loads` inverts `dumps` (`Lawful`), every entry `append` stores is stored again
as it was.
-/
import DC.Properties.C11_RefineOrder

namespace DC.Deque
open DC.Cache DC.Spec DC.DSpec

theorem valueOf_eq (e : Spec.Entry) (E : Externals) (cfg : Cfg) :
    valueOf e E cfg =
      match fetch E cfg.disk e.mode e.content e.content.isSome e.val false with
      | .ioerror => .default
      | f => fetchedOut f := by
  unfold valueOf Entry.out
  cases fetch E cfg.disk e.mode e.content e.content.isSome e.val false <;> rfl

/-- what `Disk.place` stores is read back as the value (pickle `Disk`) -/
theorem Disk_fetch_place (E : Externals) (hE : Lawful E) (mfs : Nat) (v : PyVal) (p : Placement)
    (h : Disk.place E mfs v false = .ok p) :
    Disk.fetch E (entryOf p none .null).mode (entryOf p none .null).content
      (entryOf p none .null).content.isSome (entryOf p none .null).val false = .val v := by
  unfold Disk.place at h
  simp only [Bool.false_eq_true, if_false] at h
  cases v with
  | str s =>
    simp only at h
    split at h
    · cases h; rfl
    · split at h
      · cases h; rfl
      · cases h
  | int i =>
    simp only at h
    split at h
    · cases h; rfl
    · split at h <;> cases h <;> simp [entryOf, Disk.fetch, MODE_PICKLE, MODE_RAW, MODE_BINARY, MODE_TEXT, Content.bytes, hE.loads_dumpsV]
  | float f =>
    simp only at h
    split at h
    · split at h <;> cases h <;> simp [entryOf, Disk.fetch, MODE_PICKLE, MODE_RAW, MODE_BINARY, MODE_TEXT, Content.bytes, hE.loads_dumpsV]
    · cases h; rfl
  | bytes b =>
    simp only at h
    split at h <;> cases h <;> rfl
  | none =>
    simp only at h
    split at h <;> cases h <;> simp [entryOf, Disk.fetch, MODE_PICKLE, MODE_RAW, MODE_BINARY, MODE_TEXT, Content.bytes, hE.loads_dumpsV]
  | obj o =>
    simp only at h
    split at h <;> cases h <;> simp [entryOf, Disk.fetch, MODE_PICKLE, MODE_RAW, MODE_BINARY, MODE_TEXT, Content.bytes, hE.loads_dumpsV]

/-- … and so does `JSONDisk` -/
theorem fetch_place (E : Externals) (hE : Lawful E) (dk : DiskKind) (mfs : Nat) (v : PyVal) (p : Placement)
    (h : place E dk mfs v false = .ok p) :
    fetch E dk (entryOf p none .null).mode (entryOf p none .null).content
      (entryOf p none .null).content.isSome (entryOf p none .null).val false = .val v := by
  cases dk with
  | pickle => exact Disk_fetch_place E hE mfs v p h
  | json =>
    unfold place at h
    simp only [Bool.false_eq_true, if_false] at h
    unfold fetch
    simp only
    rw [Disk_fetch_place E hE mfs _ p h]
    simp [hE.unjsonz_jsonz]

/-- with a lawful codec, what `append` stores for a value is stored again as it was -/
theorem entryFor_restores (E : Externals) (hE : Lawful E) (cfg : Cfg) (v : PyVal) (e : Spec.Entry)
    (h : entryFor E cfg v = some e) : restores E cfg e = true := by
  rcases entryFor_cases E cfg v with ⟨h0, -⟩ | ⟨p, hpl, -, hef⟩
  · rw [h0] at h; cases h
  · rw [hef] at h
    cases h
    unfold restores
    rw [valueOf_eq, fetch_place E hE cfg.disk cfg.minFileSize v p hpl]
    simp only [fetchedOut]
    exact decide_eq_true hef

end DC.Deque

namespace DC.Deque
open DC.Cache DC.Spec DC.DSpec

/-! ### one lawful codec for the whole history: `DSpec.restorable` holds -/

theorem spec_append_mem (m : DList) (E : Externals) (cfg : Cfg) (v : PyVal) (left : Bool) :
    ∀ x ∈ (DSpec.append m E cfg v left).1.items, x ∈ m.items ∨ entryFor E cfg v = some x := by
  intro x hx
  cases hef : entryFor E cfg v with
  | none => rw [spec_append_none m E cfg v left hef] at hx; exact .inl hx
  | some e =>
    rw [spec_append_some m E cfg v left e hef] at hx
    have := trimTo_mem hx
    cases left with
    | true =>
      simp only [if_true, List.mem_cons] at this
      rcases this with h | h
      · exact .inr (by rw [h])
      · exact .inl h
    | false =>
      simp only [Bool.false_eq_true, if_false, List.mem_append, List.mem_singleton] at this
      rcases this with h | h
      · exact .inl h
      · exact .inr (by rw [h])

theorem spec_extend_mem (E : Externals) (cfg : Cfg) (left : Bool) : ∀ (vs : List PyVal) (m : DList),
    ∀ x ∈ (DSpec.extend m E cfg vs left).1.items, x ∈ m.items ∨ ∃ v, entryFor E cfg v = some x
  | [], m, x, hx => .inl hx
  | v :: vs, m, x, hx => by
    cases hef : entryFor E cfg v with
    | none => rw [spec_extend_cons_none m E cfg v vs left hef] at hx; exact .inl hx
    | some e =>
      rw [spec_extend_cons_some m E cfg v vs left e hef] at hx
      rcases spec_extend_mem E cfg left vs _ x hx with h | h
      · rcases spec_append_mem m E cfg v left x h with h | h
        · exact .inl h
        · exact .inr ⟨v, h⟩
      · exact .inr h

/-- a call with a lawful codec keeps "every item is stored again as it was" -/
theorem step_restores (E : Externals) (hE : Lawful E) (cfg : Cfg) (m : DList) (op : DOp)
    (hop : ∀ E', op.codec = some E' → E' = E)
    (hm : ∀ e ∈ m.items, restores E cfg e = true) :
    ∀ e ∈ (DSpec.step m cfg op).1.items, restores E cfg e = true := by
  have happ : ∀ (v : PyVal) (left : Bool), ∀ e ∈ (DSpec.append m E cfg v left).1.items,
      restores E cfg e = true := by
    intro v left e he
    rcases spec_append_mem m E cfg v left e he with h | h
    · exact hm e h
    · exact entryFor_restores E hE cfg v e h
  have hext : ∀ (vs : List PyVal) (left : Bool), ∀ e ∈ (DSpec.extend m E cfg vs left).1.items,
      restores E cfg e = true := by
    intro vs left e he
    rcases spec_extend_mem E cfg left vs m e he with h | ⟨v, h⟩
    · exact hm e h
    · exact entryFor_restores E hE cfg v e h
  have hpop : ∀ (E' : Externals) (left : Bool), ∀ e ∈ (DSpec.pop m E' cfg left).1.items, e ∈ m.items := by
    intro E' left e he
    unfold DSpec.pop at he
    split at he
    · exact he
    · cases left with
      | true => exact List.mem_of_mem_tail he
      | false => exact List.dropLast_subset _ he
  have hpeek : ∀ (E' : Externals) (left : Bool), (DSpec.peek m E' cfg left).1 = m := by
    intro E' left; unfold DSpec.peek; split <;> rfl
  cases op with
  | append E' now v => cases hop E' rfl; exact happ v false
  | appendleft E' now v => cases hop E' rfl; exact happ v true
  | pop E' now => exact fun e he => hm e (hpop E' false e he)
  | popleft E' now => exact fun e he => hm e (hpop E' true e he)
  | peek E' now => show ∀ e ∈ (DSpec.peek m E' cfg false).1.items, _; rw [hpeek]; exact hm
  | peekleft E' now => show ∀ e ∈ (DSpec.peek m E' cfg true).1.items, _; rw [hpeek]; exact hm
  | len => exact hm
  | clear => intro e he; cases he
  | getitem E' now i =>
    show ∀ e ∈ (DSpec.getitem m E' cfg i).1.items, _
    have : (DSpec.getitem m E' cfg i).1 = m := by unfold DSpec.getitem; split <;> rfl
    rw [this]; exact hm
  | iter E' now rev => exact hm
  | extend E' now vs => cases hop E' rfl; exact hext vs false
  | extendleft E' now vs => cases hop E' rfl; exact hext vs true
  | setitem E' now i v =>
    cases hop E' rfl
    show ∀ e ∈ (DSpec.setitem m E cfg i v).1.items, _
    unfold DSpec.setitem
    split
    · exact hm
    · split
      · exact hm
      · rename_i p _ e0 he0
        intro e he
        rcases List.mem_or_eq_of_mem_set he with h | h
        · exact hm e h
        · rw [h]; exact entryFor_restores E hE cfg v e0 he0
  | delitem E' now i =>
    show ∀ e ∈ (DSpec.delitem m i).1.items, _
    unfold DSpec.delitem
    split
    · exact hm
    · exact fun e he => hm e (List.mem_of_mem_eraseIdx he)
  | count E' now v => exact hm
  | remove E' now v =>
    show ∀ e ∈ (DSpec.remove m E' cfg v).1.items, _
    unfold DSpec.remove
    split
    · exact hm
    · exact fun e he => hm e (List.mem_of_mem_eraseIdx he)
  | compare E' now op that =>
    show ∀ e ∈ (DSpec.compare m E' cfg op that).1.items, _
    have : (DSpec.compare m E' cfg op that).1 = m := by unfold DSpec.compare; split <;> rfl
    rw [this]; exact hm
  | rotate E' now steps =>
    show ∀ e ∈ (DSpec.rotate m steps).1.items, _
    unfold DSpec.rotate
    split
    · exact hm
    · split
      · exact fun e he => hm e (iter_mem rotr rotr_mem _ _ e he)
      · exact fun e he => hm e (iter_mem rotl rotl_mem _ _ e he)
  | reverse E' now => exact fun e he => hm e (List.mem_reverse.1 he)
  | setMaxlen E' now k => exact fun e he => hm e (List.mem_of_mem_drop he)

/-- **one lawful codec**: when every call of the history observes the same codec `E`, and `loads`
inverts `dumps` for it, the hypothesis `DSpec.restorable` of the history theorems holds -/
theorem restorable_lawful (E : Externals) (hE : Lawful E) (cfg : Cfg) : ∀ (ops : List DOp) (m : DList),
    (∀ op ∈ ops, ∀ E', op.codec = some E' → E' = E) → (∀ e ∈ m.items, restores E cfg e = true) →
    DSpec.restorable m cfg ops = true
  | [], _, _, _ => rfl
  | op :: ops, m, hops, hm => by
    show (op.restoreOk m cfg && DSpec.restorable (DSpec.step m cfg op).1 cfg ops) = true
    rw [Bool.and_eq_true]
    refine ⟨?_, restorable_lawful E hE cfg ops _ (fun o ho => hops o (List.mem_cons_of_mem _ ho))
      (step_restores E hE cfg m op (hops op List.mem_cons_self) hm)⟩
    cases op with
    | rotate E' now steps =>
      cases hops _ List.mem_cons_self E' rfl
      exact List.all_eq_true.2 hm
    | reverse E' now =>
      cases hops _ List.mem_cons_self E' rfl
      exact List.all_eq_true.2 hm
    | _ => rfl

end DC.Deque
