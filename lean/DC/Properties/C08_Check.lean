/-
C08 tied to C17 — the library's own consistency check is silent on every reachable cache.

`Observes c st`: `st` is a directory as `Cache.check` would observe it (`DC.Check.St`) for the
cache-model state `c`: the rows of `c` as (rowid, size, file id), the two counters, and exactly
the value files of `c`, each with the size of its content, each placed in SOME second-level
directory of the value tree.  The cache model names files by number, not by path, so the placement
into `xx/yy/` is not determined by it: every theorem here is for EVERY placement (and for every
set of further, possibly empty, directories).  The database's own files (`cache.db*`, which check
passes over) may be part of the observation.

Sizes.  The cache model keeps for each file its content (`Cache.files : List (Nat × Content)`); the
size on disk is `Content.size` = the number of bytes of `Content.bytes`.  The row records
`Row.size`, written by `store` as `c.size` of the content it has just written; the invariant
`FileInv.ref` (part of `Good`) says `ct.size = r.size` for the content `ct` of the row's file.
`Observes` takes `FsFile.size = Content.size`: nothing is assumed beyond the model's own contents.
-/
import DC.Properties.C08_Seq
import DC.Properties.C03_Refine
import DC.Properties.C06
import DC.Properties.C17_Top
import DC.Proofs.CheckObserve

namespace DC.Cache

open DC.Check (St FsFile CRow Warn Level)

/-- the row as `check` reads it: `SELECT rowid, size, filename` -/
def crow (r : Row) : CRow := ⟨r.rowid, r.size, r.file⟩

/-- `st` is what `check` would observe of the cache state `c`, for some placement of the value
files into the two-level tree -/
structure Observes (c : Cache) (st : St) : Prop where
  rows : st.rows = c.rows.map crow
  count : st.count = c.count
  size : st.size = c.size
  /-- every observed file is a value file of the cache, in the value tree, with the size of its
  content — or one of the database's own files in the cache directory, which check passes over -/
  fileOf : ∀ f ∈ st.files,
    (f.level = .leaf ∧ f.db = false ∧ ∃ p ∈ c.files, p.1 = f.id ∧ f.size = p.2.size) ∨
    (f.level = .top ∧ f.db = true)
  /-- every value file of the cache is observed, in the value tree, with the size of its content -/
  fileAll : ∀ p ∈ c.files, ∃ f ∈ st.files, f.id = p.1 ∧ f.size = p.2.size ∧ f.level = .leaf ∧ f.db = false
  fileIds : (st.files.map (·.id)).Nodup
  /-- the placement: a file system's shape -/
  fileDir : ∀ f ∈ st.files, f.level = .leaf → (f.d1, f.d2) ∈ st.dirs2
  dirDir : ∀ d ∈ st.dirs2, d.1 ∈ st.dirs1
  dirs1 : st.dirs1.Nodup
  dirs2 : st.dirs2.Nodup

/-- the placement leaves no directory empty -/
structure NoEmptyDirs (st : St) : Prop where
  noEmpty2 : ∀ d ∈ st.dirs2, ∃ ff ∈ st.files, ff.level = .leaf ∧ ff.d1 = d.1 ∧ ff.d2 = d.2
  noEmpty1 : ∀ d ∈ st.dirs1, ∃ d2 ∈ st.dirs2, d2.1 = d

theorem sumSizes_crow (rows : List Row) : Check.sumSizes (rows.map crow) = sumSizes rows := by
  simp [Check.sumSizes, sumSizes, crow, Function.comp_def]

theorem observes_wellShaped {c : Cache} {st : St} (hasc : RowidsAsc c.rows) (ho : Observes c st) :
    Check.WellShaped st := by
  refine ⟨ho.fileDir, ho.dirDir, ho.fileIds, ?_, ho.dirs1, ho.dirs2⟩
  rw [ho.rows, List.map_map]
  have : (c.rows.map (·.rowid)).Nodup := List.Pairwise.map _ (fun a b h => Nat.ne_of_lt h) hasc
  exact this

theorem observes_itemsClean {c : Cache} {st : St} (hc : Consistent c) (ho : Observes c st) :
    Check.ItemsClean st := by
  constructor
  · intro r' hr' f hf
    rw [ho.rows] at hr'
    obtain ⟨r, hr, rfl⟩ := List.mem_map.1 hr'
    obtain ⟨ct, hget, hsz⟩ := hc.ref r hr f hf
    obtain ⟨ff, hff, hid, hs, _, _⟩ := ho.fileAll (f, ct) (mem_of_fileGet hget)
    exact ⟨ff, hff, hid, by rw [hs]; exact hsz⟩
  · intro ff hff hdb
    rcases ho.fileOf ff hff with ⟨_, _, p, hm, hid, _⟩ | ⟨_, hdb'⟩
    · obtain ⟨r, hr, hrf⟩ := hc.noOrphan p hm
      exact ⟨crow r, by rw [ho.rows]; exact List.mem_map.2 ⟨r, hr, rfl⟩, by rw [← hid]; exact hrf⟩
    · rw [hdb] at hdb'; cases hdb'
  · rw [ho.count, hc.count, ho.rows, List.length_map]
  · rw [ho.size, hc.size, ho.rows, sumSizes_crow]

/-- the conclusion of C08, for a directory `st`: plain check reports nothing but empty
directories (nothing at all if the placement has none), and check(fix=True) reports nothing but
empty directories and changes nothing but removing exactly the directories it reports; what it
leaves is consistent (`Check.Clean`: a further check is silent) -/
structure CheckQuiet (st : St) : Prop where
  nofix : ∀ w ∈ (Check.check false st).2, w.isEmptyDir = true
  nofixSilent : NoEmptyDirs st → (Check.check false st).2 = []
  fix : ∀ w ∈ (Check.check true st).2, w.isEmptyDir = true
  fixSilent : NoEmptyDirs st → Check.check true st = (st, [])
  rows : (Check.check true st).1.rows = st.rows
  count : (Check.check true st).1.count = st.count
  size : (Check.check true st).1.size = st.size
  files : (Check.check true st).1.files = st.files
  dirs2 : ∀ d ∈ st.dirs2, d ∉ (Check.check true st).1.dirs2 ↔ Warn.emptyDir2 d.1 d.2 ∈ (Check.check true st).2
  dirs1 : ∀ d ∈ st.dirs1, d ∉ (Check.check true st).1.dirs1 ↔ Warn.emptyDir1 d ∈ (Check.check true st).2
  dirsSub : (∀ d ∈ (Check.check true st).1.dirs2, d ∈ st.dirs2) ∧ (∀ d ∈ (Check.check true st).1.dirs1, d ∈ st.dirs1)
  after : Check.Clean (Check.check true st).1

/-- bookkeeping that matches the content (`Consistent`, what C08 asks of the cache state) makes
the check model quiet on every directory that observes the state -/
theorem consistent_check_quiet (c : Cache) (st : St) (hc : Consistent c) (hasc : RowidsAsc c.rows)
    (ho : Observes c st) : CheckQuiet st := by
  have hw := observes_wellShaped hasc ho
  have hi := observes_itemsClean hc ho
  obtain ⟨e0, e1⟩ := Check.check_of_itemsClean st hw.rowIds hw.fileIds hi
  obtain ⟨r1, r2, r3, r4, r5, r6, r7, r8⟩ := Check.dirPass_true_removed st
  have isE : ∀ fix, ∀ w ∈ (Check.dirPass fix st).2, w.isEmptyDir = true := by
    intro fix w hw'
    have := Check.dirPass_kind fix st w hw'
    cases w <;> simp_all [Warn.isEmptyDir, Check.Warn.kind]
  have clean : NoEmptyDirs st → Check.Clean st := fun hn =>
    ⟨hi.ref, hi.known, hn.noEmpty2, fun d hd => Or.inl (hn.noEmpty1 d hd), hi.count, hi.size⟩
  refine ⟨?_, ?_, ?_, ?_, ?_, ?_, ?_, ?_, ?_, ?_, ?_, Check.fix_clean st hw⟩
  · rw [e0]; exact isE false
  · intro hn; exact (Check.check_silent_iff st hw).2 (clean hn)
  · rw [e1]; exact isE true
  · intro hn; exact Check.fix_on_clean st hw (clean hn)
  · rw [e1]; exact r1
  · rw [e1]; exact r2
  · rw [e1]; exact r3
  · rw [e1]; exact r4
  · rw [e1]; exact r5
  · rw [e1]; exact r6
  · rw [e1]; exact ⟨r7, r8⟩

/-- C08 for one state: on a `Good` cache state (table and file invariants, no orphan file, no
open block) the consistency check finds nothing but — harmless — empty directories, whatever the
placement of the value files, and repairing removes those directories and nothing else -/
theorem good_check_quiet (c : Cache) (st : St) (hg : Good c) (ho : Observes c st) : CheckQuiet st :=
  consistent_check_quiet c st (good_consistent c hg) hg.tinv.tbl.asc ho

/-! ### histories -/

/-- every call other than a block bracket keeps `Good` -/
theorem step_good_flat (c : Cache) (op : Op) (hf : op.flat = true) (hg : Good c) : Good (c.step op).1 := by
  cases op with
  | set E now k v ttl read tag => exact set_good _ _ _ _ _ _ _ _ hg
  | add E now k v ttl read tag => exact add_good _ _ _ _ _ _ _ _ hg
  | touch E now k ttl => exact touch_good _ _ _ _ _ hg
  | incr E now k delta dflt => exact incr_good _ _ _ _ _ _ hg
  | get E now k read et tg => exact get_good _ _ _ _ _ _ _ hg
  | contains E now k => exact step_good c (.contains E now k) rfl hg
  | pop E now k et tg => exact pop_good _ _ _ _ _ _ hg
  | delitem E now k => exact delitem_good _ _ _ _ hg
  | delete E now k => exact delete_good _ _ _ _ hg
  | push E now v pfx back ttl read tag => exact push_good _ _ _ _ _ _ _ _ _ hg
  | pull E now pfx front et tg => exact pull_good _ _ _ _ _ _ _ hg
  | peek E now pfx front et tg => exact peek_good _ _ _ _ _ _ _ hg
  | peekitem E now last et tg => exact peekitem_good _ _ _ _ _ _ hg
  | clear => exact clear_good _ hg
  | evict tag => exact evict_good _ _ hg
  | expire now => exact expire_good _ _ hg
  | cull now => exact cull_good _ _ hg
  | iter E asc => exact good_of_core hg (iter_inv c E asc hg.tinv) (iter_core c E asc)
  | iterkeys E rev => exact good_of_core hg (iterkeys_inv c E rev hg.tinv) (iterkeys_core c E rev)
  | len => exact good_of_core hg (len_inv c hg.tinv) rfl
  | stats enable reset =>
    refine good_of_same hg (stats_inv c enable reset hg.tinv) ?_ ?_ ?_ ?_ ?_ ?_ ?_ <;>
      (simp only [step, stats]; split <;> rfl)
  | tbegin => cases hf
  | tend => cases hf
  | traise n => cases hf
  | observe env =>
    exact good_of_same hg ⟨hg.tinv.tbl, hg.tinv.snap⟩ rfl rfl rfl rfl rfl rfl rfl

/-- the call opens a transaction block -/
def Op.opens : Op → Bool
  | .tbegin => true
  | _ => false

/-- ... and so does a block-closing bracket met outside any block (it does nothing): every call
other than `tbegin` keeps `Good` -/
theorem step_good_unopened (c : Cache) (op : Op) (ho : op.opens = false) (hg : Good c) :
    Good (c.step op).1 := by
  cases hf : op.flat with
  | true => exact step_good_flat c op hf hg
  | false =>
    cases op <;> simp only [Op.flat, Bool.true_eq_false] at hf
    · cases ho
    · refine good_of_same hg (tend_inv c hg.tinv) ?_ ?_ ?_ ?_ ?_ ?_ ?_ <;>
        simp [step, tend, hg.depth]
    · rename_i n
      refine good_of_same hg (traise_inv c n hg.tinv) ?_ ?_ ?_ ?_ ?_ ?_ ?_ <;>
        simp [step, traise, hg.depth]

theorem run_good_unopened (c : Cache) (ops : List Op) (hf : ∀ op ∈ ops, op.opens = false) (hg : Good c) :
    Good (c.run ops) := by
  induction ops generalizing c with
  | nil => exact hg
  | cons op ops ih =>
    exact ih (c.step op).1 (fun o ho => hf o (List.mem_cons_of_mem _ ho))
      (step_good_unopened c op (hf op List.mem_cons_self) hg)

theorem run_good_flat (c : Cache) (ops : List Op) (hf : ∀ op ∈ ops, op.flat = true) (hg : Good c) :
    Good (c.run ops) := by
  induction ops generalizing c with
  | nil => exact hg
  | cons op ops ih =>
    exact ih (c.step op).1 (fun o ho => hf o (List.mem_cons_of_mem _ ho))
      (step_good_flat c op (hf op List.mem_cons_self) hg)

/-
The full statement asked for (C08 for all single-client histories):

  theorem run_check_quiet (cfg : Cfg) (stat : Bool) (ops : List Op)
      (hclosed : (({ cfg := cfg, statistics := stat } : Cache).run ops).depth = 0)
      (st : St) (ho : Observes (({ cfg := cfg, statistics := stat } : Cache).run ops) st) : CheckQuiet st

with `tbegin` / `tend` / `traise` anywhere in `ops`.  Proved below for histories that never OPEN a
block (no `tbegin`; every call is then its own transaction; stray `tend` / `traise` do nothing):
all 24 other calls, every eviction policy, every configuration, clock trajectory and codec.  Missing for the full statement: the file
invariants inside an open block (files replaced or popped wait in `pending`, files written wait in
`created`; `tend` removes the first, `traise` the second) — `Good`/`PI` and all the `*_good` /
`*_PI` lemmas are stated at depth 0 only; `C06.abort_restores` gives rows, counters and the old
files after an aborted block but not that the files written in the block are all gone.
-/

/-- C08 for every single-client history of calls outside transaction blocks: from the empty
cache, after ANY finite history that opens no block (any of the other calls, any arguments, clock
values, codecs and database-size observations, any configuration and eviction policy), for EVERY
directory that observes the final state, the consistency check finds nothing but empty
directories and repairs nothing but those -/
theorem run_check_quiet_partial (cfg : Cfg) (stat : Bool) (ops : List Op)
    (hno : ∀ op ∈ ops, op.opens = false)
    (st : St) (ho : Observes (({ cfg := cfg, statistics := stat } : Cache).run ops) st) : CheckQuiet st :=
  good_check_quiet _ st (run_good_unopened _ ops hno (good_init cfg stat)) ho

/-- the same from any `Good` state -/
theorem run_check_quiet_from (c : Cache) (hg : Good c) (ops : List Op) (hno : ∀ op ∈ ops, op.opens = false)
    (st : St) (ho : Observes (c.run ops) st) : CheckQuiet st :=
  good_check_quiet _ st (run_good_unopened c ops hno hg) ho

/-- a block that is entered and left at once, committed or aborted, is covered too (the two
bracketing steps keep `Good`: `tbegin_tend_good`, `tbegin_traise_good`) -/
theorem empty_block_check_quiet (c : Cache) (hg : Good c) (st : St) :
    (Observes c.tbegin.tend st → CheckQuiet st) ∧ (Observes (c.tbegin.traise 1) st → CheckQuiet st) :=
  ⟨good_check_quiet _ st (tbegin_tend_good c hg), good_check_quiet _ st (tbegin_traise_good c hg)⟩

/-! ### non-vacuity, and what fails without `Good` -/

/-- a history with file-backed values stored, replaced and deleted (values of 2 bytes or more go
to files): `a` -> file 0, `b` -> file 1, `c` inline, `a` replaced -> file 2 (file 0 removed),
`b` deleted (file 1 removed), `d` -> file 3 -/
def exHist : List Op :=
  [.set exE6 0 (.str [97]) (.bytes [1, 2, 3]) none false .null,
   .set exE6 0 (.str [98]) (.bytes [4, 5, 6, 7]) none false .null,
   .set exE6 1 (.str [99]) (.bytes [8]) none false .null,
   .set exE6 2 (.str [97]) (.bytes [9, 9, 9, 9, 9]) none false .null,
   .delete exE6 3 (.str [98]),
   .set exE6 4 (.str [100]) (.bytes [1, 1]) none false .null]

def exCfg : Cfg := { minFileSize := 2, cullLimit := 0 }

def exFinal : Cache := ({ cfg := exCfg } : Cache).run exHist

/-- a directory observing `exFinal`: the two surviving value files in `1/1/` and `2/1/`, the
database file in the cache directory, and empty directories `5/1/`, `5/` left behind (the cache
model does not track directories; `Disk.remove` tries to remove emptied ones but suppresses errors) -/
def exSt : St :=
  { rows := [⟨1, 5, some 2⟩, ⟨3, 0, none⟩, ⟨4, 2, some 3⟩], count := 3, size := 7,
    files := [⟨100, 0, 0, 4096, .top, true⟩, ⟨2, 1, 1, 5, .leaf, false⟩, ⟨3, 2, 1, 2, .leaf, false⟩],
    dirs1 := [1, 2, 5], dirs2 := [(1, 1), (2, 1), (5, 1)] }

theorem exSt_observes : Observes exFinal exSt :=
  ⟨by decide +kernel, by decide +kernel, by decide +kernel, by decide +kernel, by decide +kernel,
   by decide +kernel, by decide +kernel, by decide +kernel, by decide +kernel, by decide +kernel⟩

/-- `run_check_quiet_partial` applies to it ... -/
theorem exSt_quiet : CheckQuiet exSt :=
  run_check_quiet_partial exCfg false exHist (by decide) exSt exSt_observes

/-- ... and this is what the check model computes on it: the empty second-level directory is
reported; repairing removes it and then its parent, and nothing else -/
example : (Check.check false exSt).2 = [.emptyDir2 5 1] ∧
    Check.check true exSt = ({ exSt with dirs1 := [1, 2], dirs2 := [(1, 1), (2, 1)] }, [.emptyDir2 5 1, .emptyDir1 5]) := by
  decide +kernel

/-- the same without the empty directories: silent, and check(fix=True) is the identity -/
def exStTight : St := { exSt with dirs1 := [1, 2], dirs2 := [(1, 1), (2, 1)] }

theorem exStTight_silent : Observes exFinal exStTight ∧ NoEmptyDirs exStTight ∧
    (Check.check false exStTight).2 = [] ∧ Check.check true exStTight = (exStTight, []) := by
  have ho : Observes exFinal exStTight :=
    ⟨by decide +kernel, by decide +kernel, by decide +kernel, by decide +kernel, by decide +kernel,
     by decide +kernel, by decide +kernel, by decide +kernel, by decide +kernel, by decide +kernel⟩
  have hn : NoEmptyDirs exStTight := ⟨by decide +kernel, by decide +kernel⟩
  have hq := run_check_quiet_partial exCfg false exHist (by decide) exStTight ho
  exact ⟨ho, hn, hq.nofixSilent hn, hq.fixSilent hn⟩

/-- `good_check_quiet` needs `Good`: a state with a leaked value file (file 7, which no row
refers to: `NoOrphan` fails) is observed by a directory on which check reports an unknown file -/
def exLeaky : Cache := { exFinal with files := exFinal.files ++ [(7, .bin [1, 2, 3])], nfile := 8 }

def exStLeaky : St := { exStTight with files := exStTight.files ++ [⟨7, 2, 1, 3, .leaf, false⟩] }

theorem good_check_quiet_needs_good :
    Observes exLeaky exStLeaky ∧ ¬ Good exLeaky ∧ ¬ CheckQuiet exStLeaky ∧
    (Check.check false exStLeaky).2 = [.unknown 7] := by
  have ho : Observes exLeaky exStLeaky :=
    ⟨by decide +kernel, by decide +kernel, by decide +kernel, by decide +kernel, by decide +kernel,
     by decide +kernel, by decide +kernel, by decide +kernel, by decide +kernel, by decide +kernel⟩
  have hw : (Check.check false exStLeaky).2 = [.unknown 7] := by decide +kernel
  have hnq : ¬ CheckQuiet exStLeaky := by
    intro hq
    have := hq.nofix (.unknown 7) (by rw [hw]; simp)
    simp [Warn.isEmptyDir] at this
  exact ⟨ho, fun hg => hnq (good_check_quiet _ _ hg ho), hnq, hw⟩

/-- ... and it needs the counters too: a state whose `Settings.count` is off by one -/
theorem good_check_quiet_needs_count :
    Observes { exFinal with count := 4 } { exStTight with count := 4 } ∧
    (Check.check false { exStTight with count := 4 }).2 = [.count 4 3] := by
  refine ⟨⟨by decide +kernel, by decide +kernel, by decide +kernel, by decide +kernel, by decide +kernel,
     by decide +kernel, by decide +kernel, by decide +kernel, by decide +kernel, by decide +kernel⟩, ?_⟩
  decide +kernel

/-- "once no operation is in flight" is needed: INSIDE an open block the file of a replaced value
is still on disk (its removal waits for the outermost commit), so a check run at that moment by
another observer of the directory would report it as unknown; after the commit (`tend`) only
the directory the file has left empty is reported.  (The rows shown are those of the uncommitted
transaction, which is what the thread that owns the block reads.) -/
def exOpen : Cache := exFinal.tbegin.run [.set exE6 5 (.str [97]) (.bytes [7, 7, 7]) none false .null]

def exStOpen : St :=
  { rows := [⟨1, 3, some 4⟩, ⟨3, 0, none⟩, ⟨4, 2, some 3⟩], count := 3, size := 5,
    files := [⟨2, 1, 1, 5, .leaf, false⟩, ⟨3, 2, 1, 2, .leaf, false⟩, ⟨4, 3, 1, 3, .leaf, false⟩],
    dirs1 := [1, 2, 3], dirs2 := [(1, 1), (2, 1), (3, 1)] }

theorem check_quiet_needs_closed_block :
    exOpen.depth = 1 ∧ Observes exOpen exStOpen ∧ (Check.check false exStOpen).2 = [.unknown 2] ∧
    Observes exOpen.tend { exStOpen with files := exStOpen.files.tail } ∧
    (Check.check false { exStOpen with files := exStOpen.files.tail }).2 = [.emptyDir2 1 1] := by
  refine ⟨by decide +kernel, ?_, by decide +kernel, ?_, by decide +kernel⟩
  · exact ⟨by decide +kernel, by decide +kernel, by decide +kernel, by decide +kernel, by decide +kernel,
      by decide +kernel, by decide +kernel, by decide +kernel, by decide +kernel, by decide +kernel⟩
  · exact ⟨by decide +kernel, by decide +kernel, by decide +kernel, by decide +kernel, by decide +kernel,
      by decide +kernel, by decide +kernel, by decide +kernel, by decide +kernel, by decide +kernel⟩

end DC.Cache
