/-
C11 (continued) — the sequence operations of Deque that compare values:
extend / extendleft / +=, count, remove, and the six comparisons with another
sequence.  They are built on Python `==` and `<` of the stored values
(`pyEq`, `pyLt`, `pyLe` in DC.Model.Layers).
-/
import DC.Properties.C11
import DC.Proofs.SeqLemmas

namespace DC

/-! ### Python equality on the modelled value classes -/

/-- `==` is symmetric -/
theorem pyEq_symm (a b : PyVal) : pyEq a b = pyEq b a := by
  exact seq_pyEq_symm a b

/-- `==` is reflexive on everything but NaN -/
theorem pyEq_refl (a : PyVal) (h : ∀ f, a = .float f → floatIsNaN f = false) : pyEq a a = true := by
  rcases seq_pyEq_cases a a with ⟨x, y, hx, hy, he⟩ | ⟨hn, hi, -⟩ | ⟨-, -, -, -, he⟩
  · rw [he]; rw [hx] at hy; cases hy; simp
  · have hi' : pyIsNumber a = true := by cases hi <;> assumption
    obtain ⟨x, hx⟩ := seq_pyNum_of_notNaN a hi' h
    rw [hx] at hn; simp at hn
  · rw [he]; simp

/-- NaN equals nothing, itself included -/
theorem pyEq_nan (f : Nat) (h : floatIsNaN f = true) (b : PyVal) : pyEq (.float f) b = false := by
  simp [pyEq, pyNum, h, pyIsNumber]

/-- `==` is transitive -/
theorem pyEq_trans (a b c : PyVal) (h1 : pyEq a b = true) (h2 : pyEq b c = true) : pyEq a c = true := by
  rcases seq_pyEq_cases a b with ⟨x, y, hx, hy, he⟩ | ⟨-, -, he⟩ | ⟨hia, hib, hna, hnb, he⟩
  · rcases seq_pyEq_cases b c with ⟨y', z, hy', hz, he'⟩ | ⟨-, -, he'⟩ | ⟨hib, -, -, -, -⟩
    · rcases seq_pyEq_cases a c with ⟨x', z', hx', hz', he''⟩ | ⟨hn, -, -⟩ | ⟨-, -, hn, -, -⟩
      · rw [he''] ; rw [he] at h1; rw [he'] at h2
        rw [hx] at hx'; rw [hy] at hy'; rw [hz] at hz'
        cases hx'; cases hy'; cases hz'
        simp only [beq_iff_eq] at h1 h2 ⊢
        exact h1.trans h2
      · rw [hx, hz] at hn; simp at hn
      · rw [hx] at hn; simp at hn
    · rw [he'] at h2; simp at h2
    · rw [seq_pyNum_some_isNumber hy] at hib; simp at hib
  · rw [he] at h1; simp at h1
  · rcases seq_pyEq_cases b c with ⟨y', z, hy', -, -⟩ | ⟨-, -, he'⟩ | ⟨-, hic, -, hnc, he'⟩
    · rw [hnb] at hy'; simp at hy'
    · rw [he'] at h2; simp at h2
    · rcases seq_pyEq_cases a c with ⟨x', z', hx', -, -⟩ | ⟨-, hi, -⟩ | ⟨-, -, -, -, he''⟩
      · rw [hna] at hx'; simp at hx'
      · rw [hia, hic] at hi; simp at hi
      · rw [he''] ; rw [he] at h1; rw [he'] at h2
        simp only [beq_iff_eq] at h1 h2 ⊢
        exact h1.trans h2

/-- an int and a float are equal exactly when they denote the same number -/
theorem pyEq_int_float (i : Int) (f : Nat) (h : floatIsNaN f = false) :
    pyEq (.int i) (.float f) = (intNum i == floatNum f) := by
  simp [pyEq, pyNum, h]

/-- values of different kinds are never equal (numbers aside) -/
theorem pyEq_str_bytes (s : Str) (b : Bytes) : pyEq (.str s) (.bytes b) = false := by
  simp [pyEq, pyNum, pyIsNumber]

/-! ### the comparison of two sequences -/

/-- pairwise equality of two lists under `==` -/
def allEq : List PyVal → List PyVal → Bool
  | [], [] => true
  | a :: as, b :: bs => pyEq a b && allEq as bs
  | _, _ => false

private theorem seq_allEq_length : ∀ (xs ys : List PyVal), allEq xs ys = true → xs.length = ys.length
  | [], [], _ => rfl
  | [], _ :: _, h => by simp [allEq] at h
  | _ :: _, [], h => by simp [allEq] at h
  | a :: as, b :: bs, h => by
    simp only [allEq, Bool.and_eq_true] at h
    simp [seq_allEq_length as bs h.2]

private theorem seq_cmpSeq_eq_gen (k : Nat) : ∀ (xs ys : List PyVal),
    cmpSeq .eq (k + xs.length) (k + ys.length) xs ys = some (allEq xs ys) ∧
    cmpSeq .ne (k + xs.length) (k + ys.length) xs ys = some (!allEq xs ys) := by
  intro xs
  induction xs generalizing k with
  | nil =>
    intro ys
    cases ys <;> simp [cmpSeq, allEq, CmpOp.onNats]
  | cons a as ih =>
    intro ys
    cases ys with
    | nil => simp [cmpSeq, allEq, CmpOp.onNats]
    | cons b bs =>
      simp only [cmpSeq, allEq, CmpOp.onVals, List.length_cons]
      cases hab : pyEq a b
      · simp
      · have := ih (k + 1) bs
        simp only [Nat.add_assoc, Nat.add_comm 1] at this
        simpa using this

/-- `==` of sequences: same length and pairwise equal — for ALL lists -/
theorem cmpSeq_eq (xs ys : List PyVal) :
    cmpSeq .eq xs.length ys.length xs ys = some (allEq xs ys) := by
  simpa using (seq_cmpSeq_eq_gen 0 xs ys).1

/-- `!=` is the negation of `==` -/
theorem cmpSeq_ne (xs ys : List PyVal) :
    cmpSeq .ne xs.length ys.length xs ys = some (!allEq xs ys) := by
  simpa using (seq_cmpSeq_eq_gen 0 xs ys).2

/-- `==` and `!=` never raise -/
theorem cmpSeq_eq_total (n m : Nat) (xs ys : List PyVal) :
    (cmpSeq .eq n m xs ys).isSome = true ∧ (cmpSeq .ne n m xs ys).isSome = true := by
  induction xs generalizing ys with
  | nil => simp [cmpSeq]
  | cons a as ih =>
    cases ys with
    | nil => simp [cmpSeq]
    | cons b bs =>
      simp only [cmpSeq, CmpOp.onVals]
      cases pyEq a b
      · simp
      · simpa using ih bs

/-- `a > b` is `b < a`, `a >= b` is `b <= a` -/
theorem cmpSeq_gt_swap (n m : Nat) (xs ys : List PyVal) :
    cmpSeq .gt n m xs ys = cmpSeq .lt m n ys xs := by
  induction xs generalizing ys with
  | nil => cases ys <;> simp [cmpSeq, CmpOp.onNats]
  | cons a as ih =>
    cases ys with
    | nil => simp [cmpSeq, CmpOp.onNats]
    | cons b bs =>
      simp only [cmpSeq, CmpOp.onVals, pyEq_symm b a, ih bs]

theorem cmpSeq_ge_swap (n m : Nat) (xs ys : List PyVal) :
    cmpSeq .ge n m xs ys = cmpSeq .le m n ys xs := by
  induction xs generalizing ys with
  | nil => cases ys <;> simp [cmpSeq, CmpOp.onNats]
  | cons a as ih =>
    cases ys with
    | nil => simp [cmpSeq, CmpOp.onNats]
    | cons b bs =>
      simp only [cmpSeq, CmpOp.onVals, pyEq_symm b a, ih bs]

/-- a sequence is a strict prefix of a longer one: it is smaller -/
theorem cmpSeq_lt_prefix (xs ys : List PyVal) (h : allEq xs (ys.take xs.length) = true) (hl : xs.length < ys.length) :
    cmpSeq .lt xs.length ys.length xs ys = some true := by
  have key : ∀ (n m : Nat) (xs ys : List PyVal), allEq xs (ys.take xs.length) = true →
      cmpSeq .lt n m xs ys = some (decide (n < m)) := by
    intro n m xs
    induction xs with
    | nil => intro ys _; cases ys <;> simp [cmpSeq, CmpOp.onNats]
    | cons a as ih =>
      intro ys h
      cases ys with
      | nil => simp [allEq] at h
      | cons b bs =>
        simp only [List.length_cons, List.take_succ_cons, allEq, Bool.and_eq_true] at h
        simp only [cmpSeq, h.1, Bool.not_true, Bool.false_eq_true, if_false]
        exact ih bs h.2
  rw [key _ _ xs ys h]; simp [hl]

/-- the first differing pair decides `<` -/
theorem cmpSeq_lt_first_diff (pre1 pre2 : List PyVal) (a b : PyVal) (t1 t2 : List PyVal) (n m : Nat)
    (hp : allEq pre1 pre2 = true) (hab : pyEq a b = false) :
    cmpSeq .lt n m (pre1 ++ a :: t1) (pre2 ++ b :: t2) = pyLt a b := by
  induction pre1 generalizing pre2 with
  | nil =>
    cases pre2 with
    | nil => simp [cmpSeq, hab, CmpOp.onVals]
    | cons p ps => simp [allEq] at hp
  | cons p ps ih =>
    cases pre2 with
    | nil => simp [allEq] at hp
    | cons q qs =>
      simp only [allEq, Bool.and_eq_true] at hp
      simp only [List.cons_append, cmpSeq, hp.1, Bool.not_true, Bool.false_eq_true, if_false]
      exact ih qs hp.2

/-- on numbers, text and bytes `<=` is `<` or `==` (NaN aside) -/
theorem pyLe_iff (a b : PyVal) (ha : ∀ f, a = .float f → floatIsNaN f = false)
    (hb : ∀ f, b = .float f → floatIsNaN f = false) (x : Bool) (hx : pyLt a b = some x) :
    pyLe a b = some (x || pyEq a b) := by
  cases a <;> cases b <;> simp [pyLt, pyIsNumber] at hx
  case int.int i j =>
    simp only [pyNum] at hx
    simp at hx
    subst hx; simp [pyLe, pyEq, pyNum, pyIsNumber]
  case int.float i f =>
    have hf := hb f rfl
    simp only [pyNum, hf] at hx
    simp at hx
    subst hx; simp [pyLe, pyEq, pyNum, pyIsNumber, hf]
  case float.int f i =>
    have hf := ha f rfl
    simp only [pyNum, hf] at hx
    simp at hx
    subst hx; simp [pyLe, pyEq, pyNum, pyIsNumber, hf]
  case float.float f g =>
    have hf := ha f rfl
    have hg := hb g rfl
    simp only [pyNum, hf, hg] at hx
    simp at hx
    subst hx; simp [pyLe, pyEq, pyNum, pyIsNumber, hf, hg]
  case str.str x y =>
    subst hx; simp [pyLe, pyEq, pyNum, pyIsNumber, seq_lexLt_trichotomy, seq_str_beq]
  case bytes.bytes x y =>
    subst hx; simp [pyLe, pyEq, pyNum, pyIsNumber, seq_lexLt_trichotomy, seq_bytes_beq]

namespace Deque

/-- the values `iter(deque)` yields -/
def vals (d : Deque) (E : Externals) (now : Int) : List PyVal :=
  outVals (Fanout.outList (d.iterVals E now false).2)

/-- `deque == that`: true exactly when the deque's values and `that` are pairwise equal,
provided the row counter agrees with what iteration yields (it does for `Ok` deques: `len_exact`) -/
theorem compare_eq (d : Deque) (E : Externals) (now : Int) (that : List PyVal)
    (hc : d.cache.count.toNat = (vals d E now).length) :
    (d.compare E now .eq that).2 = .bool (allEq (vals d E now) that) := by
  unfold compare
  by_cases hn : d.cache.count.toNat = that.length
  · simp only [hn, bne_self_eq_false, Bool.false_and, Bool.false_eq_true, if_false]
    have h := cmpSeq_eq (vals d E now) that
    rw [← hc, hn] at h
    unfold vals at h ⊢
    rw [h]
  · have hne : (d.cache.count.toNat != that.length) = true := by simpa using hn
    have hf : allEq (vals d E now) that = false := by
      cases hb : allEq (vals d E now) that
      · rfl
      · exact absurd (hc.trans (seq_allEq_length _ _ hb)) hn
    simp [hne, hf]

theorem compare_ne (d : Deque) (E : Externals) (now : Int) (that : List PyVal)
    (hc : d.cache.count.toNat = (vals d E now).length) :
    (d.compare E now .ne that).2 = .bool (!allEq (vals d E now) that) := by
  unfold compare
  by_cases hn : d.cache.count.toNat = that.length
  · simp only [hn, bne_self_eq_false, Bool.false_and, Bool.false_eq_true, if_false]
    have h := cmpSeq_ne (vals d E now) that
    rw [← hc, hn] at h
    unfold vals at h ⊢
    rw [h]
  · have hne : (d.cache.count.toNat != that.length) = true := by simpa using hn
    have hf : allEq (vals d E now) that = false := by
      cases hb : allEq (vals d E now) that
      · rfl
      · exact absurd (hc.trans (seq_allEq_length _ _ hb)) hn
    have h1 : (CmpOp.ne == CmpOp.eq) = false := by decide
    simp [hne, hf, h1]

/-- `count(v)` is the number of yielded values equal to `v` -/
theorem countOf_spec (d : Deque) (E : Externals) (now : Int) (v : PyVal) :
    (d.countOf E now v).2 = .int (((vals d E now).filter (pyEq v)).length) := by
  rfl

theorem countOf_le (d : Deque) (E : Externals) (now : Int) (v : PyVal) :
    ∃ n : Nat, (d.countOf E now v).2 = .int n ∧ n ≤ (vals d E now).length := by
  refine ⟨((vals d E now).filter (pyEq v)).length, countOf_spec d E now v, ?_⟩
  exact List.length_filter_le _ _

/-- `remove(v)` when no item equals `v`: ValueError, nothing changes -/
theorem remove_absent (d : Deque) (E : Externals) (now : Int) (v : PyVal)
    (h : ∀ r ∈ sortedRows d.cache, d.rowHolds E now v r = false) :
    d.remove E now v = (d, .exc "ValueError") := by
  unfold remove
  have : (sortedRows d.cache).find? (d.rowHolds E now v) = none := by
    rw [List.find?_eq_none]
    intro r hr; simp [h r hr]
  rw [this]

/-- `remove(v)` deletes through the key of the FIRST row (in deque order) that holds an equal value -/
theorem remove_first (d : Deque) (E : Externals) (now : Int) (v : PyVal) (pre post : List Row) (r : Row)
    (hs : sortedRows d.cache = pre ++ r :: post)
    (hpre : ∀ x ∈ pre, d.rowHolds E now v x = false) (hr : d.rowHolds E now v r = true) :
    d.remove E now v =
      ({ d with cache := (d.cache.delitem E now (keyOfRow E d.cache r)).1 }, .none) := by
  unfold remove
  have : (sortedRows d.cache).find? (d.rowHolds E now v) = some r := by
    rw [hs, List.find?_append]
    have : pre.find? (d.rowHolds E now v) = none := by
      rw [List.find?_eq_none]
      intro x hx; simp [hpre x hx]
    rw [this]; simp [hr]
  rw [this]

/-- is the result an exception? -/
def _root_.DC.Out.isExc : Out → Bool
  | .exc _ => true
  | _ => false

/-- `extend` is one `append` per value, left to right; `extendleft` likewise with `appendleft`
(so the values end up in reverse order at the front) -/
theorem extend_nil (d : Deque) (E : Externals) (now : Int) (left : Bool) :
    d.extend E now [] left = (d, .none) := by
  rfl

/- STATEMENT BEFORE THE FIX OF `Deque.extend` (`for value in iterable: self._append(value)` stops at
the first `append` that raises) — now false when an `append` raises:

theorem extend_cons : d.extend E now (v :: vs) left = (d.append E now v left).1.extend E now vs left
theorem extend_append : d.extend E now (vs ++ ws) left = (d.extend E now vs left).1.extend E now ws left

restated for the success case (`extend_cons_ok`, `extend_append_ok`), with the failing-case
counterparts `extend_stops_at_error` and `extend_append_error`. -/

/-- the old `extend_cons` is false: when the first `append` raises, `extend` returns the exception,
while continuing with the remaining values (here: none) would return `None` -/
theorem extend_cons_needs_ok :
    let d : Deque := { cache := { cfg := { policy := .none } } }
    (d.extend Cache.exE 0 [.str [0xD800]] false).2.isExc = true ∧
    ((d.append Cache.exE 0 (.str [0xD800]) false).1.extend Cache.exE 0 [] false).2.isExc = false := by
  decide +kernel

theorem extend_cons_ok (d : Deque) (E : Externals) (now : Int) (v : PyVal) (vs : List PyVal) (left : Bool)
    (hok : (d.append E now v left).2.isExc = false) :
    d.extend E now (v :: vs) left = (d.append E now v left).1.extend E now vs left := by
  rw [extend]
  cases h : d.append E now v left with
  | mk d1 o =>
    rw [h] at hok
    cases o <;> first | rfl | cases hok

/-- an `append` that raises ends `extend`: the values before it stay appended, the exception
propagates, the remaining values are not looked at -/
theorem extend_stops_at_error (d : Deque) (E : Externals) (now : Int) (v : PyVal) (vs : List PyVal)
    (left : Bool) (e : String) (herr : (d.append E now v left).2 = .exc e) :
    d.extend E now (v :: vs) left = ((d.append E now v left).1, .exc e) := by
  rw [extend]
  cases h : d.append E now v left with
  | mk d1 o =>
    rw [h] at herr
    simp only at herr
    subst herr
    rfl

/-- what `extend` does with the first value, in both cases -/
theorem extend_cons_cases (d : Deque) (E : Externals) (now : Int) (v : PyVal) (vs : List PyVal) (left : Bool) :
    ((d.append E now v left).2.isExc = false ∧
      d.extend E now (v :: vs) left = (d.append E now v left).1.extend E now vs left) ∨
    (∃ e, (d.append E now v left).2 = .exc e ∧
      d.extend E now (v :: vs) left = ((d.append E now v left).1, .exc e)) := by
  cases ho : (d.append E now v left).2 with
  | exc e => exact .inr ⟨e, rfl, extend_stops_at_error d E now v vs left e ho⟩
  | _ => exact .inl ⟨rfl, extend_cons_ok d E now v vs left (by rw [ho]; rfl)⟩

theorem extend_append_ok (d : Deque) (E : Externals) (now : Int) (vs ws : List PyVal) (left : Bool)
    (hok : (d.extend E now vs left).2.isExc = false) :
    d.extend E now (vs ++ ws) left = (d.extend E now vs left).1.extend E now ws left := by
  induction vs generalizing d with
  | nil => rfl
  | cons v vs ih =>
    rcases extend_cons_cases d E now v vs left with ⟨h1, h2⟩ | ⟨e, h1, h2⟩
    · rw [List.cons_append, extend_cons_ok d E now v _ left h1, h2]
      rw [h2] at hok
      exact ih _ hok
    · rw [h2] at hok; cases hok

theorem extend_append_error (d : Deque) (E : Externals) (now : Int) (vs ws : List PyVal) (left : Bool)
    (herr : (d.extend E now vs left).2.isExc = true) :
    d.extend E now (vs ++ ws) left = d.extend E now vs left := by
  induction vs generalizing d with
  | nil => cases herr
  | cons v vs ih =>
    rcases extend_cons_cases d E now v vs left with ⟨h1, h2⟩ | ⟨e, h1, h2⟩
    · rw [List.cons_append, extend_cons_ok d E now v _ left h1, h2]
      rw [h2] at herr
      exact ih _ herr
    · rw [List.cons_append, extend_stops_at_error d E now v _ left e h1, h2]

/-- `extend` keeps maxlen (whether or not it is cut short by an exception) -/
theorem extend_maxlen (d : Deque) (E : Externals) (now : Int) (vs : List PyVal) (left : Bool) :
    (d.extend E now vs left).1.maxlen = d.maxlen := by
  induction vs generalizing d with
  | nil => rfl
  | cons v vs ih =>
    rcases extend_cons_cases d E now v vs left with ⟨-, h2⟩ | ⟨e, -, h2⟩
    · rw [h2, ih]
      exact append_maxlen d E now v left
    · rw [h2]
      exact append_maxlen d E now v left

end Deque

/-! ### non-vacuity -/

example : cmpSeq .lt 2 2 [.int 1, .str [97]] [.float 0x3FF0000000000000, .str [98]] = some true := by decide +kernel
example : cmpSeq .lt 1 1 [.int 1] [.str [98]] = none := by decide +kernel           -- TypeError
example : cmpSeq .eq 1 1 [.int 1] [.float 0x3FF0000000000000] = some true := by decide +kernel   -- 1 == 1.0
example : pyEq (.float 0x7FF8000000000000) (.float 0x7FF8000000000000) = false := by decide +kernel  -- NaN

/-- `deque.extend([1, '\ud800', 3])` on an empty deque: the first value is appended, the second
cannot be stored (text with a lone surrogate) — UnicodeEncodeError propagates, the third value is
never appended, no transaction is left open -/
theorem Deque.extend_propagates_error :
    let d : Deque := { cache := { cfg := { policy := .none } } }
    (match (d.extend Cache.exE 0 [.int 1, .str [0xD800], .int 3] false).2 with
      | .exc "UnicodeEncodeError" => true | _ => false) = true ∧
    (d.extend Cache.exE 0 [.int 1, .str [0xD800], .int 3] false).1.cache.rows.length = 1 ∧
    (d.extend Cache.exE 0 [.int 1, .str [0xD800], .int 3] false).1.cache.rows =
      (d.extend Cache.exE 0 [.int 1] false).1.cache.rows ∧
    (d.extend Cache.exE 0 [.int 1, .str [0xD800], .int 3] false).1.cache.depth = 0 ∧
    (match (d.extend Cache.exE 0 [.int 1, .int 2, .int 3] false).2 with | .none => true | _ => false) = true ∧
    (d.extend Cache.exE 0 [.int 1, .int 2, .int 3] false).1.cache.rows.length = 3 := by
  decide +kernel

/-- `deque[0] = '\ud800'` on a deque holding one item: `Cache.set` cannot store the value —
UnicodeEncodeError propagates and the item is unchanged; a storable value is assigned and the
result is `None`; an index out of range raises IndexError -/
theorem Deque.setitem_propagates_error :
    let d : Deque := (({ cache := { cfg := { policy := .none } } } : Deque).append Cache.exE 0 (.int 1) false).1
    (match (d.setitem Cache.exE 1 0 (.str [0xD800])).2 with
      | .exc "UnicodeEncodeError" => true | _ => false) = true ∧
    (d.setitem Cache.exE 1 0 (.str [0xD800])).1.cache.rows = d.cache.rows ∧
    (match (d.setitem Cache.exE 1 0 (.int 2)).2 with | .none => true | _ => false) = true ∧
    (d.setitem Cache.exE 1 0 (.int 2)).1.cache.rows.map (·.val) = [.int 2] ∧
    (match (d.setitem Cache.exE 1 5 (.int 2)).2 with | .exc "IndexError" => true | _ => false) = true := by
  decide +kernel

end DC
