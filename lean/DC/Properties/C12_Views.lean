/-
C12 (refinement, continued) — the views of an Index after a history.

`OSpec.items` / `OSpec.values` / `OSpec.eqTo` walk the bindings (`OSpec.walk`); at an
entry whose value cannot be read the look-up of the view raises KeyError, which
is the outcome of the call — as `Index.items` of the model and persistent.py do
on a look-up that misses.  This file shows that this never happens: every entry a call
of the dictionary binds is readable (`step_readable`), so after any history on a
fresh Index the item view is ALL the bindings, in insertion order
(`items_after_history`), the value view all the values, and `==` compares all
pairs.
-/
import DC.Properties.C12_Refine
import DC.Properties.C12_Map

namespace DC.OSpec
open DC.Spec DC.Cache

/-- every value of the dictionary can be read back (under any codec and configuration) -/
def Readable (m : ODict) : Prop :=
  ∀ p ∈ m, ∀ (E : Externals) (cfg : Cfg), p.2.out E cfg false false false ≠ .default

theorem readable_nil : Readable [] := fun _ hp => nomatch hp

/-- every call keeps the dictionary readable: the entries it binds are stored forms of values -/
theorem step_readable (m : ODict) (cfg : Cfg) (op : IOp) (h : Readable m) :
    Readable (step m cfg op).1 := by
  intro q hq E cfg'
  rcases step_mem m cfg op q hq with h1 | h1
  · exact h q h1 E cfg'
  · exact stored_readable h1 E cfg'

theorem run_readable (m : ODict) (cfg : Cfg) (ops : List IOp) (h : Readable m) :
    Readable (run m cfg ops) := by
  induction ops generalizing m with
  | nil => exact h
  | cons op ops ih => exact ih _ (step_readable m cfg op h)

/-- on a readable dictionary the walk of the views meets no unreadable entry, and the pairs are all
the bindings: key decoded, value looked up -/
theorem walk_readable (m : ODict) (E : Externals) (cfg : Cfg) (h : Readable m) :
    missing m E cfg = false ∧
    (pairs m E cfg).map (fun kv => (Out.val kv.1, Out.val kv.2)) =
      m.map (fun p => (keyOut E cfg.disk p.1.1 p.1.2, p.2.out E cfg false false false)) := by
  induction m with
  | nil => exact ⟨rfl, rfl⟩
  | cons p m ih =>
    have hm : Readable m := fun q hq => h q (List.mem_cons_of_mem _ hq)
    have hp := h p (List.mem_cons_self ..) E cfg
    obtain ⟨i1, i2⟩ := ih hm
    unfold missing at i1 ⊢
    unfold pairs at i2 ⊢
    rw [walk]
    rcases irf_valueOf_cases p.2 E cfg with ⟨e1, -⟩ | ⟨v, e1, e2⟩
    · exact absurd e1 hp
    · rw [e2]
      simp only [List.map_cons]
      rw [i2, e1]
      exact ⟨i1, rfl⟩

theorem missing_readable (m : ODict) (E : Externals) (cfg : Cfg) (h : Readable m) :
    missing m E cfg = false := (walk_readable m E cfg h).1

theorem pairs_readable (m : ODict) (E : Externals) (cfg : Cfg) (h : Readable m) :
    (pairs m E cfg).map (fun kv => (Out.val kv.1, Out.val kv.2)) =
      m.map (fun p => (keyOut E cfg.disk p.1.1 p.1.2, p.2.out E cfg false false false)) :=
  (walk_readable m E cfg h).2

theorem pairs_length (m : ODict) (E : Externals) (cfg : Cfg) (h : Readable m) :
    (pairs m E cfg).length = m.length := by
  have := congrArg List.length (pairs_readable m E cfg h)
  simpa using this

/-- `list(d.items())` of a readable dictionary: every binding, in insertion order -/
theorem items_readable (m : ODict) (E : Externals) (cfg : Cfg) (h : Readable m) :
    (items m E cfg).2 =
      .list (m.map (fun p => .tup [keyOut E cfg.disk p.1.1 p.1.2, p.2.out E cfg false false false])) := by
  unfold items
  rw [missing_readable m E cfg h]
  show Out.list _ = Out.list _
  congr 1
  have := congrArg (List.map (fun ab : Out × Out => Out.tup [ab.1, ab.2])) (pairs_readable m E cfg h)
  rw [List.map_map, List.map_map] at this
  exact this

/-- `list(d.values())` of a readable dictionary: every value, in insertion order -/
theorem values_readable (m : ODict) (E : Externals) (cfg : Cfg) (h : Readable m) :
    (values m E cfg).2 = .list (m.map (fun p => p.2.out E cfg false false false)) := by
  unfold values
  rw [missing_readable m E cfg h]
  show Out.list _ = Out.list _
  congr 1
  have := congrArg (List.map (fun ab : Out × Out => ab.2)) (pairs_readable m E cfg h)
  rw [List.map_map, List.map_map] at this
  exact this

/-- on a readable dictionary `==` is the comparison `eqB` -/
theorem eqTo_readable (m : ODict) (E : Externals) (cfg : Cfg) (ordered : Bool) (other : List (PyVal × PyVal))
    (h : Readable m) : (eqTo m E cfg ordered other).2 = .bool (eqB m E cfg ordered other) := by
  show eqOut m E cfg ordered other = _
  unfold eqOut
  rw [missing_readable m E cfg h]
  rfl

/-- `!=` is the negation of `==`; a KeyError of `==` (unreadable entry) propagates -/
theorem neTo_not_or_miss (m : ODict) (E : Externals) (cfg : Cfg) (ordered : Bool) (other : List (PyVal × PyVal)) :
    (∃ b, (eqTo m E cfg ordered other).2 = .bool b ∧ (neTo m E cfg ordered other).2 = .bool (!b)) ∨
    ((eqTo m E cfg ordered other).2 = .exc "KeyError" ∧ (neTo m E cfg ordered other).2 = .exc "KeyError") := by
  show (∃ b, eqOut m E cfg ordered other = .bool b ∧
      (match eqOut m E cfg ordered other with | .bool b => Out.bool (!b) | o => o) = .bool (!b)) ∨
    (eqOut m E cfg ordered other = .exc "KeyError" ∧
      (match eqOut m E cfg ordered other with | .bool b => Out.bool (!b) | o => o) = .exc "KeyError")
  unfold eqOut
  split
  · exact .inr ⟨rfl, rfl⟩
  · exact .inl ⟨_, rfl, rfl⟩

/-- `!=` is the negation of `==` (readable dictionary) -/
theorem neTo_not (m : ODict) (E : Externals) (cfg : Cfg) (ordered : Bool) (other : List (PyVal × PyVal))
    (h : Readable m) :
    ∃ b, (eqTo m E cfg ordered other).2 = .bool b ∧ (neTo m E cfg ordered other).2 = .bool (!b) := by
  refine ⟨eqB m E cfg ordered other, eqTo_readable m E cfg ordered other h, ?_⟩
  show (match eqOut m E cfg ordered other with | .bool b => Out.bool (!b) | o => o) = _
  rw [show eqOut m E cfg ordered other = .bool (eqB m E cfg ordered other) from
    eqTo_readable m E cfg ordered other h]

/-- mappings of different lengths are never equal -/
theorem eqTo_len (m : ODict) (E : Externals) (cfg : Cfg) (ordered : Bool) (other : List (PyVal × PyVal))
    (h : m.length ≠ other.length) : (eqTo m E cfg ordered other).2 = .bool false := by
  have hb : eqB m E cfg ordered other = false := by
    unfold eqB
    have : (m.length == other.length) = false := by simpa using h
    rw [this]; rfl
  show eqOut m E cfg ordered other = _
  unfold eqOut
  rw [hb]
  simp

theorem zip_all_allEqPairs : ∀ (xs ys : List (PyVal × PyVal)),
    (xs.length == ys.length && (xs.zip ys).all (fun p => pyEq p.1.1 p.2.1 && pyEq p.1.2 p.2.2)) =
      Index.allEqPairs xs ys
  | [], [] => rfl
  | [], _ :: _ => rfl
  | _ :: _, [] => rfl
  | a :: as, b :: bs => by
    have ih := zip_all_allEqPairs as bs
    simp only [List.length_cons, List.zip_cons_cons, List.all_cons, Index.allEqPairs, ← ih]
    cases pyEq a.1 b.1 <;> cases pyEq a.2 b.2 <;> simp

/-- against an ordered mapping, on a readable dictionary: equal exactly when the two pair lists are
equal pair by pair, in order (`Index.allEqPairs`: the same length, keys and values `==`) -/
theorem eqTo_ordered_readable (m : ODict) (E : Externals) (cfg : Cfg) (other : List (PyVal × PyVal))
    (h : Readable m) :
    (eqTo m E cfg true other).2 = .bool (Index.allEqPairs (pairs m E cfg) other) := by
  rw [eqTo_readable m E cfg true other h]
  congr 1
  unfold eqB
  rw [← zip_all_allEqPairs, pairs_length m E cfg h]
  rfl

/-- against an ordered mapping: order matters — two different keys swapped compare unequal -/
theorem eqTo_ordered_swap (m : ODict) (E : Externals) (cfg : Cfg) (a b : PyVal × PyVal)
    (rest : List (PyVal × PyVal)) (hp : pairs m E cfg = a :: b :: rest) (hab : pyEq a.1 b.1 = false) :
    (eqTo m E cfg true (b :: a :: rest)).2 = .bool false := by
  have hb : eqB m E cfg true (b :: a :: rest) = false := by
    unfold eqB
    rw [hp]
    simp [hab]
  show eqOut m E cfg true (b :: a :: rest) = _
  unfold eqOut
  rw [hb]
  simp

end DC.OSpec

namespace DC.Index
open DC.Spec DC.Cache

theorem run_keysRT (D : PyVal → Bytes) (m : ODict) (cfg : Cfg) (ops : List IOp) (hd : cfg.disk = .pickle)
    (hD : HistCodec D ops) (hk : KeysRT D m) : KeysRT D (OSpec.run m cfg ops) := by
  induction ops generalizing m with
  | nil => exact hk
  | cons op ops ih =>
    exact ih _ (fun o ho => hD o (List.mem_cons_of_mem _ ho))
      (step_keysRT D m cfg op hd (hD op (List.mem_cons_self ..)) hk)

/-- **what a user sees** (item view): after any history of mapping calls on a fresh Index,
`list(index.items())` is ALL the bindings of the ordered dictionary that history builds, in
insertion order, each key decoded and each value as a look-up returns it; `list(index.values())`
the values.  (`hE`: the call of the view uses the key codec of the history.) -/
theorem items_after_history (cf : Cfg) (st : Bool) (ops : List IOp) (E : Externals) (now : Int)
    (hp : cf.policy = .none) (hd : cf.disk = .pickle) (hpg : 0 < cf.page)
    (D : PyVal → Bytes) (hD : HistCodec D ops) (hE : CodecOk D E) :
    ((Index.run { cache := { cfg := cf, statistics := st } } ops).items E now).2 =
      .list ((OSpec.run [] cf ops).map (fun p =>
        .tup [Cache.keyOut E cf.disk p.1.1 p.1.2, p.2.out E cf false false false])) ∧
    ((Index.run { cache := { cfg := cf, statistics := st } } ops).values E now).2 =
      .list ((OSpec.run [] cf ops).map (fun p => p.2.out E cf false false false)) := by
  obtain ⟨hok, hr⟩ := irefines_init cf st hp hd
  obtain ⟨-, h2, h3, h4⟩ := irun_refines_strong _ [] ops hok hr hpg D (fun _ => ⟨hD, keysRT_nil D⟩)
  have hk := run_keysRT D [] cf ops hd hD (keysRT_nil D)
  have hcod := stepCodec_of D _ _ (.items E now) h3 h2 (fun E' hE' => by cases hE'; exact hE) hk
  have hrd := OSpec.run_readable [] cf ops OSpec.readable_nil
  have hcfg : (Index.run { cache := { cfg := cf, statistics := st } } ops).cache.cfg = cf := h4
  refine ⟨?_, ?_⟩
  · rw [(items_irefines _ _ E now h3 h2 hcod).1, hcfg]
    exact OSpec.items_readable _ E cf hrd
  · rw [(values_irefines _ _ E now h3 h2 hcod).1, hcfg]
    exact OSpec.values_readable _ E cf hrd

/-! ### the codec hypothesis of the history theorem, sharper

`HistCodec` asks every call of the history to agree on the key codec.  Only the calls that encode a
key INTO the table (`setitem`, `setdefault`, `update`) and the calls that find a row again through
its decoded key (`popitem`, the views, the comparisons) matter; the codec observations of the other
calls (look-ups, deletions by key, `peekitem`, iteration) are unconstrained. -/

/-- the calls that encode a key into the table -/
def WritesKey : IOp → Bool
  | .setitem .. => true
  | .setdefault .. => true
  | .update .. => true
  | _ => false

/-- the calls that write keys and the calls that re-encode keys agree on the key codec `D` -/
def HistCodecW (D : PyVal → Bytes) (ops : List IOp) : Prop :=
  ∀ op ∈ ops, (WritesKey op || NeedsCodec op) = true → ∀ E, opE op = some E → CodecOk D E

theorem histCodecW_of (D : PyVal → Bytes) (ops : List IOp) (h : HistCodec D ops) : HistCodecW D ops :=
  fun op hop _ => h op hop

/-- a call that writes no key binds no new key -/
theorem step_keys_reader (m : ODict) (cfg : Cfg) (op : IOp) (hw : WritesKey op = false) :
    ∀ K ∈ (OSpec.step m cfg op).1.keys, K ∈ m.keys := by
  intro K hK
  cases op with
  | getitem E now k => exact hK
  | setitem E now k v => cases hw
  | delitem E now k =>
    simp only [OSpec.step, OSpec.delitem] at hK
    split at hK
    · exact del_keys m _ K hK
    · exact hK
  | setdefault E now k v => cases hw
  | pop E now k d => exact del_keys m _ K hK
  | popitem E now last =>
    simp only [OSpec.step, OSpec.popitem] at hK
    split at hK
    · exact hK
    · split at hK
      · exact hK
      · exact del_keys m _ K hK
  | peekitem E now last =>
    simp only [OSpec.step, OSpec.peekitem] at hK
    split at hK
    · exact hK
    · split at hK <;> exact hK
  | len => exact hK
  | iter E asc => exact hK
  | clear => exact nomatch hK
  | update E now kvs => cases hw
  | items E now => exact hK
  | values E now => exact hK
  | eqTo E now ordered other => exact hK
  | neTo E now ordered other => exact hK
  | rehandle => exact hK

theorem step_keysRT_w (D : PyVal → Bytes) (m : ODict) (cfg : Cfg) (op : IOp) (hd : cfg.disk = .pickle)
    (hE : WritesKey op = true → ∀ E, opE op = some E → CodecOk D E) (hk : KeysRT D m) :
    KeysRT D (OSpec.step m cfg op).1 := by
  cases hw : WritesKey op with
  | true => exact step_keysRT D m cfg op hd (hE hw) hk
  | false =>
    intro E' hE' K hK
    exact hk E' hE' K (step_keys_reader m cfg op hw K hK)

/-- the hypothesis about the key codec, needed only when the history contains a call that
re-encodes keys -/
def CodecHypW (D : PyVal → Bytes) (m : ODict) (ops : List IOp) : Prop :=
  (∃ op ∈ ops, NeedsCodec op = true) → HistCodecW D ops ∧ KeysRT D m

/-- **the history theorem, sharper**: as `irun_refines`, with the agreement on the key codec asked
only of the calls that write keys and of the calls that find a row again through its decoded key
(`irun_refines` follows by `histCodecW_of`) -/
theorem irun_refines_w (x : Index) (m : ODict) (ops : List IOp) (hok : IOk x) (hr : IRefines x m)
    (hpg : 0 < x.cache.cfg.page) (D : PyVal → Bytes) (hD : CodecHypW D m ops) :
    Index.outs x ops = OSpec.outs m x.cache.cfg ops ∧
    IRefines (Index.run x ops) (OSpec.run m x.cache.cfg ops) ∧
    IOk (Index.run x ops) ∧ (Index.run x ops).cache.cfg = x.cache.cfg := by
  induction ops generalizing x m with
  | nil => exact ⟨rfl, hr, hok, rfl⟩
  | cons op ops ih =>
    have hcod : StepCodec x op := by
      cases hn : NeedsCodec op with
      | false => cases op <;> first | trivial | cases hn
      | true =>
        obtain ⟨h1, h2⟩ := hD ⟨op, List.mem_cons_self .., hn⟩
        exact stepCodec_of D x m op hok hr (h1 op (List.mem_cons_self ..) (by rw [hn, Bool.or_true])) h2
    have hs := istep x m op hok hr hpg hcod
    have hD' : CodecHypW D (OSpec.step m x.cache.cfg op).1 ops := by
      rintro ⟨o, ho, hn⟩
      obtain ⟨h1, h2⟩ := hD ⟨o, List.mem_cons_of_mem _ ho, hn⟩
      exact ⟨fun o' ho' => h1 o' (List.mem_cons_of_mem _ ho'),
        step_keysRT_w D m x.cache.cfg op hok.ok.disk
          (fun hw => h1 op (List.mem_cons_self ..) (by rw [hw, Bool.true_or])) h2⟩
    obtain ⟨h1, h2, h3, h4⟩ := ih (x.step op).1 (OSpec.step m x.cache.cfg op).1 hs.ok hs.rel
      (by rw [hs.cfg]; exact hpg) hD'
    rw [hs.cfg] at h1 h2 h4
    refine ⟨?_, h2, h3, h4⟩
    show _ :: _ = _ :: _
    rw [hs.out, h1]

/-- a look-up under a foreign codec in the middle of a history does no harm: `irun_refines_w`
applies where `HistCodec` fails -/
example : HistCodecW exEI.dumpsK
      [.setitem exEI 0 (.str [97]) (.int 1), .getitem exEI2 0 (.str [97]), .popitem exEI 0 true] ∧
    ¬ HistCodec exEI.dumpsK
      [.setitem exEI 0 (.str [97]) (.int 1), .getitem exEI2 0 (.str [97]), .popitem exEI 0 true] := by
  refine ⟨?_, ?_⟩
  · intro op hop hw E hE
    simp only [List.mem_cons, List.not_mem_nil, or_false] at hop
    rcases hop with rfl | rfl | rfl
    · cases hE; exact exEI_codec
    · cases hw
    · cases hE; exact exEI_codec
  · intro h
    have := (h (.getitem exEI2 0 (.str [97])) (by simp) exEI2 rfl).1
    have h2 := congrFun this .none
    revert h2
    decide

/-! ### non-vacuity: a history with views, comparisons and a re-opened handle -/

def exIOps2 : List IOp :=
  [ .update exEI 0 [(.str [97], .int 1), (.str [98], .int 2), (.str [99], .int 3)],
    .items exEI 0,
    .rehandle,
    .delitem exEI 0 (.str [97]),
    .setitem exEI 0 (.str [97]) (.int 5),
    .items exEI 0,
    .values exEI 0,
    .eqTo exEI 0 true [(.str [98], .int 2), (.str [99], .int 3), (.str [97], .int 5)],
    .eqTo exEI 0 true [(.str [97], .int 5), (.str [98], .int 2), (.str [99], .int 3)],
    .eqTo exEI 0 false [(.str [97], .int 5), (.str [98], .int 2), (.str [99], .int 3)],
    .neTo exEI 0 false [(.str [97], .int 5), (.str [98], .int 2), (.str [99], .int 4)],
    .eqTo exEI 0 false [(.str [97], .int 5), (.str [98], .int 2)],
    .rehandle,
    .popitem exEI 0 true,
    .values exEI 0 ]

theorem exIOps2_codec : HistCodec exEI.dumpsK exIOps2 := by
  intro op hop E hE
  simp only [exIOps2, List.mem_cons, List.not_mem_nil, or_false] at hop
  rcases hop with rfl | rfl | rfl | rfl | rfl | rfl | rfl | rfl | rfl | rfl | rfl | rfl | rfl | rfl | rfl <;>
    first | (cases hE; exact exEI_codec) | cases hE

example : Index.outs exIndex exIOps2 = OSpec.outs [] exIndex.cache.cfg exIOps2 ∧
    IRefines (Index.run exIndex exIOps2) (OSpec.run [] exIndex.cache.cfg exIOps2) :=
  irun_refines exIndex [] exIOps2 (irefines_init _ _ rfl rfl).1 (irefines_init _ _ rfl rfl).2 (by decide)
    exEI.dumpsK exIOps2_codec (keysRT_nil _)

/-- the truth value of a result -/
def outBool? : Out → Option Bool
  | .bool b => some b
  | _ => none

/-- what the dictionary (hence the Index) returns along that history: `a` is deleted and assigned
again (moves to the end, value 5); the ordered comparison succeeds only in that order, the
unordered one in any order; a changed value or a missing pair compare unequal; the re-opened
handle sees the same contents -/
example : (OSpec.outs [] exIndex.cache.cfg exIOps2).take 7 =
    [.none,
     .list [.tup [.val (.str [97]), .val (.int 1)], .tup [.val (.str [98]), .val (.int 2)],
       .tup [.val (.str [99]), .val (.int 3)]],
     .none, .none, .none,
     .list [.tup [.val (.str [98]), .val (.int 2)], .tup [.val (.str [99]), .val (.int 3)],
       .tup [.val (.str [97]), .val (.int 5)]],
     .list [.val (.int 2), .val (.int 3), .val (.int 5)]] := by
  rfl

example : (((OSpec.outs [] exIndex.cache.cfg exIOps2).drop 7).take 5).map outBool? =
    [some true, some false, some true, some true, some false] := by
  decide +kernel

example : (OSpec.outs [] exIndex.cache.cfg exIOps2).drop 12 =
    [.none, .tup [.val (.str [97]), .val (.int 5)], .list [.val (.int 2), .val (.int 3)]] := by
  rfl

/-- values (and keys) are compared with Python `==`: `5.0 == 5`, and `2**64 == float(2**64)` although
the Index stores the two under different keys -/
example : pyEq (.float 0x4014000000000000) (.int 5) = true ∧
    pyEq (.int 18446744073709551616) (.float 0x43F0000000000000) = true ∧
    sameKey (keyOf exEI exIndex.cache.cfg (.int 18446744073709551616))
      (keyOf exEI exIndex.cache.cfg (.float 0x43F0000000000000)) = false := by
  decide +kernel

/-- why `OSpec.eqB` looks the pairs of the dictionary up in `other` (as `Index.__eq__` and CPython's
`dict.__eq__` do) and not the pairs of `other` in the dictionary: an Index can hold two keys that are
equal in Python but stored under different database keys (`2**64`, pickled; `float(2**64)`, a REAL
cell).  It then compares equal to `{2**64: 1, 'x': 5}` — same length, and both of its pairs find the
key `2**64` there — although the pair `('x', 5)` of the other mapping is nowhere in it.  Model and
dictionary agree (and so does the real Index, see REPORT.md). -/
theorem eqTo_unordered_one_sided :
    let ops : List IOp := [.setitem exEI 0 (.int 18446744073709551616) (.int 1),
      .setitem exEI 0 (.float 0x43F0000000000000) (.int 1)]
    let other : List (PyVal × PyVal) := [(.int 18446744073709551616, .int 1), (.str [120], .int 5)]
    (OSpec.run [] exIndex.cache.cfg ops).length = 2 ∧
    outBool? (OSpec.eqTo (OSpec.run [] exIndex.cache.cfg ops) exEI exIndex.cache.cfg false other).2 = some true ∧
    outBool? ((Index.run exIndex ops).eqTo exEI 0 false other).2 = some true ∧
    (OSpec.run [] exIndex.cache.cfg ops).has (keyOf exEI exIndex.cache.cfg (.str [120])) = false := by
  decide +kernel

end DC.Index
