/-
C13 (refinement under an eviction policy) — a sharded cache is observably ONE cache that may
lose items: for EVERY eviction policy FanoutCache refines the *lossy* reference dictionary of
C03_Lossy (the dictionary of DC/Model/Spec.lean from which, after each call, the keys of the rows
that call evicted are dropped), for every history of key-addressed calls and bulk removals,
whatever the number of shards.  This is the case that matters to users: FanoutCache (and
DjangoCache) run with the DEFAULT policy least-recently-stored and the size limit DIVIDED among
the shards (fanout.py: `size_limit / shards`; `C13.limit_divided`), which `frun_refines`
(C13_Refine, policy `none`) excludes.

Built from `Cache.step_refines_lossy` (C03_Lossy) per shard — nothing about `_cull` is re-proved.

What is true, and what is NOT:
 * **Eviction is per shard, not global.**  `FEvicted f op LL` lists the evicted rows SHARD BY
   SHARD, and each list is a `Cache.Evicted` fact about that shard alone: a key-addressed call
   evicts only on the shard of its key (`fevicted_untouched`); that shard evicts only when ITS
   volume reached ITS limit — the total limit divided by the number of shards
   (`fevicted_below_limit`) —, at most `cull_limit` rows per write (`fevicted_write_bound`), and
   in the policy's order AMONG ITS OWN ROWS (`fevicted_order`).  `cull()` runs on every shard, so
   its drops can come from several shards (no bound).
 * Consequently a sharded cache can evict an item that ONE cache with the total limit would have
   kept, and can evict a newer item while an older one survives in another shard:
   `fanout_evicts_what_one_cache_keeps`, `fanout_eviction_not_global_order`.
 * -- added: `hpl : FPlacedOn V f` — every stored row sits in the shard its key is routed to
   (true of `Fanout.init`: `fplaced_init`; kept by every call: part of `fstep_refines_lossy`).
   Without eviction a row in a foreign shard is unobservable (C13_Refine says so); with
   eviction it is not: `fstep_refines_lossy_needs_placed`.
 * The routing hypothesis `RouteOK` (finding D11: `1` and `1.0`) is as in C13_Refine.
 * As in C03_Lossy / C13_Refine the integer results of clear / evict / expire / cull are masked.
-/
import DC.Proofs.FLossyKeyed

namespace DC.Fanout
open DC.Cache DC.Spec

/-! ### one call -/

theorem flz_flatten_single {α} (L : List α) : ∀ (n i : Nat), i < n →
    ((List.replicate n ([] : List α)).set i L).flatten = L
  | 0, _, h => absurd h (Nat.not_lt_zero _)
  | n + 1, 0, _ => by simp [List.replicate_succ]
  | n + 1, i + 1, h => by
    rw [List.replicate_succ, List.set_cons_succ, List.flatten_cons, List.nil_append]
    exact flz_flatten_single L n i (by omega)

theorem flz_getD_single (L : List Row) (n i j : Nat) (hi : i < n) :
    ((List.replicate n ([] : List Row)).set i L).getD j [] = if j = i then L else [] := by
  rw [List.getD_eq_getElem?_getD, List.getElem?_set]
  by_cases hji : j = i
  · subst hji; simp [hi]
  · rw [if_neg (Ne.symm hji), if_neg hji]
    by_cases hj : j < n
    · simp [hj]
    · rw [List.getElem?_eq_none (by simp; omega)]; rfl

theorem flz_bulk_opKey {op : Cache.Op} (h : frf_isBulk op = true) : frf_opKey op = none := by
  cases op <;> simp only [frf_isBulk, Bool.false_eq_true] at h <;> rfl

theorem flz_keyed_not_bulk {op : Cache.Op} {E : Externals} {k : PyVal}
    (h : frf_opKey op = some (E, k)) : frf_isBulk op = false := by
  cases hb : frf_isBulk op with
  | false => rfl
  | true => rw [flz_bulk_opKey hb] at h; cases h

/-- the Cache call of a history step, every policy, as the per-call hypothesis of the generic theorems -/
theorem flz_cache_step (f : Fanout) (clock : Int) (op : Cache.Op) (hg : FGoodAny f)
    (hk : Keyed op = true) (hm : ∀ n, opClock op = some n → clock ≤ n)
    (c : Cache) (m' : Spec.Dict) (hc : Good c) (hcfg : c.cfg = fcfg f) (hr : Refines c m' clock) :
    (if Determined op then (c.step op).2 else .none) = (Spec.step m' (fcfg f) op).2 ∧
    Good (c.step op).1 ∧
    ∃ L, Lossy (c.step op).1 (Spec.step m' (fcfg f) op).1 ((opClock op).getD clock) L ∧
      Evicted c op L := by
  have := Cache.step_refines_lossy c m' clock op hc (by rw [hcfg]; exact hg.page) hr hk hm
  rw [hcfg] at this
  exact ⟨this.1, Cache.step_good c op hk hc, this.2⟩

theorem flz_cache_step_good (f : Fanout) (op : Cache.Op) (hk : Keyed op = true)
    (c : Cache) (hc : Good c) (hcfg : c.cfg = fcfg f) :
    Good (c.step op).1 ∧ (c.step op).1.cfg = fcfg f :=
  ⟨Cache.step_good c op hk hc, (rf_step_cfg_gen c op hk).trans hcfg⟩

/-- **one call, every policy**: its result is the dictionary's result; there is a family `LL` of
evicted rows, one list per shard (`FEvicted`: only where and what C09 allows, shard by shard),
such that the state after the call represents the dictionary after the call minus the keys of
those rows, each of which held an unexpired entry; invariant, placement, configuration and number
of shards are kept. -/
theorem fstep_refines_lossy (V : Spec.Key → Prop) (f : Fanout) (m : Spec.Dict) (clock : Int)
    (op : Cache.Op)
    (hg : FGoodAny f) (hpl : FPlacedOn V f) (hr : FRefinesOn V f m clock) (hk : Keyed op = true)
    (hm : ∀ n, opClock op = some n → clock ≤ n)
    (hV : ∀ E k, frf_opKey op = some (E, k) → V (keyOf E (fcfg f) k))
    (hroute : ∀ E k, frf_opKey op = some (E, k) → ∀ b, V b →
      sameKey (keyOf E (fcfg f) k) b = true → routeK f b = routeK f (keyOf E (fcfg f) k)) :
    (if Determined op then (f.step op).2 else .none) = (Spec.step m (fcfg f) op).2 ∧
    (∃ LL, FLossyOn V (f.step op).1 (Spec.step m (fcfg f) op).1 ((opClock op).getD clock) LL ∧
      FEvicted f op LL) ∧
    FGoodAny (f.step op).1 ∧ FPlacedOn V (f.step op).1 ∧ fcfg (f.step op).1 = fcfg f ∧
      (f.step op).1.shards.length = f.shards.length := by
  rcases frf_keyed_cases op hk with ⟨E, k, hkey⟩ | hb
  · obtain ⟨hst, hdet⟩ := frf_step_keyed f op E k hkey
    obtain ⟨h1, s, L, hs, hsh, hE, hR, hW, hP⟩ :=
      keyed_frefines_lossy V f m clock ((opClock op).getD clock) E k (fun s => s.step op)
        (fun m => Spec.step m (fcfg f) op) (fun c L => Evicted c op L) hg hpl hr
        (frf_clock_le clock op hm) (hV E k hkey) (hroute E k hkey)
        (fun c m' hc hcfg hr' => by
          have := flz_cache_step f clock op hg hk hm c m' hc hcfg hr'
          rw [hdet, if_pos rfl] at this
          exact this)
        (frf_step_local (fcfg f) op E k hkey)
    have h2 := keyed_fgoodAny f E k (fun s => s.step op) hg (flz_cache_step_good f op hk)
    have hlt : f.route E k < f.shards.length := route_lt f E k hg.nonempty
    rw [hst, hdet, if_pos rfl]
    refine ⟨h1, ⟨(List.replicate f.shards.length []).set (f.route E k) L, ⟨?_, ?_⟩, ?_, ?_⟩, h2.1, hP, h2.2⟩
    · unfold fdrops
      rw [flz_flatten_single L _ _ hlt]
      exact hR
    · intro L' hL' r hrL hVr
      rcases List.mem_or_eq_of_mem_set hL' with h | h
      · rw [(List.mem_replicate.1 h).2] at hrL; cases hrL
      · subst h; exact hW r hrL hVr
    · simp
    · intro i s' hs'
      rw [flz_getD_single L _ _ _ hlt]
      simp only [touches, hkey]
      refine ⟨fun hi => ?_, fun hi => if_neg hi⟩
      subst hi
      rw [hs] at hs'
      rw [← Option.some.inj hs', if_pos rfl]
      refine ⟨f.env, fun _ => rfl, ?_, hE⟩
      rw [hst]; exact hsh
  · obtain ⟨hst, hdet, hout⟩ := frf_step_bulk f op hb
    obtain ⟨LL, hlen, hE, hR, hW, hP⟩ :=
      each_frefines_lossy V f m clock ((opClock op).getD clock) (fun s => s.step op)
        (fun m => Spec.step m (fcfg f) op) (fun c L => Evicted c op L) hg hpl hr
        (frf_clock_le clock op hm)
        (fun c m' hc hcfg hr' => (flz_cache_step f clock op hg hk hm c m' hc hcfg hr').2)
        (flz_step_pointwise (fcfg f) op _ hb)
    have h2 := each_fgoodAny f (fun s => s.step op) hg (flz_cache_step_good f op hk)
    rw [hst, hdet, hout]
    refine ⟨by simp, ⟨LL, ⟨hR, hW⟩, hlen, ?_⟩, h2.1, hP, h2.2⟩
    intro i s' hs'
    simp only [touches, flz_bulk_opKey hb, not_true_eq_false, false_imp_iff, and_true, true_imp_iff]
    obtain ⟨env, hsh, hEv⟩ := hE i s' hs'
    refine ⟨env, fun h => (by rw [hb] at h; cases h), ?_, hEv⟩
    rw [hst]; exact hsh

/-! ### what may be dropped, shard by shard (C09 through the shards) -/

theorem flz_getD_mem {LL : List (List Row)} {L : List Row} (h : L ∈ LL) : ∃ i, i < LL.length ∧ LL.getD i [] = L := by
  obtain ⟨i, hi, rfl⟩ := List.getElem_of_mem h
  exact ⟨i, hi, flz_getD_lt _ hi⟩

/-- the facts about one shard -/
theorem fevicted_shard {f : Fanout} {op : Cache.Op} {LL : List (List Row)} (h : FEvicted f op LL)
    {i : Nat} (hne : LL.getD i [] ≠ []) :
    ∃ s env, f.shards[i]? = some s ∧ touches f op i ∧ (frf_isBulk op = false → env = f.env) ∧
      (f.step op).1.shards[i]? = some ((prep s env).step op).1 ∧
      Evicted (prep s env) op (LL.getD i []) := by
  have hi : i < f.shards.length := by
    rw [← h.1]
    apply Classical.byContradiction
    intro hge
    exact hne (flz_getD_ge _ (by omega))
  obtain ⟨h1, h2⟩ := h.2 i _ (List.getElem?_eq_getElem hi)
  by_cases ht : touches f op i
  · obtain ⟨env, e1, e2, e3⟩ := h1 ht
    exact ⟨_, env, List.getElem?_eq_getElem hi, ht, e1, e2, e3⟩
  · exact absurd (h2 ht) hne

/-- **a key-addressed call evicts only on the shard of its key** -/
theorem fevicted_untouched {f : Fanout} {op : Cache.Op} {LL : List (List Row)} (h : FEvicted f op LL)
    {E : Externals} {k : PyVal} (hkey : frf_opKey op = some (E, k)) (i : Nat) (hi : i ≠ f.route E k) :
    LL.getD i [] = [] := by
  apply Classical.byContradiction
  intro hne
  obtain ⟨s, env, -, ht, -⟩ := fevicted_shard h hne
  simp only [touches, hkey] at ht
  exact hi ht

/-- (a) only `set`, `add`, `incr` and `cull` evict -/
theorem fevicted_other {f : Fanout} {op : Cache.Op} {LL : List (List Row)} (h : FEvicted f op LL)
    (hop : evicts op = false) : ∀ L ∈ LL, L = [] := by
  intro L hL
  obtain ⟨i, -, rfl⟩ := flz_getD_mem hL
  apply Classical.byContradiction
  intro hne
  obtain ⟨s, env, -, -, -, -, hE⟩ := fevicted_shard h hne
  exact hne (evicted_other hE hop)

/-- (a) policy `none` never evicts: `frun_refines` (C13_Refine) is the special case -/
theorem fevicted_policy_none {f : Fanout} {op : Cache.Op} {LL : List (List Row)} (hg : FGoodAny f)
    (h : FEvicted f op LL) (hp : (fcfg f).policy = .none) : ∀ L ∈ LL, L = [] := by
  intro L hL
  obtain ⟨i, -, rfl⟩ := flz_getD_mem hL
  apply Classical.byContradiction
  intro hne
  obtain ⟨s, env, hs, -, -, -, hE⟩ := fevicted_shard h hne
  refine hne (evicted_policy_none hE ?_)
  show s.cfg.policy = .none
  rw [hg.cfg s (frf_mem_of_getElem? hs)]; exact hp

theorem flz_flatten_one : ∀ (LL : List (List Row)) (i : Nat), (∀ j, j ≠ i → LL.getD j [] = []) →
    LL.flatten = LL.getD i []
  | [], _, _ => rfl
  | L :: LL, 0, h => by
    have ht : ∀ L' ∈ LL, L' = [] := by
      intro L' hL'
      obtain ⟨j, hj, rfl⟩ := flz_getD_mem hL'
      have := h (j + 1) (by omega)
      simpa using this
    rw [List.flatten_cons, List.flatten_eq_nil_iff.2 ht]
    simp
  | L :: LL, i + 1, h => by
    have h0 : L = [] := by simpa using h 0 (by omega)
    have := flz_flatten_one LL i (fun j hj => by simpa using h (j + 1) (by omega))
    rw [List.flatten_cons, h0, List.nil_append, this]
    simp

/-- the rows a key-addressed call evicted are those of the shard of its key -/
theorem fdrops_keyed {f : Fanout} {op : Cache.Op} {LL : List (List Row)} (h : FEvicted f op LL)
    {E : Externals} {k : PyVal} (hkey : frf_opKey op = some (E, k)) :
    fdrops LL = (LL.getD (f.route E k) []).map rowKey := by
  unfold fdrops
  rw [flz_flatten_one LL (f.route E k) (fun j hj => fevicted_untouched h hkey j hj)]

theorem flz_writeKey_opKey {cfg : Cfg} {op : Cache.Op} {K : Spec.Key} (h : writeKey cfg op = some K) :
    ∃ E k, frf_opKey op = some (E, k) ∧ K = keyOf E cfg k := by
  cases op <;> simp only [writeKey, Option.some.injEq, reduceCtorEq] at h <;> exact ⟨_, _, rfl, h.symm⟩

/-- (b) **one write evicts at most `cull_limit` rows in all** (it evicts on one shard only);
`cull()` is not bounded: it runs the eviction loop on every shard -/
theorem fevicted_write_bound {f : Fanout} {op : Cache.Op} {LL : List (List Row)} (hg : FGoodAny f)
    (h : FEvicted f op LL) {K : Spec.Key} (hK : writeKey (fcfg f) op = some K) :
    (fdrops LL).length ≤ (fcfg f).cullLimit := by
  obtain ⟨E, k, hkey, -⟩ := flz_writeKey_opKey hK
  rw [fdrops_keyed h hkey, List.length_map]
  by_cases hne : LL.getD (f.route E k) [] = []
  · rw [hne]; exact Nat.zero_le _
  · obtain ⟨s, env, hs, -, -, -, hE⟩ := fevicted_shard h hne
    have hc : (prep s env).cfg = fcfg f := hg.cfg s (frf_mem_of_getElem? hs)
    have := (evicted_bound hE (K := K) (by rw [hc]; exact hK)).1
    rw [hc] at this
    exact this

/-- (a) **a write evicts nothing when the volume of THE SHARD OF ITS KEY is below THAT SHARD's
limit**: database pages of that shard as observed (`pb`) + its size counter + the size of the
value file written, against `fcfg f` — the configuration of a shard, whose limit is the total
limit divided by the number of shards (`C13.limit_divided`, `fcfg_init`).  The other shards, and
the total, play no role. -/
theorem fevicted_below_limit {f : Fanout} {op : Cache.Op} {LL : List (List Row)} (hg : FGoodAny f)
    (h : FEvicted f op LL) {E : Externals} {k : PyVal} (hkey : frf_opKey op = some (E, k))
    {K : Spec.Key} (hK : writeKey (fcfg f) op = some K)
    (s : Cache) (hs : f.shards[f.route E k]? = some s) (pb : Nat) (rest : List Nat)
    (henv : f.env = pb :: rest)
    (hb : belowLimit (fcfg f) ((pb : Int) + s.size + opWriteSize (fcfg f) op) = true) :
    ∀ L ∈ LL, L = [] := by
  have hall : LL.getD (f.route E k) [] = [] := by
    apply Classical.byContradiction
    intro hne
    obtain ⟨s', env, hs', -, henv', -, hE⟩ := fevicted_shard h hne
    rw [hs] at hs'
    have hs'' := Option.some.inj hs'
    subst hs''
    rw [henv' (flz_keyed_not_bulk hkey)] at hE
    have hc : (prep s f.env).cfg = fcfg f := hg.cfg s (frf_mem_of_getElem? hs)
    exact hne (evicted_below_limit_simple hE (K := K) (by rw [hc]; exact hK) pb rest henv
      (by rw [hc]; exact hb))
  intro L hL
  obtain ⟨i, -, rfl⟩ := flz_getD_mem hL
  by_cases hi : i = f.route E k
  · rw [hi]; exact hall
  · exact fevicted_untouched h hkey i hi

/-- (c) **eviction follows the policy order WITHIN EACH SHARD**: a row evicted on shard `i` never
has a larger policy key (store time / access time / access count) than a row that survives ON
SHARD `i`.  Nothing is claimed across shards, and nothing holds: `fanout_eviction_not_global_order`. -/
theorem fevicted_order {f : Fanout} {op : Cache.Op} {LL : List (List Row)} (hg : FGoodAny f)
    (h : FEvicted f op LL) (i : Nat) (s' : Cache) (hs' : (f.step op).1.shards[i]? = some s') :
    ∀ r ∈ LL.getD i [], ∀ w ∈ s'.rows,
      policyKey (fcfg f).policy r ≤ policyKey (fcfg f).policy w := by
  intro r hr w hw
  have hne : LL.getD i [] ≠ [] := fun h0 => by rw [h0] at hr; cases hr
  obtain ⟨s, env, hs, -, -, hsh, hE⟩ := fevicted_shard h hne
  rw [hsh] at hs'
  rw [← Option.some.inj hs'] at hw
  have hc : (prep s env).cfg = fcfg f := hg.cfg s (frf_mem_of_getElem? hs)
  have := evicted_order hE r hr w hw
  rw [hc] at this
  exact this

/-! ### histories -/

/-- the history theorem on a set of keys `V`, with everything the induction carries -/
theorem frun_refines_lossy_strong (V : Spec.Key → Prop) (f : Fanout) (m : Spec.Dict) (clock : Int)
    (ops : List Cache.Op)
    (hg : FGoodAny f) (hpl : FPlacedOn V f) (hr : FRefinesOn V f m clock)
    (hk : ∀ op ∈ ops, Keyed op = true) (hm : Monotone clock ops)
    (hV : ∀ K, histKeys (fcfg f) ops K → V K)
    (hroute : RouteOK f (histKeys (fcfg f) ops) V) :
    ∃ LLs : List (List (List Row)), FEvictedRun f ops LLs ∧
      outs f ops = Spec.outsLossy m (fcfg f) ops (LLs.map fdrops) ∧
      FRefinesOn V (f.run ops) (Spec.runLossy m (fcfg f) ops (LLs.map fdrops)) (lastClock clock ops) ∧
      FGoodAny (f.run ops) ∧ FPlacedOn V (f.run ops) ∧ fcfg (f.run ops) = fcfg f ∧
      (f.run ops).shards.length = f.shards.length := by
  induction ops generalizing f m clock with
  | nil => exact ⟨[], rfl, rfl, hr, hg, hpl, rfl, rfl⟩
  | cons op ops ih =>
    have hkop := hk op List.mem_cons_self
    obtain ⟨hm1, hm'⟩ := (monotone_cons clock op ops).1 hm
    have hHop : ∀ E k, frf_opKey op = some (E, k) → histKeys (fcfg f) (op :: ops) (keyOf E (fcfg f) k) :=
      fun E k h => ⟨op, List.mem_cons_self, E, k, h, rfl⟩
    obtain ⟨h1, ⟨LL, hL, hE⟩, h3, hp3, h4, h5⟩ := fstep_refines_lossy V f m clock op hg hpl hr hkop hm1
      (fun E k h => hV _ (hHop E k h))
      (fun E k h b hb hs => (hroute _ b (hHop E k h) hb hs).symm)
    obtain ⟨LLs, i0, i1, i2, i3, ip, i4, i5⟩ := ih (f.step op).1
      (dropKeys (Spec.step m (fcfg f) op).1 (fdrops LL))
      ((opClock op).getD clock) h3 hp3 hL.refines (fun o ho => hk o (List.mem_cons_of_mem _ ho)) hm'
      (by rw [h4]; exact fun K hK => hV K (frf_histKeys_cons hK))
      (by
        rw [h4]
        intro a b ha hb hs
        rw [frf_routeK_length h5, frf_routeK_length h5]
        exact hroute a b (frf_histKeys_cons ha) hb hs)
    rw [h4] at i1 i2
    refine ⟨LL :: LLs, ⟨hE, i0⟩, ?_, ?_, i3, ip, i4.trans h4, i5.trans h5⟩
    · show _ :: _ = _ :: _
      rw [h1, i1]; rfl
    · rw [frf_run_cons]; exact i2

/-- **the history theorem for every eviction policy, relative to a set of keys** `V` containing
the keys of the history -/
theorem frun_refines_lossy_on (V : Spec.Key → Prop) (f : Fanout) (m : Spec.Dict) (clock : Int)
    (ops : List Cache.Op)
    (hg : FGoodAny f) (hpl : FPlacedOn V f) (hr : FRefinesOn V f m clock)
    (hk : ∀ op ∈ ops, Keyed op = true) (hm : Monotone clock ops)
    (hV : ∀ K, histKeys (fcfg f) ops K → V K)
    (hroute : RouteOK f (histKeys (fcfg f) ops) V) :
    ∃ LLs : List (List (List Row)), FEvictedRun f ops LLs ∧
      outs f ops = Spec.outsLossy m (fcfg f) ops (LLs.map fdrops) ∧
      ∃ clock', FRefinesOn V (f.run ops) (Spec.runLossy m (fcfg f) ops (LLs.map fdrops)) clock' := by
  obtain ⟨LLs, h0, h1, h2, -⟩ := frun_refines_lossy_strong V f m clock ops hg hpl hr hk hm hV hroute
  exact ⟨LLs, h0, h1, _, h2⟩

/-- **the history theorem for every eviction policy**: "a sharded cache is observably ONE cache" —
one that may lose items.  For every history of key-addressed calls and bulk removals with a
non-decreasing clock there is, per call, a family of evicted rows — one list PER SHARD
(`FEvictedRun` / `FEvicted`: a key-addressed call evicts on the shard of its key only, and only
where and what C09 allows for THAT shard: its volume against its share of the size limit, at most
`cull_limit` rows, unexpired, in the policy's order among the rows of that shard; `cull` may evict
on every shard) — such that every call returns what the ONE reference dictionary returns when the
keys of those rows are dropped after each call, and the final states correspond.
Eviction order is per shard, NOT global (`fanout_eviction_not_global_order`).
`hroute`: as in `frun_refines` (finding D11); `hpl`: every row sits in the shard of its key. -/
theorem frun_refines_lossy (f : Fanout) (m : Spec.Dict) (clock : Int) (ops : List Cache.Op)
    (hg : FGoodAny f) (hpl : FPlaced f) (hr : FRefines f m clock)
    (hk : ∀ op ∈ ops, Keyed op = true) (hm : Monotone clock ops)
    (hroute : RouteOK f (histKeys (fcfg f) ops) (fun _ => True)) :
    ∃ LLs : List (List (List Row)), FEvictedRun f ops LLs ∧
      outs f ops = Spec.outsLossy m (fcfg f) ops (LLs.map fdrops) ∧
      ∃ clock', FRefines (f.run ops) (Spec.runLossy m (fcfg f) ops (LLs.map fdrops)) clock' :=
  frun_refines_lossy_on (fun _ => True) f m clock ops hg hpl hr hk hm (fun _ _ => trivial) hroute

/-- **histories without numeric keys**: no routing hypothesis is left -/
theorem frun_refines_lossy_nonnumeric (f : Fanout) (m : Spec.Dict) (clock : Int) (ops : List Cache.Op)
    (hg : FGoodAny f) (hpl : FPlaced f) (hr : FRefines f m clock)
    (hk : ∀ op ∈ ops, Keyed op = true) (hm : Monotone clock ops)
    (hkeys : histPyAll (fun k => !pyIsNumber k) ops = true) :
    ∃ LLs : List (List (List Row)), FEvictedRun f ops LLs ∧
      outs f ops = Spec.outsLossy m (fcfg f) ops (LLs.map fdrops) ∧
      ∃ clock', FRefines (f.run ops) (Spec.runLossy m (fcfg f) ops (LLs.map fdrops)) clock' :=
  frun_refines_lossy f m clock ops hg hpl hr hk hm
    (routeOK_of_nonnumeric f ops _ (fun op hop E k hkey => by
      simpa using frf_histPyAll hkeys op hop E k hkey))

/-- **histories without float keys**: the relation on the keys that are not floats is kept -/
theorem frun_refines_lossy_no_float (f : Fanout) (m : Spec.Dict) (clock : Int) (ops : List Cache.Op)
    (hg : FGoodAny f) (hpl : FPlacedOn (fun k => notReal k = true) f)
    (hr : FRefinesOn (fun k => notReal k = true) f m clock)
    (hk : ∀ op ∈ ops, Keyed op = true) (hm : Monotone clock ops)
    (hkeys : histKeyAll (fcfg f) notReal ops = true) :
    ∃ LLs : List (List (List Row)), FEvictedRun f ops LLs ∧
      outs f ops = Spec.outsLossy m (fcfg f) ops (LLs.map fdrops) ∧
      ∃ clock', FRefinesOn (fun k => notReal k = true) (f.run ops)
        (Spec.runLossy m (fcfg f) ops (LLs.map fdrops)) clock' :=
  frun_refines_lossy_on _ f m clock ops hg hpl hr hk hm (frf_histKeyAll hkeys)
    (routeOK_of_no_real f _ _ (fun a ha => frf_notReal (frf_histKeyAll hkeys a ha))
      (fun _ hb => frf_notReal hb))

/-- along a history on a sharded cache without eviction policy nothing is ever dropped -/
theorem fevictedRun_policy_none (f : Fanout) (ops : List Cache.Op) (LLs : List (List (List Row)))
    (hg : FGoodAny f) (hk : ∀ op ∈ ops, Keyed op = true) (hp : (fcfg f).policy = .none)
    (h : FEvictedRun f ops LLs) : ∀ LL ∈ LLs, fdrops LL = [] := by
  induction ops generalizing f LLs with
  | nil => intro LL hL; rw [show LLs = [] from h] at hL; exact absurd hL List.not_mem_nil
  | cons op ops ih =>
    cases LLs with
    | nil => exact absurd h id
    | cons LL0 LLs =>
      have hkop := hk op List.mem_cons_self
      have hgood : FGoodAny (f.step op).1 ∧ fcfg (f.step op).1 = fcfg f := by
        rcases frf_keyed_cases op hkop with ⟨E, k, hkey⟩ | hb
        · obtain ⟨hst, -⟩ := frf_step_keyed f op E k hkey
          have := keyed_fgoodAny f E k (fun s => s.step op) hg (flz_cache_step_good f op hkop)
          rw [hst]; exact ⟨this.1, this.2.1⟩
        · obtain ⟨hst, -, -⟩ := frf_step_bulk f op hb
          have := each_fgoodAny f (fun s => s.step op) hg (flz_cache_step_good f op hkop)
          rw [hst]; exact ⟨this.1, this.2.1⟩
      intro LL hL
      rcases List.mem_cons.1 hL with rfl | hL
      · unfold fdrops
        rw [List.flatten_eq_nil_iff.2 (fevicted_policy_none hg h.1 hp)]; rfl
      · exact ih (f.step op).1 LLs hgood.1 (fun o ho => hk o (List.mem_cons_of_mem _ ho))
          (by rw [hgood.2]; exact hp) h.2 LL hL

/-- `frun_refines` (C13_Refine) re-derived from the lossy history theorem for a fanout whose rows
sit in their shards: without an eviction policy every drop list is empty and the lossy dictionary
is the dictionary.  (`frun_refines` itself does not need `FPlaced`: without eviction a row in a
foreign shard is unobservable.) -/
theorem frun_refines_from_lossy (f : Fanout) (m : Spec.Dict) (clock : Int) (ops : List Cache.Op)
    (hg : FGood f) (hpl : FPlaced f) (hr : FRefines f m clock) (hk : ∀ op ∈ ops, Keyed op = true)
    (hm : Monotone clock ops)
    (hroute : RouteOK f (histKeys (fcfg f) ops) (fun _ => True)) :
    outs f ops = Spec.outs m (fcfg f) ops ∧
    ∃ clock', FRefines (f.run ops) (Spec.run m (fcfg f) ops) clock' := by
  obtain ⟨LLs, h0, h1, clock', h2⟩ := frun_refines_lossy f m clock ops hg.toAny hpl hr hk hm hroute
  have hnil : ∀ d ∈ LLs.map fdrops, d = [] := by
    intro d hd
    obtain ⟨LL, hL, rfl⟩ := List.mem_map.1 hd
    exact fevictedRun_policy_none f ops LLs hg.toAny hk hg.policy h0 LL hL
  obtain ⟨e1, e2⟩ := runLossy_nils m (fcfg f) ops _ hnil
  rw [e2] at h1
  rw [e1] at h2
  exact ⟨h1, clock', h2⟩

/-! ### the empty fanout, with observations -/

theorem fgoodAny_init (n : Nat) (cf : Cfg) (st : Bool) (hn : 1 ≤ n) (hpg : 0 < cf.page) :
    FGoodAny (Fanout.init n cf st) := by
  refine ⟨frf_init_nonempty n cf st hn, ?_, ?_, ?_⟩
  · intro s hs
    rw [frf_init_mem hs]
    exact good_init _ _
  · intro s hs
    rw [fcfg_init n cf st hn, frf_init_mem hs]
  · rw [fcfg_init n cf st hn]; exact hpg

/-- a fresh `FanoutCache` holds no row, so every row sits in its shard -/
theorem fplaced_init (n : Nat) (cf : Cfg) (st : Bool) (V : Spec.Key → Prop) :
    FPlacedOn V (Fanout.init n cf st) := by
  intro i s hs r hr
  rw [frf_init_mem (frf_mem_of_getElem? hs)] at hr
  cases hr

/-- the invariant, the placement and the relation do not depend on the database-size
observations the fanout will make -/
theorem fgoodAny_env {f : Fanout} (h : FGoodAny f) (env : List Nat) : FGoodAny { f with env := env } :=
  ⟨h.nonempty, h.good, h.cfg, h.page⟩

theorem fplaced_env {V : Spec.Key → Prop} {f : Fanout} (h : FPlacedOn V f) (env : List Nat) :
    FPlacedOn V { f with env := env } := h

theorem frefines_env {V : Spec.Key → Prop} {f : Fanout} {m : Spec.Dict} {clock : Int}
    (h : FRefinesOn V f m clock) (env : List Nat) : FRefinesOn V { f with env := env } m clock := h

/-! ### what a user sees -/

theorem flz_run_append (f : Fanout) (a b : List Cache.Op) : f.run (a ++ b) = (f.run a).run b := by
  unfold run; rw [List.foldl_append]

theorem flz_histKeys_append_left {cfg : Cfg} {a b : List Cache.Op} {K : Spec.Key}
    (h : histKeys cfg a K) : histKeys cfg (a ++ b) K := by
  obtain ⟨o, ho, r⟩ := h
  exact ⟨o, List.mem_append_left _ ho, r⟩

/-- **what a user sees, every policy**: after any history of key-addressed calls with a
non-decreasing clock on a fresh sharded cache (any number of shards, any policy, any
database-size observations), `get` returns exactly what `get` on the lossy dictionary built by that
history returns: the value *last stored* under the key (with its expiry time / tag) if the key was
stored and since then neither removed, nor expired at `now`, nor evicted (by a write to ITS shard
that found THAT shard at its share of the size limit, or by `cull`) — never a stale or foreign
value —, the default otherwise.  `hroute`: finding D11 (automatic for non-numeric keys:
`routeOK_of_nonnumeric`). -/
theorem get_after_history_lossy (n : Nat) (cf : Cfg) (st : Bool) (env : List Nat) (ops : List Cache.Op)
    (E : Externals) (now : Int) (k : PyVal) (read et tg : Bool)
    (hn : 1 ≤ n) (hpg : 0 < cf.page)
    (hk : ∀ op ∈ ops, Keyed op = true)
    (hm : Monotone 0 (ops ++ [.get E now k read et tg]))
    (hroute : RouteOK (Fanout.init n cf st)
      (histKeys (fcfg (Fanout.init n cf st)) (ops ++ [.get E now k read et tg])) (fun _ => True)) :
    ∃ LLs : List (List (List Row)),
      FEvictedRun { Fanout.init n cf st with env := env } ops LLs ∧
      ((({ Fanout.init n cf st with env := env } : Fanout).run ops).keyed E k
          (fun s => s.get E now k read et tg)).2 =
        (Spec.get (Spec.runLossy [] { cf with limD := cf.limD * n } ops (LLs.map fdrops)) E
          { cf with limD := cf.limD * n } now k read et tg).2 := by
  obtain ⟨hm1, hm2⟩ := monotone_append 0 ops _ hm
  have hcfg : fcfg ({ Fanout.init n cf st with env := env } : Fanout) = { cf with limD := cf.limD * n } :=
    fcfg_init n cf st hn
  obtain ⟨LLs, h0, -, h2, h3, hp3, h4, h5⟩ := frun_refines_lossy_strong (fun _ => True)
    ({ Fanout.init n cf st with env := env } : Fanout) [] 0 ops
    (fgoodAny_env (fgoodAny_init n cf st hn hpg) env)
    (fplaced_env (fplaced_init n cf st _) env) (frefines_env (frefines_init n cf st hn 0) env) hk hm1
    (fun _ _ => trivial)
    (fun a b ha hb hs => hroute a b (flz_histKeys_append_left ha) hb hs)
  refine ⟨LLs, h0, ?_⟩
  have hstep := (fstep_refines_lossy (fun _ => True) _ _ _ (.get E now k read et tg) h3 hp3 h2 rfl hm2
    (fun _ _ _ => trivial)
    (fun E' k' hkey b hb hs => by
      rw [frf_routeK_length h5, frf_routeK_length h5, h4]
      refine (hroute _ b ⟨_, List.mem_append_right _ (List.mem_singleton.2 rfl), E', k', hkey, ?_⟩ hb
        (by rw [h4] at hs; exact hs)).symm
      rfl)).1
  rw [h4, hcfg] at hstep
  exact hstep

/-! ### non-vacuity: a real eviction in one shard; eviction is per shard, not global -/

/-- least-recently-stored, total size limit 100 bytes, `cull_limit = 1` -/
def cfgL : Cfg := { policy := .lrs, limN := 100, cullLimit := 1 }

/-- two shards (50 bytes each); the database file of the shard written to is observed at 10, 30
and 60 bytes by the three writes -/
def exL2 : Fanout := { Fanout.init 2 cfgL false with env := [10, 30, 60] }

/-- the keys `a`, `c` live on shard 0, the key `b` on shard 1 -/
example : [PyVal.str [97], .str [98], .str [99]].map (fun k => exL2.route toyV k) = [0, 1, 0] := by
  decide +kernel

/-- `b` (shard 1) is stored at time 1, `a` (shard 0) at time 2, `c` (shard 0) at time 3; then all
three are read -/
def exL2Ops : List Cache.Op :=
  [ .set toyV 1 (.str [98]) (.int 1) none false .null,
    .set toyV 2 (.str [97]) (.int 2) none false .null,
    .set toyV 3 (.str [99]) (.int 3) none false .null,
    .get toyV 4 (.str [97]) false false false,
    .get toyV 4 (.str [98]) false false false,
    .get toyV 4 (.str [99]) false false false ]

theorem exL2_good : FGoodAny exL2 ∧ FPlaced exL2 ∧ FRefines exL2 [] 0 :=
  ⟨fgoodAny_env (fgoodAny_init 2 cfgL false (by decide) (by decide)) _,
    fplaced_env (fplaced_init 2 cfgL false _) _,
    frefines_env (frefines_init 2 cfgL false (by decide) 0) _⟩

/-- the history theorem applies (policy least-recently-stored, a real eviction in shard 0) -/
example : ∃ LLs : List (List (List Row)), FEvictedRun exL2 exL2Ops LLs ∧
    outs exL2 exL2Ops = Spec.outsLossy [] (fcfg exL2) exL2Ops (LLs.map fdrops) ∧
    ∃ clock', FRefines (exL2.run exL2Ops) (Spec.runLossy [] (fcfg exL2) exL2Ops (LLs.map fdrops)) clock' :=
  frun_refines_lossy_nonnumeric exL2 [] 0 exL2Ops exL2_good.1 exL2_good.2.1 exL2_good.2.2
    (by decide) (by decide +kernel) (by decide +kernel)

/-- what the sharded cache returns: the third write finds shard 0 at 60 ≥ 50 bytes and evicts the
least recently stored row OF SHARD 0, which is `a` -/
theorem exL2_outs : outs exL2 exL2Ops =
    [.bool true, .bool true, .bool true, .default, .val (.int 1), .val (.int 3)] := by rfl

/-- … which is what the ONE lossy dictionary returns when `a` is dropped after the third call (and
not what the plain dictionary returns: it still holds `a`) -/
example : Spec.outsLossy [] (fcfg exL2) exL2Ops [[], [], [(.text [97], true)], [], [], []] =
    [.bool true, .bool true, .bool true, .default, .val (.int 1), .val (.int 3)] := by rfl

example : Spec.outs [] (fcfg exL2) exL2Ops =
    [.bool true, .bool true, .bool true, .val (.int 2), .val (.int 1), .val (.int 3)] := by rfl

/-- ONE cache with the same total limit (100 bytes) making the same observations -/
def exOne : Cache := { cfg := cfgL, env := [10, 30, 60] }

/-- **the total size limit is divided among the shards**: the two-shard cache evicts `a` although
the volume (60 bytes) is well below the configured `size_limit` (100 bytes) — ONE cache with that
limit, the same history and the same observations keeps everything.  A FanoutCache with `n` shards
starts evicting as soon as ONE shard reaches `size_limit / n`. -/
theorem fanout_evicts_what_one_cache_keeps :
    outs exL2 exL2Ops = [.bool true, .bool true, .bool true, .default, .val (.int 1), .val (.int 3)] ∧
    Cache.outs exOne exL2Ops =
      [.bool true, .bool true, .bool true, .val (.int 2), .val (.int 1), .val (.int 3)] :=
  ⟨by rfl, by rfl⟩

/-- ONE cache over its limit at the third write (observation 120 ≥ 100) -/
def exOneOver : Cache := { cfg := cfgL, env := [10, 30, 120] }

/-- **eviction order is per shard, not global**: the sharded cache evicts `a` (stored at time 2)
while `b`, stored EARLIER (time 1), survives in the other shard; ONE least-recently-stored cache
that has to evict evicts `b`, the globally oldest item, and keeps `a`.  `fevicted_order` is
therefore stated shard by shard, and no global statement holds. -/
theorem fanout_eviction_not_global_order :
    outs exL2 exL2Ops = [.bool true, .bool true, .bool true, .default, .val (.int 1), .val (.int 3)] ∧
    Cache.outs exOneOver exL2Ops =
      [.bool true, .bool true, .bool true, .val (.int 2), .default, .val (.int 3)] :=
  ⟨by rfl, by rfl⟩

/-- `get_after_history_lossy` on that history: what `get('a')` returns after the three writes is
what the lossy dictionary returns — the default, `a` having been dropped -/
example : ∃ LLs : List (List (List Row)), FEvictedRun exL2 (exL2Ops.take 3) LLs ∧
    ((exL2.run (exL2Ops.take 3)).keyed toyV (.str [97]) (fun s => s.get toyV 4 (.str [97]) false false false)).2 =
      (Spec.get (Spec.runLossy [] { cfgL with limD := cfgL.limD * 2 } (exL2Ops.take 3) (LLs.map fdrops))
        toyV { cfgL with limD := cfgL.limD * 2 } 4 (.str [97]) false false false).2 :=
  get_after_history_lossy 2 cfgL false [10, 30, 60] (exL2Ops.take 3) toyV 4 (.str [97]) false false false
    (by decide) (by decide) (by decide) (by decide +kernel)
    (routeOK_of_nonnumeric _ _ _ (fun op hop E k hkey => by
      have := frf_histPyAll (P := fun k => !pyIsNumber k)
        (ops := exL2Ops.take 3 ++ [.get toyV 4 (.str [97]) false false false]) (by decide +kernel)
        op hop E k hkey
      simpa using this))

/-- `cull()` runs the eviction loop on EVERY shard: with both shards observed far above their
limit, one `cull()` evicts on both (no `cull_limit` bound applies) -/
def exC : Fanout := { Fanout.init 2 cfgL false with env := [10, 10, 1000, 1000, 1000, 1000, 1000, 1000] }

def exCOps : List Cache.Op :=
  [ .set toyV 1 (.str [98]) (.int 1) none false .null,
    .set toyV 2 (.str [97]) (.int 2) none false .null,
    .cull 3,
    .get toyV 4 (.str [97]) false false false,
    .get toyV 4 (.str [98]) false false false ]

theorem exC_outs : outs exC exCOps = [.bool true, .bool true, .none, .default, .default] ∧
    Spec.outsLossy [] (fcfg exC) exCOps [[], [], [(.text [97], true), (.text [98], true)], [], []] =
      [.bool true, .bool true, .none, .default, .default] := ⟨by rfl, by rfl⟩

example : ∃ LLs : List (List (List Row)), FEvictedRun exC exCOps LLs ∧
    outs exC exCOps = Spec.outsLossy [] (fcfg exC) exCOps (LLs.map fdrops) ∧
    ∃ clock', FRefines (exC.run exCOps) (Spec.runLossy [] (fcfg exC) exCOps (LLs.map fdrops)) clock' :=
  frun_refines_lossy_nonnumeric exC [] 0 exCOps
    (fgoodAny_env (fgoodAny_init 2 cfgL false (by decide) (by decide)) _)
    (fplaced_env (fplaced_init 2 cfgL false _) _)
    (frefines_env (frefines_init 2 cfgL false (by decide) 0) _)
    (by decide) (by decide +kernel) (by decide +kernel)

/-! ### the placement hypothesis is necessary -/

/-- the configuration of one of two shards -/
def cfgS : Cfg := { cfgL with limD := 2 }

/-- shard 0 holds `a ↦ 1` -/
def exS0 : Cache :=
  (({ cfg := cfgS, env := [0] } : Cache).set toyV 1 (.str [97]) (.int 1) none false .null).1

/-- shard 1 holds a row for `a` too — but `a` is routed to shard 0: a row in a foreign shard -/
def exS1 : Cache :=
  (({ cfg := cfgS, env := [0] } : Cache).set toyV 1 (.str [97]) (.int 9) none false .null).1

/-- two shards; `cull()` will observe shard 0 at 0 bytes and shard 1 at 1000 bytes -/
def exBad : Fanout := { shards := [exS0, exS1], env := [0, 1000, 1000, 1000] }

/-- the dictionary `{a: 1}` -/
def exBadM : Spec.Dict := (Spec.set [] toyV cfgS 1 (.str [97]) (.int 1) none false .null).1

def exBadK : Spec.Key := (.text [97], true)

theorem flz_bad_shard (v : PyVal) (hv : v = .int 1 ∨ v = .int 9) :
    Good (({ cfg := cfgS, env := [0] } : Cache).set toyV 1 (.str [97]) v none false .null).1 ∧
    Refines (({ cfg := cfgS, env := [0] } : Cache).set toyV 1 (.str [97]) v none false .null).1
      (Spec.set [] toyV cfgS 1 (.str [97]) v none false .null).1 1 := by
  have hg0 : Good ({ cfg := cfgS, env := [0] } : Cache) := good_init_env cfgS false [0]
  refine ⟨set_good _ _ _ _ _ _ _ _ hg0, ?_⟩
  obtain ⟨-, L, hL, hW⟩ := set_refines_lossy ({ cfg := cfgS, env := [0] } : Cache) [] 0 1 toyV (.str [97]) v
    none false .null hg0 (refines_init_env cfgS false [0] 0) (by decide)
  have hnil : L = [] := by
    apply Classical.byContradiction
    intro hne
    have h1 := hW.loss.vol hne 0 [] rfl
    have h2 := hW.size hne
    have h3 := belowLimit_mono (cfg := cfgS) (a := (0 : Int) + 0 + 0)
      (b := ((0 : Nat) : Int) + (({ cfg := cfgS, env := [0] } : Cache).set toyV 1 (.str [97]) v none false .null).1.size
        + sumSizes L) (by decide) (by
        have hz : placedSize (place toyV cfgS.disk cfgS.minFileSize v false) = 0 := by
          rcases hv with rfl | rfl <;> rfl
        have hc : ({ cfg := cfgS, env := [0] } : Cache).size = 0 := rfl
        have h2' : (({ cfg := cfgS, env := [0] } : Cache).set toyV 1 (.str [97]) v none false .null).1.size
            + sumSizes L ≤ 0 := by
          have := h2
          rw [hz, hc] at this
          simpa using this
        omega)
    rw [h1] at h3
    cases h3
  subst hnil
  exact lossy_nil_iff.1 hL

/-- **the placement hypothesis is needed**: a fanout that satisfies every other hypothesis of
`fstep_refines_lossy` (invariant, relation on all keys, routing) but holds a row for `a` in the
shard `a` is NOT routed to.  `cull()` finds that shard above its limit and evicts the row
(`CullLoss.counted` pins the number of evicted rows, `FLossyOn.was` their key); the shard of `a`
still holds `a ↦ 1`, so the fanout does not represent the dictionary without `a`: no family of
evicted rows satisfies the conclusion. -/
theorem fstep_refines_lossy_needs_placed :
    ∃ (f : Fanout) (m : Spec.Dict) (clock : Int) (op : Cache.Op),
      FGoodAny f ∧ FRefines f m clock ∧ Keyed op = true ∧ (∀ n, opClock op = some n → clock ≤ n) ∧
      frf_opKey op = none ∧ ¬ FPlaced f ∧
      ¬ ∃ LL, FLossyOn (fun _ => True) (f.step op).1 (Spec.step m (fcfg f) op).1
          ((opClock op).getD clock) LL ∧ FEvicted f op LL := by
  obtain ⟨hg0, hr0⟩ := flz_bad_shard (.int 1) (.inl rfl)
  obtain ⟨hg1, hr1⟩ := flz_bad_shard (.int 9) (.inr rfl)
  have hgood : FGoodAny exBad := by
    refine ⟨by decide, ?_, ?_, by decide⟩
    · intro s hs
      rcases List.mem_cons.1 hs with rfl | hs
      · exact hg0
      · rw [List.mem_singleton.1 hs]; exact hg1
    · intro s hs
      rcases List.mem_cons.1 hs with rfl | hs
      · rfl
      · rw [List.mem_singleton.1 hs]; rfl
  have hK0 : routeK exBad exBadK = 0 := by decide +kernel
  -- a key the table treats as equal to `a` is `a`
  have hsame : ∀ k : Spec.Key, sameKey exBadK k = true → k = exBadK := by
    intro k hk
    simp only [sameKey, exBadK, Bool.and_eq_true, beq_iff_eq] at hk
    obtain ⟨k1, k2⟩ := k
    simp only at hk
    rw [frf_eqv_text hk.1, ← hk.2]
    rfl
  have hget : ∀ (mm : Spec.Dict) (e : Entry) (k : Spec.Key), mm = [(exBadK, e)] →
      sameKey exBadK k = false → mm.get k = none := by
    intro mm e k hmm hk
    subst hmm
    simp [Dict.get, hk]
  refine ⟨exBad, exBadM, 1, .cull 5, hgood, ⟨hr0.1, fun k _ => ?_⟩, rfl, fun n hn => ?_, rfl, ?_, ?_⟩
  · -- the relation on all keys
    have hlt : routeK exBad k < 2 := Nat.mod_lt _ (by decide)
    by_cases hk0 : routeK exBad k = 0
    · rw [hk0]
      exact ⟨exS0, rfl, hr0.2 k⟩
    · have hk1 : routeK exBad k = 1 := by omega
      rw [hk1]
      refine ⟨exS1, rfl, ?_⟩
      have hne : sameKey exBadK k = false := by
        cases h : sameKey exBadK k with
        | false => rfl
        | true => rw [hsame k h] at hk0; exact absurd hK0 hk0
      have h1 := hr1.2 k
      have e1 : (Spec.set [] toyV cfgS 1 (.str [97]) (.int 9) none false .null).1.get k = none :=
        hget _ _ k rfl hne
      have e0 : exBadM.get k = none := hget _ _ k rfl hne
      rw [e1] at h1
      show frf_RefinesAt exS1 exBadM 1 k
      unfold frf_RefinesAt
      rw [e0]
      exact h1
  · cases hn; decide
  · intro hpl
    have hrow : ∃ r ∈ exS1.rows, rowKey r = exBadK := by
      have : exS1.rows.map rowKey = [exBadK] := by decide +kernel
      have hm : exBadK ∈ exS1.rows.map rowKey := by rw [this]; exact List.mem_singleton.2 rfl
      obtain ⟨r, hr, hk⟩ := List.mem_map.1 hm
      exact ⟨r, hr, hk⟩
    obtain ⟨r, hr, hk⟩ := hrow
    have := hpl 1 exS1 rfl r hr exBadK trivial (by rw [hk]; decide)
    rw [hK0] at this
    cases this
  · rintro ⟨LL, hL, hE⟩
    obtain ⟨env, -, hstate, hEv⟩ := (hE.2 1 exS1 rfl).1 trivial
    have hrows' : ((prep exS1 env).cull 5).1.rows = [] := by
      have h1 : ((exBad.step (.cull 5)).1.shards[1]?.map (·.rows)) = some [] := by decide +kernel
      rw [hstate] at h1
      exact Option.some.inj h1
    have hpg1 : 0 < (prep exS1 env).cfg.page := by
      show 0 < exS1.cfg.page
      decide
    have hcount := cull_count (prep exS1 env) 5 hg1.tinv.tbl.asc hpg1
    have hlen1 : (prep exS1 env).rows.length = 1 := by
      show exS1.rows.length = 1
      decide +kernel
    have hexp : ((prep exS1 env).rows.filter (expired 5)).length = 0 := by
      show (exS1.rows.filter (expired 5)).length = 0
      decide +kernel
    have hcounted := hEv.counted
    rw [hexp] at hcounted
    change ((prep exS1 env).cull 5).2 = _ at hcounted
    rw [hcount, hrows', hlen1] at hcounted
    have hL1 : (LL.getD 1 []).length = 1 := by
      have := Out.int.inj hcounted
      simp only [List.length_nil, Nat.zero_add] at this
      omega
    obtain ⟨r, hr1⟩ : ∃ r, LL.getD 1 [] = [r] := by
      cases hl : LL.getD 1 [] with
      | nil => rw [hl] at hL1; cases hL1
      | cons a t =>
        cases t with
        | nil => exact ⟨a, rfl⟩
        | cons b t => rw [hl] at hL1; simp at hL1
    have hmemLL : LL.getD 1 [] ∈ LL := by
      have h1 : 1 < LL.length := by rw [hE.1]; decide
      rw [flz_getD_lt _ h1]; exact List.getElem_mem h1
    obtain ⟨e, he, -, -⟩ := hL.was _ hmemLL r (by rw [hr1]; exact List.mem_singleton.2 rfl) trivial
    have hm' : (Spec.step exBadM (fcfg exBad) (.cull 5)).1 = exBadM := by decide +kernel
    rw [hm'] at he
    have hsk : sameKey exBadK (rowKey r) = true := by
      cases h : sameKey exBadK (rowKey r) with
      | true => rfl
      | false => rw [hget exBadM _ _ rfl h] at he; cases he
    have hrk : rowKey r = exBadK := hsame _ hsk
    have hany : (fdrops LL).any (fun l => sameKey l exBadK) = true := by
      rw [List.any_eq_true]
      refine ⟨rowKey r, ?_, by rw [hrk]; decide⟩
      unfold fdrops
      exact List.mem_map.2 ⟨r, List.mem_flatten.2 ⟨_, hmemLL, by rw [hr1]; exact List.mem_singleton.2 rfl⟩, rfl⟩
    obtain ⟨s, hs, hat⟩ := hL.refines.2 exBadK trivial
    unfold frf_RefinesAt at hat
    rw [rf_get_dropKeys, hany] at hat
    simp only [if_true] at hat
    have h2 : (((exBad.step (.cull 5)).1.shards[routeK (exBad.step (.cull 5)).1 exBadK]?).bind
        (fun s => s.selKey exBadK.1 exBadK.2)).isSome = true := by decide +kernel
    rw [hs] at h2
    simp only [Option.bind_some] at h2
    rw [hat] at h2
    cases h2

end DC.Fanout
