/-
C11 (refinement) — the Deque model refines the reference bounded list of
DC/Model/DSpec.lean: for every history of append / appendleft / pop / popleft /
peek / peekleft / len / clear / deque[i] / iteration that fits the key budget,
every call returns what `collections.deque(maxlen)` over the stored values
returns, and the final states correspond (`drun_refines`).

The single-step theorems of DC/Properties/C11.lean assume the invariant `Ok`; this
file adds its preservation.  `Ok` cannot hold forever — every push moves one
step away from the origin and the queue keys have 15 digits — so the invariant
is budgeted: `OkN d n` = "`Ok d`, the file invariants (`Cache.Good`), at most
`maxlen` items, every item readable, and room for `n` more pushes at either end".
`step_okN : OkN d (n+1) → OkN (d.step op).1 n`; the empty Deque satisfies
`OkN _ 499999999999999` and not `OkN _ 500000000000000` (`okN_empty`,
`okN_empty_max`); `budget_needed` shows what happens beyond the budget.

Statement notes.
 * `DRefines d m` is `(items d).map (entryOfRow d.cache) = m.items ∧ d.maxlen = m.maxlen`.
 * The hard part is `append` on the model side: `tbegin; push; [pull]; tend` runs inside a
   transaction block, where `Cache.Good` does not hold (depth 1, removals deferred).
   DC/Proofs/DRefineBlock.lean carries the file invariant through the block (`drf_BI`).
 * `-- added:` hypotheses:
     - `0 < d.cache.cfg.page` for `clear` (as in C03_Refine: with page size 0 the removal loop
       removes nothing; never false for a real cache);
     - `d.cache.cfg.disk = .pickle` for `deque[i]` and iteration (`exDqJson_getitem` in C11.lean).
 * A value that cannot be stored (`DSpec.entryFor … = none`: `Disk.store` fails, or the database
   cell cannot be bound) makes `append` / `appendleft` raise UnicodeEncodeError on both sides and
   changes nothing: the model leaves the block through `traise`, which rolls it back
   (`append_propagates_error`).
-/
import DC.Proofs.DRefineLemmas
import DC.Properties.C11
import DC.Properties.C03_Refine

namespace DC.Deque
open DC.Cache DC.Spec DC.DSpec

/-- `d` represents the bounded list `m`: the items front to back denote the entries of `m`, and
the bounds agree -/
def DRefines (d : Deque) (m : DList) : Prop :=
  (items d).map (entryOfRow d.cache) = m.items ∧ d.maxlen = m.maxlen

/-- the stored representation can be read back (`Disk.fetch` does not fail on it): true of
everything `Disk.store` produces -/
abbrev Readable (e : Spec.Entry) : Prop := drf_Readable e

/-- the budgeted invariant: `Ok d` (DC/Properties/C11.lean) with `Cache.Room` replaced by "room for
`n` more pushes at either end" — every push moves one step away from the origin and the queue
keys have 15 digits (usable numbers 1 … 999999999999998) —, the file invariants (`Cache.Good`),
the bound, and readability of every stored item. -/
structure OkN (d : Deque) (n : Nat) : Prop where
  good : Cache.Good d.cache
  pol : d.cache.cfg.policy = .none
  noexp : ∀ r ∈ d.cache.rows, r.expT = none
  allq : ∀ r ∈ d.cache.rows, r ∈ d.cache.queueRows none
  qok : Cache.QueueOk d.cache none
  /-- every key leaves room for `n` more pushes on both sides -/
  room : ∀ r ∈ d.cache.queueRows none, ∀ k, queueNum r.key = some k →
    1 + (n : Int) ≤ k ∧ k + (n : Int) ≤ 999999999999998
  origin : Cache.OriginOk d.cache
  /-- … and so does the first key of an empty deque -/
  originN : n ≤ d.cache.cfg.qorigin ∧ d.cache.cfg.qorigin + n ≤ 999999999999999
  stats : d.cache.statistics = false
  bounded : ∀ m, d.maxlen = some m → (items d).length ≤ m
  readable : ∀ r ∈ d.cache.rows, Readable (entryOfRow d.cache r)

theorem OkN.mono {d : Deque} {n : Nat} (h : OkN d (n + 1)) : OkN d n :=
  { h with
    room := fun r hr k hk => by
      have := h.room r hr k hk
      constructor <;> omega
    originN := by
      have := h.originN
      constructor <;> omega }

/-- with budget left, the invariant of C11 holds -/
theorem OkN.ok {d : Deque} {n : Nat} (h : OkN d (n + 1)) : Ok d where
  inv := h.good.tinv
  pol := h.pol
  noexp := h.noexp
  allq := h.allq
  qok := h.qok
  room := fun r hr k hk => by
    have := h.room r hr k hk
    constructor <;> omega
  origin := h.origin
  depth := h.good.depth
  stats := h.stats

theorem OkN.items_mem {d : Deque} {n : Nat} (_h : OkN d n) {r : Row} (hr : r ∈ items d) :
    r ∈ d.cache.rows := Ok.mem_rows hr

theorem OkN.href {d : Deque} {n : Nat} (h : OkN d n) {r : Row} (hr : r ∈ d.cache.rows) :
    ∀ f, r.file = some f → ∃ ct, d.cache.fileGet f = some ct := rf_good_ref h.good hr

theorem OkN.unexpired {d : Deque} {n : Nat} (h : OkN d n) {r : Row} (hr : r ∈ d.cache.rows) (now : Int) :
    Cache.expired now r = false := by
  unfold Cache.expired; rw [h.noexp r hr]

/-- a state with fewer rows denoting the same entries, same configuration: the invariant holds -/
theorem OkN.shrink {d d' : Deque} {n : Nat} (h : OkN d n) (hg : Cache.Good d'.cache)
    (hcfg : d'.cache.cfg = d.cache.cfg) (hst : d'.cache.statistics = d.cache.statistics)
    (hml : d'.maxlen = d.maxlen)
    (hrows : ∀ a ∈ d'.cache.rows, a ∈ d.cache.rows)
    (hent : ∀ a ∈ d'.cache.rows, entryOfRow d'.cache a = entryOfRow d.cache a)
    (hlen : (items d').length ≤ (items d).length) : OkN d' n := by
  have hq : ∀ a ∈ d'.cache.queueRows none, a ∈ d.cache.queueRows none := by
    intro a ha
    rw [queueRows_eq] at ha ⊢
    exact mem_qrows.2 ⟨hrows a (mem_qrows.1 ha).1, (mem_qrows.1 ha).2⟩
  refine ⟨hg, by rw [hcfg]; exact h.pol, fun r hr => h.noexp r (hrows r hr), ?_,
    fun r hr => h.qok r (hq r hr), fun r hr => h.room r (hq r hr), ?_, by rw [hcfg]; exact h.originN,
    by rw [hst]; exact h.stats, ?_, ?_⟩
  · intro r hr
    have := h.allq r (hrows r hr)
    rw [queueRows_eq] at this ⊢
    exact mem_qrows.2 ⟨hr, (mem_qrows.1 this).2⟩
  · unfold OriginOk; rw [hcfg]; exact h.origin
  · intro m hm
    rw [hml] at hm
    exact Nat.le_trans hlen (h.bounded m hm)
  · intro r hr
    rw [hent r hr]
    exact h.readable r (hrows r hr)

/-- a state with the same `core` (rows, files, configuration) -/
theorem OkN.of_core {d : Deque} {n : Nat} (h : OkN d n) {c' : Cache} (hg : Cache.Good c')
    (hc : core c' = core d.cache) : OkN { d with cache := c' } n := by
  have hrows : c'.rows = d.cache.rows := congrArg Core.rows hc
  have hfiles : c'.files = d.cache.files := congrArg Core.files hc
  refine h.shrink hg (congrArg Core.cfg hc) (congrArg Core.statistics hc) rfl
    (fun a ha => by rw [← hrows]; exact ha) ?_ ?_
  · intro a _
    show rf_ent c' a = rf_ent d.cache a
    unfold rf_ent fileGet
    rw [hfiles]
  · show (c'.queueRows none).length ≤ (d.cache.queueRows none).length
    rw [queueRows_eq, queueRows_eq, hrows]
    exact Nat.le_refl _

theorem DRefines.of_core {d : Deque} {m : DList} (h : DRefines d m) {c' : Cache}
    (hc : core c' = core d.cache) : DRefines { d with cache := c' } m := by
  have hrows : c'.rows = d.cache.rows := congrArg Core.rows hc
  have hfiles : c'.files = d.cache.files := congrArg Core.files hc
  refine ⟨?_, h.2⟩
  rw [← h.1]
  show (c'.queueRows none).map (entryOfRow c') = (d.cache.queueRows none).map (entryOfRow d.cache)
  rw [queueRows_eq, queueRows_eq, hrows]
  apply List.map_congr_left
  intro a _
  show rf_ent c' a = rf_ent d.cache a
  unfold rf_ent fileGet
  rw [hfiles]

/-! ### `len` -/

theorem len_drefines (d : Deque) (m : DList) (n : Nat) (hok : OkN d n) (hr : DRefines d m) :
    (d.len).2 = (DSpec.len m).2 ∧ DRefines (d.len).1 (DSpec.len m).1 := by
  refine ⟨?_, hr.of_core (c' := (d.cache.len).1) rfl⟩
  show Out.int d.cache.count = Out.int m.items.length
  rw [hok.good.tinv.tbl.count, ← hr.1, List.length_map]
  show Out.int d.cache.rows.length = Out.int (qrows d.cache.rows none).length
  rw [qrows_length_all hok.allq]

/-! ### `peek` / `peekleft` -/

theorem drf_end_map {α β} (f : α → β) (l : List α) (left : Bool) :
    (if left then (l.map f).head? else (l.map f).getLast?) =
      (if left then l.head? else l.getLast?).map f := by
  cases left <;> simp

theorem drf_qhead_eq (s : Cache) (front : Bool) :
    qhead s none front = (if front then (s.queueRows none).head? else (s.queueRows none).getLast?) := by
  unfold qhead lastRow?; rfl

theorem drf_end_nil {α} (left : Bool) : (if left then ([] : List α).head? else ([] : List α).getLast?) = none := by
  cases left <;> rfl

theorem drf_end_none {α} {l : List α} {left : Bool}
    (h : (if left then l.head? else l.getLast?) = none) : l = [] := by
  cases left <;> simpa using h

/-- the value of the end item, as the model reads it and as the specification reads it -/
theorem OkN.end_value {d : Deque} {n : Nat} (hok : OkN d n) {r : Row} (hr : r ∈ items d) (E : Externals) :
    (d.cache.fetchRow E r false).2 ≠ .ioerror ∧
    valueOf (entryOfRow d.cache r) E d.cache.cfg = fetchedOut (d.cache.fetchRow E r false).2 :=
  drf_valueOf d.cache E r (hok.href (hok.items_mem hr)) (hok.readable r (hok.items_mem hr))

theorem peek_core (d : Deque) (n : Nat) (E : Externals) (now : Int) (left : Bool) (hok : OkN d n) :
    core (d.peek E now left).1.cache = core d.cache := by
  apply drf_peek_core d.cache E now left hok.good.depth
  · intro r hr; exact hok.unexpired (hok.items_mem hr) now
  · intro r hr; exact (hok.end_value hr E).1

theorem peek_drefines (d : Deque) (m : DList) (n : Nat) (E : Externals) (now : Int) (left : Bool)
    (hok : OkN d n) (hr : DRefines d m) :
    (d.peek E now left).2 = (DSpec.peek m E d.cache.cfg left).2 ∧
    DRefines (d.peek E now left).1 (DSpec.peek m E d.cache.cfg left).1 := by
  have hm : (DSpec.peek m E d.cache.cfg left).1 = m := by
    unfold DSpec.peek; split <;> rfl
  refine ⟨?_, ?_⟩
  · have hpk : (d.peek E now left).2 = indexErr (d.cache.peek E now none left false false).2 := rfl
    unfold DSpec.peek
    rw [← hr.1, drf_end_map]
    cases hh : (if left then (items d).head? else (items d).getLast?) with
    | none =>
      have he := drf_end_none hh
      rw [hpk, (peek_empty d.cache E now none left false false he).1]
      rfl
    | some r =>
      have hmem : r ∈ items d := by
        cases left with
        | true => exact List.mem_of_head? hh
        | false => exact List.mem_of_getLast? hh
      obtain ⟨hf, hv⟩ := hok.end_value hmem E
      have hlive := hok.unexpired (hok.items_mem hmem) now
      obtain ⟨q1, -⟩ := peek_is_next_pull d.cache E now none left hok.good.tinv r hh hlive hf
      obtain ⟨p1, -⟩ := pull_end d.cache E now none left hok.good.tinv r hh hlive hf
      rw [hpk, q1, p1]
      simp only [Option.map_some]
      rw [hv]
      rfl
  · rw [hm]
    exact hr.of_core (peek_core d n E now left hok)

theorem peek_okN (d : Deque) (n : Nat) (E : Externals) (now : Int) (left : Bool) (hok : OkN d n) :
    OkN (d.peek E now left).1 n :=
  hok.of_core (peek_good d.cache E now none left false false hok.good) (peek_core d n E now left hok)

/-! ### `pop` / `popleft` -/

/-- what `pop` / `popleft` leave behind when there is an end item `r` -/
theorem pop_state (d : Deque) (n : Nat) (E : Externals) (now : Int) (left : Bool) (hok : OkN d n)
    (r : Row) (hh : (if left then (items d).head? else (items d).getLast?) = some r) :
    let d' := (d.pop E now left).1
    Cache.Good d'.cache ∧ d'.cache.cfg = d.cache.cfg ∧ d'.cache.statistics = d.cache.statistics ∧
    (∀ a ∈ d'.cache.rows, a ∈ d.cache.rows) ∧
    (∀ a ∈ d'.cache.rows, entryOfRow d'.cache a = entryOfRow d.cache a) ∧
    items d' = (if left then (items d).tail else (items d).dropLast) := by
  intro d'
  have hmem : r ∈ items d := by
    cases left with
    | true => exact List.mem_of_head? hh
    | false => exact List.mem_of_getLast? hh
  obtain ⟨hf, -⟩ := hok.end_value hmem E
  have hlive := hok.unexpired (hok.items_mem hmem) now
  have hqh : qhead d.cache none left = some r := by rw [drf_qhead_eq]; exact hh
  have hc' : d'.cache = pullTake d.cache E r := drf_pull_one d.cache E now left r hqh hlive hf
  have hg' : Cache.Good d'.cache := pull_good d.cache E now none left false false hok.good
  have hcore := drf_pullTake_zero d.cache E r hok.good.depth
  rw [← hc'] at hcore
  have hrows : d'.cache.rows = d.cache.rows.filter (fun a => ![r.rowid].contains a.rowid) :=
    congrArg Core.rows hcore
  have hfiles : d'.cache.files = d.cache.files.filter (fun p => ![r.file].contains (some p.1)) :=
    congrArg Core.files hcore
  have hsub : ∀ a ∈ d'.cache.rows, a ∈ d.cache.rows := by
    intro a ha; rw [hrows] at ha; exact (List.mem_filter.1 ha).1
  refine ⟨hg', congrArg Core.cfg hcore, congrArg Core.statistics hcore, hsub, ?_, ?_⟩
  · intro a ha
    exact rf_ent_mono (a := d'.cache) (b := d.cache)
      (by intro p hp; rw [hfiles] at hp; exact (List.mem_filter.1 hp).1) hok.good.finv.nodup
      (rf_good_ref hg' ha)
  · exact (pull_end d.cache E now none left hok.good.tinv r hh hlive hf).2

theorem pull_cfg (d : Deque) (n : Nat) (E : Externals) (now : Int) (left : Bool) (hok : OkN d n) :
    (d.cache.pull E now none left false false).1.cfg = d.cache.cfg := by
  cases hh : (if left then (items d).head? else (items d).getLast?) with
  | none =>
    have hqh : qhead d.cache none left = none := by rw [drf_qhead_eq]; exact hh
    rw [drf_pull_none d.cache E now left hqh]
    exact congrArg Core.cfg (drf_pullSel_core _ hok.good.depth)
  | some r => exact (pop_state d n E now left hok r hh).2.1

theorem pop_drefines (d : Deque) (m : DList) (n : Nat) (E : Externals) (now : Int) (left : Bool)
    (hok : OkN d n) (hr : DRefines d m) :
    (d.pop E now left).2 = (DSpec.pop m E d.cache.cfg left).2 ∧
    DRefines (d.pop E now left).1 (DSpec.pop m E d.cache.cfg left).1 := by
  have hpop : (d.pop E now left).2 = indexErr (d.cache.pull E now none left false false).2 := rfl
  unfold DSpec.pop
  rw [← hr.1, drf_end_map]
  cases hh : (if left then (items d).head? else (items d).getLast?) with
  | none =>
    have he := drf_end_none hh
    simp only [Option.map_none]
    refine ⟨by rw [hpop, (pull_empty d.cache E now none left false false he).1]; rfl, ?_⟩
    have hqh : qhead d.cache none left = none := by rw [drf_qhead_eq]; exact hh
    have hc : core (d.pop E now left).1.cache = core d.cache := by
      show core (d.cache.pull E now none left false false).1 = _
      rw [drf_pull_none d.cache E now left hqh, drf_pullSel_core _ hok.good.depth]
    exact hr.of_core hc
  | some r =>
    have hmem : r ∈ items d := by
      cases left with
      | true => exact List.mem_of_head? hh
      | false => exact List.mem_of_getLast? hh
    obtain ⟨hf, hv⟩ := hok.end_value hmem E
    have hlive := hok.unexpired (hok.items_mem hmem) now
    obtain ⟨p1, -⟩ := pull_end d.cache E now none left hok.good.tinv r hh hlive hf
    obtain ⟨-, -, -, -, hent, hitems⟩ := pop_state d n E now left hok r hh
    simp only [Option.map_some]
    refine ⟨by rw [hpop, p1, hv]; rfl, ?_, hr.2⟩
    show (items (d.pop E now left).1).map (entryOfRow (d.pop E now left).1.cache) = _
    have hmap : (items (d.pop E now left).1).map (entryOfRow (d.pop E now left).1.cache) =
        (items (d.pop E now left).1).map (entryOfRow d.cache) := by
      apply List.map_congr_left
      intro a ha
      exact hent a (Ok.mem_rows ha)
    rw [hmap, hitems]
    cases left with
    | true => simp only [if_true, List.map_tail]
    | false => simp only [Bool.false_eq_true, if_false, List.map_dropLast]

theorem pop_okN (d : Deque) (n : Nat) (E : Externals) (now : Int) (left : Bool) (hok : OkN d n) :
    OkN (d.pop E now left).1 n := by
  cases hh : (if left then (items d).head? else (items d).getLast?) with
  | none =>
    have hqh : qhead d.cache none left = none := by rw [drf_qhead_eq]; exact hh
    have hc : core (d.pop E now left).1.cache = core d.cache := by
      show core (d.cache.pull E now none left false false).1 = _
      rw [drf_pull_none d.cache E now left hqh, drf_pullSel_core _ hok.good.depth]
    exact hok.of_core (pull_good d.cache E now none left false false hok.good) hc
  | some r =>
    obtain ⟨hg, hcfg, hst, hsub, hent, hitems⟩ := pop_state d n E now left hok r hh
    refine hok.shrink hg hcfg hst rfl hsub hent ?_
    rw [hitems]
    cases left <;> simp

/-! ### `append` / `appendleft` -/

/-- is a list of length `k` longer than the bound? -/
def overLen (ml : Option Nat) (k : Nat) : Bool :=
  match ml with
  | none => false
  | some m => decide (m < k)

/-- keep at most `ml` items: drop one from the far end (`left`: the back, else the front) -/
def trimTo {α} (ml : Option Nat) (left : Bool) (L : List α) : List α :=
  if overLen ml L.length then (if left then L.dropLast else L.tail) else L

theorem trimTo_map {α β} (f : α → β) (ml : Option Nat) (left : Bool) (L : List α) :
    (trimTo ml left L).map f = trimTo ml left (L.map f) := by
  unfold trimTo
  rw [List.length_map]
  cases overLen ml L.length <;> cases left <;> simp

theorem trimTo_length_le {α} (ml : Option Nat) (left : Bool) (L : List α) :
    (trimTo ml left L).length ≤ L.length := by
  unfold trimTo
  cases overLen ml L.length <;> cases left <;> simp

theorem trimTo_mem {α} {ml : Option Nat} {left : Bool} {L : List α} {a : α} (h : a ∈ trimTo ml left L) :
    a ∈ L := by
  unfold trimTo at h
  cases ho : overLen ml L.length <;> cases left <;> simp only [ho, Bool.false_eq_true, if_false, if_true] at h
  · exact h
  · exact h
  · exact List.mem_of_mem_tail h
  · exact List.dropLast_subset L h

/-- `DSpec.append` when the value can be stored -/
theorem spec_append_some (m : DList) (E : Externals) (cfg : Cfg) (v : PyVal) (left : Bool) (e : Spec.Entry)
    (h : entryFor E cfg v = some e) :
    DSpec.append m E cfg v left =
      ({ m with items := trimTo m.maxlen left (if left then e :: m.items else m.items ++ [e]) }, .none) := by
  unfold DSpec.append trimTo DList.over overLen
  rw [h]
  cases left <;> rfl

theorem spec_append_none (m : DList) (E : Externals) (cfg : Cfg) (v : PyVal) (left : Bool)
    (h : entryFor E cfg v = none) :
    DSpec.append m E cfg v left = (m, .exc "UnicodeEncodeError") := by
  unfold DSpec.append
  rw [h]

/-- the two ways `entryFor` can go, in the terms of the model's `push` -/
theorem entryFor_cases (E : Externals) (cfg : Cfg) (v : PyVal) :
    (entryFor E cfg v = none ∧
      match place E cfg.disk cfg.minFileSize v false with
      | .error _ => True
      | .ok p => bindable (entryOf p none .null).val = false) ∨
    (∃ p, place E cfg.disk cfg.minFileSize v false = .ok p ∧
      bindable (entryOf p none .null).val = true ∧ entryFor E cfg v = some (entryOf p none .null)) := by
  unfold entryFor
  cases hpl : place E cfg.disk cfg.minFileSize v false with
  | error e => exact .inl ⟨rfl, trivial⟩
  | ok p =>
    cases hb : bindable (entryOf p none .null).val with
    | false => exact .inl ⟨by simp [hb], hb⟩
    | true => exact .inr ⟨p, rfl, hb, by simp [hb]⟩

theorem tooLong_eq (d : Deque) (c : Cache) (k : Nat) (hc : c.count = (k : Int)) :
    d.tooLong c = overLen d.maxlen k := by
  unfold tooLong overLen
  cases d.maxlen with
  | none => rfl
  | some m =>
    simp only [hc, gt_iff_lt, Int.ofNat_lt]

theorem OkN.allq' {d : Deque} {n : Nat} (h : OkN d n) : ∀ r ∈ d.cache.rows, r ∈ qrows d.cache.rows none := h.allq

theorem OkN.items_length {d : Deque} {n : Nat} (h : OkN d n) : (items d).length = d.cache.rows.length :=
  qrows_length_all h.allq'

theorem items_def (d : Deque) : items d = d.cache.queueRows none := rfl

theorem entryOfRow_eq (c : Cache) (r : Row) : entryOfRow c r = rf_ent c r := rfl

/-- everything `append` / `appendleft` do to the state -/
theorem append_state (d : Deque) (n : Nat) (E : Externals) (now : Int) (v : PyVal) (left : Bool)
    (hok : OkN d (n + 1)) :
    (entryFor E d.cache.cfg v = none ∧ (d.append E now v left).2 = .exc "UnicodeEncodeError" ∧
      Cache.Good (d.append E now v left).1.cache ∧
      core (d.append E now v left).1.cache = core d.cache) ∨
    (∃ (e : Spec.Entry) (r : Row) (num : Int), entryFor E d.cache.cfg v = some e ∧
      (d.append E now v left).2 = .none ∧ Readable e ∧
      Cache.Good (d.append E now v left).1.cache ∧
      (d.append E now v left).1.cache.cfg = d.cache.cfg ∧
      (d.append E now v left).1.cache.statistics = d.cache.statistics ∧
      items (d.append E now v left).1 =
        trimTo d.maxlen left (if left then r :: items d else items d ++ [r]) ∧
      r ∉ d.cache.rows ∧ r.expT = none ∧ r.key = .int num ∧ qfilter none r = true ∧
      1 + (n : Int) ≤ num ∧ num + (n : Int) ≤ 999999999999998 ∧
      (∀ a ∈ (d.append E now v left).1.cache.rows,
        (a = r ∧ rf_ent (d.append E now v left).1.cache a = e) ∨
        (a ∈ d.cache.rows ∧ rf_ent (d.append E now v left).1.cache a = rf_ent d.cache a))) := by
  have hg := hok.good
  have hx : pushed d E now v left = (d.cache.tbegin.push E now v none (!left) none false .null).1 := rfl
  rcases entryFor_cases E d.cache.cfg v with ⟨hef, hfail⟩ | ⟨p, hpl, hbind, hef⟩
  · -- the value cannot be stored: the push raises, the block is rolled back
    left
    obtain ⟨hg', hc', hout⟩ := drf_append_fail d.cache E now v left hg hok.qok hok.origin
      (fun r hr k hk => by have := hok.room r hr k hk; constructor <;> omega) hfail
    obtain ⟨h1, h2⟩ := append_exc d E now v left _ hout
    rw [h1]
    exact ⟨hef, h2, hg', hc'⟩
  · -- the value is stored
    right
    obtain ⟨r, num, hBI, -, hR, hQ, hcfg, hst, hrexp, hrkey, hb1, hb2, hfsub, hrent, hout⟩ :=
      drf_stage_push d.cache E now v left n hg hok.pol hok.noexp hok.qok hok.origin hok.room hok.originN
        hpl hbind
    have hk : pushOut d E now v left = .val (.int num) := hout
    have hnone := append_out d E now v left _ hk
    rw [items_def (d.append E now v left).1, append_cache d E now v left _ hk]
    have hre : Readable (entryOf p none .null) := drf_place_readable E _ _ v p hpl none .null
    rw [← hx] at hBI hR hQ hcfg hst hfsub hrent
    have hrnot : r ∉ d.cache.rows := by
      intro hr
      have hasc := hBI.tinv.tbl.asc
      unfold RowidsAsc at hasc
      rw [hR, List.pairwise_append] at hasc
      have := hasc.2.2 r hr r (by simp)
      omega
    have hrq : r ∈ (pushed d E now v left).queueRows none := by
      rw [hQ]; cases left <;> simp
    have hrqf : qfilter none r = true := (mem_qrows.1 (by rw [← queueRows_eq]; exact hrq)).2
    have hcount : (pushed d E now v left).count =
        (((if left then r :: items d else items d ++ [r]).length : Nat) : Int) := by
      rw [hBI.tinv.tbl.count, hR]
      have := hok.items_length
      cases left <;> simp [this]
    have htl := tooLong_eq d (pushed d E now v left) _ hcount
    generalize pushed d E now v left = X at hBI hR hQ hcfg hst hfsub hrent hrq htl ⊢
    have hentx : ∀ a ∈ X.rows,
        (a = r ∧ rf_ent X a = entryOf p none .null) ∨ (a ∈ d.cache.rows ∧ rf_ent X a = rf_ent d.cache a) := by
      intro a ha
      rw [hR] at ha
      rcases List.mem_append.1 ha with ha | ha
      · right
        exact ⟨ha, (rf_ent_mono hfsub (drf_BI_nodup hBI) (rf_good_ref hg ha)).symm⟩
      · left
        simp only [List.mem_singleton] at ha
        subst ha
        exact ⟨rfl, hrent⟩
    have hrdx : ∀ a ∈ X.rows, drf_Readable (rf_ent X a) := by
      intro a ha
      rcases hentx a ha with ⟨-, h2⟩ | ⟨h1, h2⟩
      · rw [h2]; exact hre
      · rw [h2]; exact hok.readable a h1
    have hexpx : ∀ a ∈ X.rows, a.expT = none := by
      intro a ha
      rw [hR] at ha
      rcases List.mem_append.1 ha with ha | ha
      · exact hok.noexp a ha
      · simp only [List.mem_singleton] at ha; subst ha; exact hrexp
    have hne : d.tooLong X = true → X.queueRows none ≠ [] := by
      intro _; rw [hQ]; cases left <;> simp
    obtain ⟨hg', hc', hs', hq', he'⟩ := drf_stage_finish X E now (d.tooLong X) (!left) hBI hrdx hexpx hne
    refine ⟨entryOf p none .null, r, num, hef, hnone, hre, hg', hc'.trans hcfg, hs'.trans hst, ?_, hrnot, hrexp,
      hrkey, hrqf, hb1, hb2, ?_⟩
    · rw [hq', hQ]
      unfold trimTo
      rw [← htl]
      cases d.tooLong X <;> cases left <;> rfl
    · intro a ha
      obtain ⟨hax, hent⟩ := he' a ha
      rcases hentx a hax with ⟨h1, h2⟩ | ⟨h1, h2⟩
      · exact .inl ⟨h1, hent.trans h2⟩
      · exact .inr ⟨h1, hent.trans h2⟩

/-- `append` / `appendleft`: same result as the specification, relation preserved.  A value that
cannot be stored raises UnicodeEncodeError on both sides and changes nothing (the model rolls the
block back; `append_propagates_error` is a concrete instance). -/
theorem append_drefines (d : Deque) (m : DList) (n : Nat) (E : Externals) (now : Int) (v : PyVal)
    (left : Bool) (hok : OkN d (n + 1)) (hr : DRefines d m) :
    (d.append E now v left).2 = (DSpec.append m E d.cache.cfg v left).2 ∧
    DRefines (d.append E now v left).1 (DSpec.append m E d.cache.cfg v left).1 := by
  rcases append_state d n E now v left hok with ⟨hef, hout, -, hc⟩ |
    ⟨e, r, num, hef, hout, -, -, -, -, hitems, hrnot, -, -, -, -, -, hent⟩
  · rw [spec_append_none m E _ v left hef]
    refine ⟨hout, ?_⟩
    have h := hr.of_core hc
    have hd : (d.append E now v left).1 = { d with cache := (d.append E now v left).1.cache } := by
      show _ = ({ cache := (d.append E now v left).1.cache, maxlen := d.maxlen } : Deque)
      rw [← append_maxlen d E now v left]
    rw [hd]
    exact h
  · rw [spec_append_some m E _ v left e hef]
    refine ⟨hout, ?_, (append_maxlen d E now v left).trans hr.2⟩
    show (items (d.append E now v left).1).map (entryOfRow (d.append E now v left).1.cache) =
      trimTo m.maxlen left (if left then e :: m.items else m.items ++ [e])
    have hmap : (items (d.append E now v left).1).map (entryOfRow (d.append E now v left).1.cache) =
        (items (d.append E now v left).1).map (fun a => if a = r then e else rf_ent d.cache a) := by
      apply List.map_congr_left
      intro a ha
      rcases hent a (Ok.mem_rows ha) with ⟨h1, h2⟩ | ⟨h1, h2⟩
      · rw [entryOfRow_eq, h2, if_pos h1]
      · have hne : a ≠ r := fun h => hrnot (h ▸ h1)
        rw [entryOfRow_eq, h2, if_neg hne]
    have hq : (items d).map (fun a => if a = r then e else rf_ent d.cache a) = m.items := by
      rw [← hr.1]
      apply List.map_congr_left
      intro a ha
      have hne : a ≠ r := fun h => hrnot (h ▸ Ok.mem_rows ha)
      rw [if_neg hne]; rfl
    rw [hmap, hitems, trimTo_map, hr.2]
    cases left with
    | true => simp only [if_true, List.map_cons, hq]
    | false => simp only [Bool.false_eq_true, if_false, List.map_append, List.map_cons, List.map_nil, hq, if_true]

theorem appendleft_drefines (d : Deque) (m : DList) (n : Nat) (E : Externals) (now : Int) (v : PyVal)
    (hok : OkN d (n + 1)) (hr : DRefines d m) :
    (d.append E now v true).2 = (DSpec.append m E d.cache.cfg v true).2 ∧
    DRefines (d.append E now v true).1 (DSpec.append m E d.cache.cfg v true).1 :=
  append_drefines d m n E now v true hok hr

theorem append_cfg (d : Deque) (n : Nat) (E : Externals) (now : Int) (v : PyVal) (left : Bool)
    (hok : OkN d (n + 1)) : (d.append E now v left).1.cache.cfg = d.cache.cfg := by
  rcases append_state d n E now v left hok with ⟨-, -, -, hc⟩ | ⟨e, r, num, -, -, -, -, hcfg, -⟩
  · exact congrArg Core.cfg hc
  · exact hcfg

/-- `append` / `appendleft` use up one unit of the budget -/
theorem append_okN (d : Deque) (n : Nat) (E : Externals) (now : Int) (v : PyVal) (left : Bool)
    (hok : OkN d (n + 1)) : OkN (d.append E now v left).1 n := by
  rcases append_state d n E now v left hok with ⟨-, -, hg', hc⟩ |
    ⟨e, r, num, -, -, hre, hg', hcfg, hst, hitems, hrnot, hrexp, hrkey, hrqf, hb1, hb2, hent⟩
  · have h := hok.mono.of_core hg' hc
    have hd : (d.append E now v left).1 = { d with cache := (d.append E now v left).1.cache } := by
      show _ = ({ cache := (d.append E now v left).1.cache, maxlen := d.maxlen } : Deque)
      rw [← append_maxlen d E now v left]
    rw [hd]
    exact h
  · have hrows : ∀ a ∈ (d.append E now v left).1.cache.rows, a = r ∨ a ∈ d.cache.rows := by
      intro a ha
      rcases hent a ha with ⟨h1, -⟩ | ⟨h1, -⟩
      · exact .inl h1
      · exact .inr h1
    have hqf : ∀ a ∈ (d.append E now v left).1.cache.rows, qfilter none a = true := by
      intro a ha
      rcases hrows a ha with h | h
      · rw [h]; exact hrqf
      · exact (mem_qrows.1 (hok.allq' a h)).2
    have hqmem : ∀ a ∈ (d.append E now v left).1.cache.queueRows none, a = r ∨ a ∈ d.cache.queueRows none := by
      intro a ha
      rw [queueRows_eq] at ha
      obtain ⟨h1, h2⟩ := mem_qrows.1 ha
      rcases hrows a h1 with h | h
      · exact .inl h
      · exact .inr (by rw [queueRows_eq]; exact mem_qrows.2 ⟨h, h2⟩)
    refine ⟨hg', by rw [hcfg]; exact hok.pol, ?_, ?_, ?_, ?_, ?_, ?_, by rw [hst]; exact hok.stats, ?_, ?_⟩
    · intro a ha
      rcases hrows a ha with h | h
      · rw [h]; exact hrexp
      · exact hok.noexp a h
    · intro a ha
      rw [queueRows_eq]
      exact mem_qrows.2 ⟨ha, hqf a ha⟩
    · intro a ha
      rcases hqmem a ha with h | h
      · rw [h, hrkey]
        exact ⟨num, rfl, rfl, by omega, by omega⟩
      · exact hok.qok a h
    · intro a ha k hk
      rcases hqmem a ha with h | h
      · rw [h, hrkey] at hk
        have : num = k := by simpa [queueNum] using hk
        subst this
        exact ⟨hb1, hb2⟩
      · have := hok.room a h k hk
        constructor <;> omega
    · unfold OriginOk; rw [hcfg]; exact hok.origin
    · rw [hcfg]
      have := hok.originN
      constructor <;> omega
    · intro m hm
      have hm' : d.maxlen = some m := by rw [← append_maxlen d E now v left]; exact hm
      rw [hitems]
      have hb := hok.bounded m hm'
      unfold trimTo overLen
      rw [hm']
      cases left <;> simp only [Bool.false_eq_true, if_false, if_true, List.length_cons, List.length_append,
        List.length_nil] <;> split <;> simp_all <;> omega
    · intro a ha
      rcases hent a ha with ⟨-, h2⟩ | ⟨h1, h2⟩
      · rw [entryOfRow_eq, h2]; exact hre
      · rw [entryOfRow_eq, h2]; exact hok.readable a h1

/-! ### `clear`

-- added: `0 < d.cache.cfg.page` — the page size of the `_select_delete` loop (the constant 100
in core.py, a `Cfg` field in the model, never changed by a call).  With page size 0 the loop
removes nothing; `Cache.clear_refines_needs_page` (DC/Properties/C03_Refine.lean) is the
counterexample. -/

theorem clear_rows (d : Deque) (n : Nat) (hok : OkN d n) (hpg : 0 < d.cache.cfg.page) :
    (d.clear).1.cache.rows = [] :=
  (clear_all d.cache hok.good.tinv.tbl.asc hok.good.tinv.tbl.pos hpg).1

theorem clear_drefines (d : Deque) (m : DList) (n : Nat) (hok : OkN d n) (hr : DRefines d m)
    (hpg : 0 < d.cache.cfg.page) -- added: page size of the removal loop
    : (d.clear).2 = (DSpec.clear m).2 ∧ DRefines (d.clear).1 (DSpec.clear m).1 := by
  refine ⟨rfl, ?_, hr.2⟩
  show ((d.clear).1.cache.queueRows none).map _ = []
  rw [queueRows_eq, clear_rows d n hok hpg]
  rfl

theorem clear_okN (d : Deque) (n : Nat) (hok : OkN d n) : OkN (d.clear).1 n := by
  by_cases hpg : 0 < d.cache.cfg.page
  · have hrows := clear_rows d n hok hpg
    refine hok.shrink (clear_good d.cache hok.good) (rf_clear_cfg d.cache) (drf_clear_stats d.cache) rfl
      ?_ ?_ ?_
    · intro a ha; rw [hrows] at ha; cases ha
    · intro a ha; rw [hrows] at ha; cases ha
    · show ((d.clear).1.cache.queueRows none).length ≤ _
      rw [queueRows_eq, hrows]
      exact Nat.zero_le _
  · exact hok.of_core (clear_good d.cache hok.good)
      (drf_clear_page0 d.cache hok.good.depth (by omega))

/-! ### `deque[i]`

-- added: `d.cache.cfg.disk = .pickle` — `getitem` (and iteration) look the row up again through
`Disk.get` / `Disk.put` of its integer key; with `JSONDisk` that round trip fails
(`exDqJson_getitem` in DC/Properties/C11.lean is the counterexample). -/

theorem index_map {α β} (f : α → β) (l : List α) (i : Int) :
    DSpec.index (l.map f) i = (DSpec.index l i).map f := by
  unfold DSpec.index
  rw [List.length_map]
  split
  · simp
  · split
    · simp
    · rfl

/-- positional access of the model is Python indexing on the items -/
theorem rowAt_index (d : Deque) (n : Nat) (i : Int) (hok : OkN d n) :
    d.rowAt i = DSpec.index (items d) i := by
  have hL : sortedRows d.cache = items d :=
    isort_keyRaw_eq_qrows hok.good.tinv.tbl.uniq hok.good.tinv.tbl.nonnull hok.allq'
  have hc : d.cache.count = ((items d).length : Int) := by
    rw [hok.good.tinv.tbl.count, hok.items_length]
  obtain ⟨h1, h2, h3⟩ := rowAt_eq d (items d) hL hc i
  unfold DSpec.index
  by_cases h0 : 0 ≤ i
  · rw [if_pos h0]
    by_cases hlt : i < ((items d).length : Int)
    · exact h1 ⟨h0, hlt⟩
    · rw [h3 (.inl (by omega))]
      symm
      rw [List.getElem?_eq_none_iff]
      omega
  · rw [if_neg h0]
    by_cases hge : -((items d).length : Int) ≤ i
    · rw [if_pos hge]
      exact h2 ⟨hge, by omega⟩
    · rw [if_neg hge]
      exact h3 (.inr (by omega))

/-- looking an item up again by its key finds it (pickle disk) -/
theorem get_item (d : Deque) (n : Nat) (E : Externals) (now : Int) (r : Row) (hok : OkN d n)
    (hdisk : d.cache.cfg.disk = .pickle) (hr : r ∈ d.cache.rows) :
    (d.cache.get E now (keyOfRow E d.cache r) false false false).2 =
      valueOf (entryOfRow d.cache r) E d.cache.cfg ∧
    (d.cache.get E now (keyOfRow E d.cache r) false false false).2 ≠ .default := by
  obtain ⟨k, -, hk2, hk3, hk4⟩ := hok.qok r (hok.allq r hr)
  have hk : r.key = .int k := hk2.symm
  have hraw := qfilter_raw (mem_qrows.1 (hok.allq' r hr)).2
  have hi : inI64 k = true := by
    unfold inI64
    simp only [Bool.and_eq_true, decide_eq_true_eq]
    omega
  obtain ⟨hf, hv⟩ := drf_valueOf d.cache E r (hok.href hr) (hok.readable r hr)
  have hg := get_int_row d.cache E now r k hok.good.tinv hr hk hraw hi (hok.noexp r hr) hok.stats hok.pol
    hdisk hf
  refine ⟨hg.trans hv.symm, ?_⟩
  show (d.cache.get E now (DC.get E d.cache.cfg.disk r.key r.raw) false false false).2 ≠ .default
  rw [hg]
  exact fetchedOut_ne_default _

theorem getitem_core (d : Deque) (n : Nat) (E : Externals) (now : Int) (i : Int) (hok : OkN d n) :
    core (d.getitem E now i).1.cache = core d.cache ∧ Cache.Good (d.getitem E now i).1.cache := by
  unfold getitem
  cases d.rowAt i with
  | none => exact ⟨rfl, hok.good⟩
  | some r =>
    exact ⟨rf_get_core d.cache E now _ false false false hok.good.depth hok.pol,
      get_good d.cache E now _ false false false hok.good⟩

theorem getitem_eta (d : Deque) (E : Externals) (now : Int) (i : Int) :
    (d.getitem E now i).1 = { d with cache := (d.getitem E now i).1.cache } := by
  unfold getitem
  cases d.rowAt i <;> rfl

theorem getitem_drefines (d : Deque) (m : DList) (n : Nat) (E : Externals) (now : Int) (i : Int)
    (hok : OkN d n) (hr : DRefines d m)
    (hdisk : d.cache.cfg.disk = .pickle) -- added: the keys are read back by the pickle `Disk`
    : (d.getitem E now i).2 = (DSpec.getitem m E d.cache.cfg i).2 ∧
    DRefines (d.getitem E now i).1 (DSpec.getitem m E d.cache.cfg i).1 := by
  have hm : (DSpec.getitem m E d.cache.cfg i).1 = m := by
    unfold DSpec.getitem; split <;> rfl
  refine ⟨?_, ?_⟩
  · unfold DSpec.getitem
    rw [← hr.1, index_map, ← rowAt_index d n i hok]
    cases hra : d.rowAt i with
    | none => rw [getitem_none d E now i hra]; rfl
    | some r =>
      obtain ⟨hg, hnd⟩ := get_item d n E now r hok hdisk (rowAt_mem d i r hra)
      simp only [Option.map_some]
      unfold getitem
      rw [hra]
      simp only  -- the `.default` branch of the match is discharged by `hnd`
      rw [← hg]
  · rw [hm]
    rw [getitem_eta]
    exact hr.of_core (getitem_core d n E now i hok).1

theorem getitem_okN (d : Deque) (n : Nat) (E : Externals) (now : Int) (i : Int) (hok : OkN d n) :
    OkN (d.getitem E now i).1 n := by
  obtain ⟨hc, hg⟩ := getitem_core d n E now i hok
  rw [getitem_eta]
  exact hok.of_core hg hc

/-! ### iteration: `list(deque)` / `list(reversed(deque))` -/

/-- one step of the walk of `iterVals` -/
def iterStep (E : Externals) (now : Int) (acc : Cache × List Out) (r : Row) : Cache × List Out :=
  ((acc.1.get E now (keyOfRow E acc.1 r) false false false).1,
    match (acc.1.get E now (keyOfRow E acc.1 r) false false false).2 with
    | .default => acc.2
    | o => acc.2 ++ [o])

theorem iterVals_eq (d : Deque) (E : Externals) (now : Int) (rev : Bool) :
    d.iterVals E now rev =
      ({ d with cache := ((if rev then (sortedRows d.cache).reverse else sortedRows d.cache).foldl
          (iterStep E now) (d.cache, [])).1 },
       .list ((if rev then (sortedRows d.cache).reverse else sortedRows d.cache).foldl
          (iterStep E now) (d.cache, [])).2) := rfl

theorem iter_fold (d : Deque) (n : Nat) (E : Externals) (now : Int) (hok : OkN d n)
    (hdisk : d.cache.cfg.disk = .pickle) :
    ∀ (l : List Row), (∀ r ∈ l, r ∈ d.cache.rows) → ∀ (c' : Cache) (acc : List Out),
      Cache.Good c' → core c' = core d.cache →
      core (l.foldl (iterStep E now) (c', acc)).1 = core d.cache ∧
      Cache.Good (l.foldl (iterStep E now) (c', acc)).1 ∧
      (l.foldl (iterStep E now) (c', acc)).2 =
        acc ++ l.map (fun r => valueOf (entryOfRow d.cache r) E d.cache.cfg) := by
  intro l
  induction l with
  | nil => intro _ c' acc hg hc; exact ⟨hc, hg, by simp⟩
  | cons r t ih =>
    intro hl c' acc hg hc
    have hok' : OkN { d with cache := c' } n := hok.of_core hg hc
    have hr : r ∈ c'.rows := by
      rw [show c'.rows = d.cache.rows from congrArg Core.rows hc]
      exact hl r List.mem_cons_self
    have hcfg : c'.cfg = d.cache.cfg := congrArg Core.cfg hc
    obtain ⟨hv, hnd⟩ := get_item { d with cache := c' } n E now r hok' (by show c'.cfg.disk = _; rw [hcfg]; exact hdisk) hr
    have hv' : (c'.get E now (keyOfRow E c' r) false false false).2 =
        valueOf (entryOfRow d.cache r) E d.cache.cfg := by
      rw [hv]
      show valueOf (rf_ent c' r) E c'.cfg = valueOf (rf_ent d.cache r) E d.cache.cfg
      rw [drf_ent_files (show c'.files = d.cache.files from congrArg Core.files hc) r, hcfg]
    have hnd' : (c'.get E now (keyOfRow E c' r) false false false).2 ≠ .default := hnd
    have hstep : iterStep E now (c', acc) r =
        ((c'.get E now (keyOfRow E c' r) false false false).1,
          acc ++ [valueOf (entryOfRow d.cache r) E d.cache.cfg]) := by
      unfold iterStep
      simp only  -- the `.default` branch of the match is discharged by `hnd'`
      rw [← hv']
    rw [List.foldl_cons, hstep]
    obtain ⟨h1, h2, h3⟩ := ih (fun a ha => hl a (List.mem_cons_of_mem _ ha))
      (c'.get E now (keyOfRow E c' r) false false false).1
      (acc ++ [valueOf (entryOfRow d.cache r) E d.cache.cfg])
      (get_good c' E now _ false false false hg)
      ((rf_get_core c' E now _ false false false hg.depth (by rw [hcfg]; exact hok.pol)).trans hc)
    refine ⟨h1, h2, ?_⟩
    rw [h3]
    simp

theorem iter_rows (d : Deque) (n : Nat) (rev : Bool) (hok : OkN d n) :
    (if rev then (sortedRows d.cache).reverse else sortedRows d.cache) =
      (if rev then (items d).reverse else items d) := by
  have hL : sortedRows d.cache = items d :=
    isort_keyRaw_eq_qrows hok.good.tinv.tbl.uniq hok.good.tinv.tbl.nonnull hok.allq'
  rw [hL]

theorem iter_drefines (d : Deque) (m : DList) (n : Nat) (E : Externals) (now : Int) (rev : Bool)
    (hok : OkN d n) (hr : DRefines d m)
    (hdisk : d.cache.cfg.disk = .pickle) -- added: the keys are read back by the pickle `Disk`
    : (d.iterVals E now rev).2 = (DSpec.iter m E d.cache.cfg rev).2 ∧
    DRefines (d.iterVals E now rev).1 (DSpec.iter m E d.cache.cfg rev).1 := by
  have hmem : ∀ r ∈ (if rev then (items d).reverse else items d), r ∈ d.cache.rows := by
    intro r hr'
    cases rev with
    | true => exact Ok.mem_rows (List.mem_reverse.1 hr')
    | false => exact Ok.mem_rows hr'
  rw [iterVals_eq, iter_rows d n rev hok]
  obtain ⟨h1, -, h3⟩ := iter_fold d n E now hok hdisk _ hmem d.cache [] hok.good rfl
  refine ⟨?_, hr.of_core h1⟩
  show Out.list _ = Out.list _
  rw [h3, ← hr.1]
  cases rev <;> simp [List.map_reverse, Function.comp_def]

theorem iter_fold_core (d : Deque) (n : Nat) (E : Externals) (now : Int) (hok : OkN d n) :
    ∀ (l : List Row) (c' : Cache) (acc : List Out), Cache.Good c' → core c' = core d.cache →
      core (l.foldl (iterStep E now) (c', acc)).1 = core d.cache ∧
      Cache.Good (l.foldl (iterStep E now) (c', acc)).1 := by
  intro l
  induction l with
  | nil => intro c' acc hg hc; exact ⟨hc, hg⟩
  | cons r t ih =>
    intro c' acc hg hc
    have hcfg : c'.cfg = d.cache.cfg := congrArg Core.cfg hc
    rw [List.foldl_cons]
    exact ih _ _ (get_good c' E now _ false false false hg)
      ((rf_get_core c' E now _ false false false hg.depth (by rw [hcfg]; exact hok.pol)).trans hc)

theorem iter_okN (d : Deque) (n : Nat) (E : Externals) (now : Int) (rev : Bool) (hok : OkN d n) :
    OkN (d.iterVals E now rev).1 n := by
  rw [iterVals_eq]
  obtain ⟨h1, h2⟩ := iter_fold_core d n E now hok
    (if rev then (sortedRows d.cache).reverse else sortedRows d.cache) d.cache [] hok.good rfl
  exact hok.of_core h2 h1

end DC.Deque
