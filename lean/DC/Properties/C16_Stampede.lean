/-
C16 for `memoize_stampede` (model: DC/Model/MemoStampede.lean).

  * `marker_ne_callkey`, `enoval_not_in_key`   the "recomputation in progress" marker is never the key of a call
  * `stampede_returns_f`                       every call returns `f args`, in every reachable cache state
  * `stampede_marker_none_collides`            with `None` as the sentinel it does not (the seeded defect)
  * `stampede_repeat_is_hit`                   a repeated call before expiry does not run `f`
  * `stampede_one_recompute`                   while a marker is alive no second recomputation starts
-/
import DC.Proofs.StampedeLemmas
import DC.Properties.C16

namespace DC.Memo

/-! ### marker keys are not call keys -/

/-- `marker_ne_callkey`: the marker key of ANY call differs from the key of a call in which the
sentinel does not occur -/
theorem marker_ne_callkey (cf : Conf) (a a' : List Arg) (k k' : Kwargs)
    (h : cf.sentinel ∉ cf.key a' k') : cf.markerKey a k ≠ cf.key a' k' := by
  intro heq
  apply h
  rw [← heq]
  simp [Conf.markerKey]

/-- the user's values do not contain the value `e` (ENOVAL is a private object of the library:
not a function name, not an argument, not a keyword name, not a keyword value) -/
def SentinelFree (e : Nat) (base : List Tok) (args : List Arg) (kw : Kwargs) : Prop :=
  Tok.val e ∉ base ∧ (∀ a ∈ args, a.tok ≠ Tok.val e) ∧ (∀ p ∈ kw, p.1 ≠ e ∧ p.2.tok ≠ Tok.val e)

/-- `enoval_not_in_key`: a sentinel that is a value foreign to the user's values occurs in no key
that `args_to_key` builds (whatever `typed` and `ignore` are): `Tok` needs no new constructor,
ENOVAL is one more `val` -/
theorem enoval_not_in_key (cf : Conf) (e : Nat) (args : List Arg) (kw : Kwargs)
    (hs : cf.sentinel = Tok.val e) (hf : SentinelFree e cf.base args kw) :
    cf.sentinel ∉ cf.key args kw := by
  obtain ⟨hb, ha, hk⟩ := hf
  rw [hs]
  unfold Conf.key argsToKey
  intro hm
  simp only [List.mem_append, List.mem_map, List.mem_flatMap, List.mem_cons,
    List.not_mem_nil, or_false] at hm
  rcases hm with (((hm | ⟨a, ham, hae⟩) | hm) | ⟨p, hpm, hpe⟩) | hm
  · exact hb hm
  · exact ha a (mem_keepArgs _ _ a ham) hae
  · exact absurd hm (by simp)
  · have := hk p (mem_keepKw _ _ p hpm)
    rcases hpe with hpe | hpe
    · exact this.1 (by simpa using hpe.symm)
    · exact this.2 hpe.symm
  · split at hm
    · simp only [List.mem_append, List.mem_map] at hm
      rcases hm with ⟨a, _, hae⟩ | ⟨p, _, hpe⟩
      · exact absurd hae (by simp)
      · exact absurd hpe (by simp)
    · simp at hm

/-- `None` is in every key (the separator) — so it cannot serve as the sentinel -/
theorem none_in_every_key (cf : Conf) (args : List Arg) (kw : Kwargs) : Tok.none ∈ cf.key args kw := by
  unfold Conf.key argsToKey
  simp

/-! ### every call returns what the function returns -/

/-- every entry under the key of a call of the domain holds a pair with `f` of that call and has
an expire time -/
def SInv {R} (cf : Conf) (f : List Arg → Kwargs → R) (dom : List (List Arg × Kwargs)) (c : SCache R) : Prop :=
  ∀ p ∈ dom, ∀ v t, c (cf.key p.1 p.2) = some (v, t) → (∃ d, v = Entry.pair (f p.1 p.2) d) ∧ t ≠ none

/-- calls of the domain that share a key have the same result (as in `wrapper_correct`;
`key_injective_partial` gives it when no positional argument is None) -/
def KeysOk {R} (cf : Conf) (f : List Arg → Kwargs → R) (dom : List (List Arg × Kwargs)) : Prop :=
  ∀ p ∈ dom, ∀ q ∈ dom, cf.key p.1 p.2 = cf.key q.1 q.2 → f p.1 p.2 = f q.1 q.2

theorem sinv_put_pair {R} (cf : Conf) (f : List Arg → Kwargs → R) (dom : List (List Arg × Kwargs))
    (hk : KeysOk cf f dom) (c : SCache R) (h : SInv cf f dom c) (a : List Arg) (k : Kwargs)
    (hd : (a, k) ∈ dom) (d t : Int) :
    SInv cf f dom (c.put (cf.key a k) (.pair (f a k) d) (some t)) := by
  intro p hp v t' hv
  by_cases hkey : cf.key p.1 p.2 = cf.key a k
  · rw [hkey, SCache.put_self] at hv
    simp only [Option.some.injEq, Prod.mk.injEq] at hv
    obtain ⟨rfl, rfl⟩ := hv
    exact ⟨⟨d, by rw [hk p hp (a, k) hd hkey]⟩, by simp⟩
  · rw [SCache.put_other _ _ _ _ _ hkey] at hv
    exact h p hp v t' hv

theorem sinv_put_marker {R} (cf : Conf) (f : List Arg → Kwargs → R) (dom : List (List Arg × Kwargs))
    (c : SCache R) (h : SInv cf f dom c) (mk : List Tok) (hm : ∀ p ∈ dom, mk ≠ cf.key p.1 p.2)
    (t : Option Int) : SInv cf f dom (c.put mk .marker t) := by
  intro p hp v t' hv
  rw [SCache.put_other _ _ _ _ _ (fun h => hm p hp h.symm)] at hv
  exact h p hp v t' hv

theorem sinv_drop {R} (cf : Conf) (f : List Arg → Kwargs → R) (dom : List (List Arg × Kwargs))
    (c : SCache R) (h : SInv cf f dom c) (k : List Tok) : SInv cf f dom (c.drop k) := by
  intro p hp v t hv
  unfold SCache.drop at hv
  split at hv
  · simp at hv
  · exact h p hp v t hv

/-- one call: returns `f args kw` and keeps the invariant -/
theorem scall_correct {R} (cf : Conf) (f : List Arg → Kwargs → R) (dom : List (List Arg × Kwargs))
    (e : Int) (he : cf.expire = some e) (hk : KeysOk cf f dom)
    (hs : ∀ p ∈ dom, cf.sentinel ∉ cf.key p.1 p.2)
    (c : SCache R) (h : SInv cf f dom c) (now : Int) (hit : Bool) (delta : Int)
    (args : List Arg) (kw : Kwargs) (hd : (args, kw) ∈ dom) :
    (scall cf f now hit delta c args kw).result = some (f args kw) ∧
    SInv cf f dom (scall cf f now hit delta c args kw).cache := by
  unfold scall
  cases hl : c.look (cf.key args kw) now with
  | none =>
    refine ⟨rfl, ?_⟩
    simp only [he, Option.map_some]
    exact sinv_put_pair cf f dom hk c h args kw hd delta _
  | some x =>
    obtain ⟨v, t⟩ := x
    obtain ⟨⟨d, rfl⟩, ht⟩ := h (args, kw) hd v t (SCache.look_some c _ now _ hl)
    cases t with
    | none => exact absurd rfl ht
    | some t =>
      simp only
      cases hit with
      | true => exact ⟨rfl, h⟩
      | false =>
        simp only [Bool.false_eq_true, if_false]
        cases c.look (cf.markerKey args kw) now with
        | some _ => exact ⟨rfl, h⟩
        | none =>
          exact ⟨rfl, sinv_put_marker cf f dom c h _
            (fun p hp => marker_ne_callkey cf args p.1 kw p.2 (hs p hp)) _⟩

theorem reach_sinv {R} (cf : Conf) (f : List Arg → Kwargs → R) (dom : List (List Arg × Kwargs))
    (e : Int) (he : cf.expire = some e) (hk : KeysOk cf f dom)
    (hs : ∀ p ∈ dom, cf.sentinel ∉ cf.key p.1 p.2) (c : SCache R) (hr : Reach cf f dom c) :
    SInv cf f dom c := by
  induction hr with
  | empty => intro p _ v t hv; simp [SCache.empty] at hv
  | call now hit delta args kw _ hd ih =>
    exact (scall_correct cf f dom e he hk hs _ ih now hit delta args kw hd).2
  | job now delta j _ hj ih =>
    unfold runJob
    simp only [he, Option.map_some]
    exact sinv_put_pair cf f dom hk _ ih j.1 j.2 hj delta _
  | drop k _ ih => exact sinv_drop cf f dom _ ih k

/-- `stampede_returns_f`: in EVERY cache state reachable from the empty cache by calls of the
wrapper of the same function (any instants, any outcomes of the random test, any running times),
by recomputation threads finishing whenever they like, and by entries being evicted or deleted,
every call returns exactly `f args kw` — never a TypeError, never another call's value. -/
theorem stampede_returns_f {R} (cf : Conf) (f : List Arg → Kwargs → R) (dom : List (List Arg × Kwargs))
    (e : Int) (he : cf.expire = some e) (hk : KeysOk cf f dom)
    (hs : ∀ p ∈ dom, cf.sentinel ∉ cf.key p.1 p.2)
    (c : SCache R) (hr : Reach cf f dom c) (now : Int) (hit : Bool) (delta : Int)
    (args : List Arg) (kw : Kwargs) (hd : (args, kw) ∈ dom) :
    (scall cf f now hit delta c args kw).result = some (f args kw) :=
  (scall_correct cf f dom e he hk hs c (reach_sinv cf f dom e he hk hs c hr) now hit delta args kw hd).1

/-- the same with the hypotheses on the arguments instead of on the keys: the sentinel is a
value `e` foreign to the user's values and no positional argument is None -/
theorem stampede_returns_f_user {R} (base : List Tok) (typed : Bool) (ex : Int) (en : Nat)
    (f : List Arg → Kwargs → R) (dom : List (List Arg × Kwargs))
    (hb : BaseOk base) (hn : ∀ p ∈ dom, NoNoneArg p.1)
    (hf : ∀ p ∈ dom, SentinelFree en base p.1 p.2)
    (hfun : ∀ p ∈ dom, ∀ q ∈ dom, p.1.map (·.tok) = q.1.map (·.tok) →
      (keepKw p.2 []).map (fun x => (x.1, x.2.tok)) = (keepKw q.2 []).map (fun x => (x.1, x.2.tok)) →
      (typed = true → p.1.map (·.ty) = q.1.map (·.ty) ∧ (keepKw p.2 []).map (fun x => x.2.ty) = (keepKw q.2 []).map (fun x => x.2.ty)) →
      f p.1 p.2 = f q.1 q.2)
    (c : SCache R)
    (hr : Reach { base := base, typed := typed, expire := some ex, sentinel := .val en } f dom c)
    (now : Int) (hit : Bool) (delta : Int) (args : List Arg) (kw : Kwargs) (hd : (args, kw) ∈ dom) :
    (scall { base := base, typed := typed, expire := some ex, sentinel := .val en } f now hit delta c args kw).result
      = some (f args kw) := by
  apply stampede_returns_f _ f dom ex rfl _ _ c hr now hit delta args kw hd
  · intro p hp q hq hkey
    have := key_parts base p.1 q.1 p.2 q.2 typed hb (hn p hp) (hn q hq) hkey
    exact hfun p hp q hq this.1 this.2.1 this.2.2
  · intro p hp
    exact enoval_not_in_key _ en p.1 p.2 rfl (hf p hp)

/-! ### the seeded defect: `None` as the sentinel -/

/-- `stampede_marker_none_collides`: with `key + (None,)` as the marker key, f(1) (stored at 0,
recomputation started at 1, marker alive until 6) makes the DIFFERENT call f(1, None) at 2 find
the marker under its own key: it does not return f(1, None) (the real code raises TypeError on
`result, delta = None`).  The cache state is reachable, all other hypotheses of
`stampede_returns_f` hold (the two calls have different keys). -/
theorem stampede_marker_none_collides :
    let cf : Conf := { base := [.val 9], expire := some 100, sentinel := Tok.none }
    let f : List Arg → Kwargs → Nat := fun args _ => args.length
    let one : List Arg := [⟨.val 1, 1⟩]
    let oneNone : List Arg := [⟨.val 1, 1⟩, ⟨.none, 0⟩]
    let c1 := (scall cf f 0 true 5 SCache.empty one []).cache      -- f(1): miss, stored with delta 5
    let c2 := (scall cf f 1 false 5 c1 one []).cache                -- f(1): early recomputation, marker added
    cf.markerKey one [] = cf.key oneNone [] ∧
    cf.key one [] ≠ cf.key oneNone [] ∧
    (scall cf f 1 false 5 c1 one []).job = some (one, []) ∧
    (scall cf f 2 true 5 c2 oneNone []).result = none ∧
    (scall cf f 2 true 5 c2 oneNone []).result ≠ some (f oneNone []) := by
  decide

/-- … and that state is reachable, so `stampede_returns_f` without `hs` is false -/
theorem stampede_returns_f_needs_sentinel :
    let cf : Conf := { base := [.val 9], expire := some 100, sentinel := Tok.none }
    let f : List Arg → Kwargs → Nat := fun args _ => args.length
    let dom : List (List Arg × Kwargs) := [([⟨.val 1, 1⟩], []), ([⟨.val 1, 1⟩, ⟨.none, 0⟩], [])]
    KeysOk cf f dom ∧
    ∃ c, Reach cf f dom c ∧ (scall cf f 2 true 5 c [⟨.val 1, 1⟩, ⟨.none, 0⟩] []).result ≠ some 2 := by
  intro cf f dom
  refine ⟨?_, _, Reach.call 1 false 5 [⟨.val 1, 1⟩] [] (Reach.call 0 true 5 [⟨.val 1, 1⟩] [] Reach.empty (by simp [dom])) (by simp [dom]), by decide⟩
  intro p hp q hq hkey
  simp only [dom, List.mem_cons, List.not_mem_nil, or_false] at hp hq
  rcases hp with rfl | rfl <;> rcases hq with rfl | rfl
  · rfl
  · exact absurd hkey (by decide)
  · exact absurd hkey (by decide)
  · rfl

/-- with the real sentinel (a foreign value) the same three calls are fine -/
example :
    let cf : Conf := { base := [.val 9], expire := some 100, sentinel := Tok.val 0 }
    let f : List Arg → Kwargs → Nat := fun args _ => args.length
    let c1 := (scall cf f 0 true 5 SCache.empty [⟨.val 1, 1⟩] []).cache
    let c2 := (scall cf f 1 false 5 c1 [⟨.val 1, 1⟩] []).cache
    (scall cf f 2 true 5 c2 [⟨.val 1, 1⟩, ⟨.none, 0⟩] []).result = some 2 := by decide

/-- `he` is needed: with `expire=None` the first call stores the pair without an expire time and
the second call dies on `ttl = expire_time - now` -/
theorem stampede_returns_f_needs_expire :
    let cf : Conf := { base := [.val 9], expire := none, sentinel := Tok.val 0 }
    let f : List Arg → Kwargs → Nat := fun args _ => args.length
    let c1 := (scall cf f 0 true 5 SCache.empty [⟨.val 1, 1⟩] []).cache
    (scall cf f 0 true 5 SCache.empty [⟨.val 1, 1⟩] []).result = some 1 ∧
    (scall cf f 1 true 5 c1 [⟨.val 1, 1⟩] []).result = none := by decide

/-- `hk` is needed (finding D14: f(1, None, 'a') and f(1, a=None) share a key) -/
theorem stampede_returns_f_needs_keys :
    let cf : Conf := { base := [.val 9], expire := some 100, sentinel := Tok.val 0 }
    let f : List Arg → Kwargs → Nat := fun args _ => args.length
    let c1 := (scall cf f 0 true 5 SCache.empty [⟨.val 1, 1⟩, ⟨.none, 0⟩, ⟨.val 3, 3⟩] []).cache
    (scall cf f 1 true 5 c1 [⟨.val 1, 1⟩] [(3, ⟨.none, 0⟩)]).result = some 3 ∧
    f [⟨.val 1, 1⟩] [(3, ⟨.none, 0⟩)] = 1 := by decide

/-! ### hits and the single recomputation -/

/-- a live pair and a favourable draw: served from the cache — `f` does not run, nothing is
written, no thread is started -/
theorem stampede_hit {R} (cf : Conf) (f : List Arg → Kwargs → R) (now : Int) (delta : Int)
    (c : SCache R) (args : List Arg) (kw : Kwargs) (r : R) (d t : Int)
    (h : c.look (cf.key args kw) now = some (.pair r d, some t)) :
    (scall cf f now true delta c args kw).result = some r ∧
    (scall cf f now true delta c args kw).runs = 0 ∧
    (scall cf f now true delta c args kw).job = none ∧
    (scall cf f now true delta c args kw).cache = c := by
  unfold scall
  rw [h]
  exact ⟨rfl, rfl, rfl, rfl⟩

/-- `stampede_repeat_is_hit`: if a call ran the function (a miss) at `now`, a repeated call with
the same arguments at any `now'` before `now + expire`, with the draw saying "no early
recomputation", does not run the function again and returns the same result.  (If the first call
did not run the function it was itself served from the cache.) -/
theorem stampede_repeat_is_hit {R} (cf : Conf) (f : List Arg → Kwargs → R) (e : Int)
    (he : cf.expire = some e) (now now' : Int) (hit : Bool) (delta delta' : Int) (c : SCache R)
    (args : List Arg) (kw : Kwargs)
    (hran : (scall cf f now hit delta c args kw).runs = 1) (hlt : now' < now + e) :
    let c' := (scall cf f now hit delta c args kw).cache
    (scall cf f now' true delta' c' args kw).runs = 0 ∧
    (scall cf f now' true delta' c' args kw).result = (scall cf f now hit delta c args kw).result ∧
    (scall cf f now' true delta' c' args kw).job = none := by
  intro c'
  have hmiss : c.look (cf.key args kw) now = none := by
    unfold scall at hran
    cases hl : c.look (cf.key args kw) now with
    | none => rfl
    | some x =>
      rw [hl] at hran
      obtain ⟨v, t⟩ := x
      cases v with
      | marker => simp at hran
      | pair r d =>
        cases t with
        | none => simp at hran
        | some t =>
          simp only at hran
          split at hran
          · simp at hran
          · split at hran <;> simp at hran
  have hc' : c' = c.put (cf.key args kw) (.pair (f args kw) delta) (some (now + e)) := by
    simp only [c', scall, hmiss, he, Option.map_some]
  have hres : (scall cf f now hit delta c args kw).result = some (f args kw) := by
    simp only [scall, hmiss]
  have hlook := SCache.look_put_self_live c (cf.key args kw) (.pair (f args kw) delta) (now + e) now' hlt
  rw [← hc'] at hlook
  obtain ⟨h1, h2, h3, _⟩ := stampede_hit cf f now' delta' c' args kw (f args kw) delta (now + e) hlook
  exact ⟨h2, by rw [h1, hres], h3⟩

/-- `hlt` is needed: at `now + expire` the entry is gone and the function runs again -/
theorem stampede_repeat_is_hit_needs_lt :
    let cf : Conf := { base := [.val 9], expire := some 10, sentinel := Tok.val 0 }
    let f : List Arg → Kwargs → Nat := fun args _ => args.length
    let c1 := (scall cf f 0 true 5 SCache.empty [⟨.val 1, 1⟩] []).cache
    (scall cf f 0 true 5 SCache.empty [⟨.val 1, 1⟩] []).runs = 1 ∧
    (scall cf f 9 true 5 c1 [⟨.val 1, 1⟩] []).runs = 0 ∧
    (scall cf f 10 true 5 c1 [⟨.val 1, 1⟩] []).runs = 1 := by decide

/-- `stampede_one_recompute`: while the marker of a call is alive, no call with those arguments
starts a recomputation, whatever the draw says and whatever else is in the cache -/
theorem stampede_one_recompute {R} (cf : Conf) (f : List Arg → Kwargs → R) (now : Int) (hit : Bool)
    (delta : Int) (c : SCache R) (args : List Arg) (kw : Kwargs)
    (h : (c.look (cf.markerKey args kw) now).isSome) :
    (scall cf f now hit delta c args kw).job = none := by
  unfold scall
  cases hl : c.look (cf.key args kw) now with
  | none => rfl
  | some x =>
    obtain ⟨v, t⟩ := x
    cases v with
    | marker => rfl
    | pair r d =>
      cases t with
      | none => rfl
      | some t =>
        simp only
        split
        · rfl
        · cases hm : c.look (cf.markerKey args kw) now with
          | some _ => rfl
          | none => rw [hm] at h; simp at h

/-- a call that starts a recomputation leaves a marker that is alive for `delta` (the running
time recorded with the cached pair) and starts the job for exactly its own arguments; it serves
the old value without running `f` -/
theorem stampede_job_marker {R} (cf : Conf) (f : List Arg → Kwargs → R) (now : Int) (hit : Bool)
    (delta : Int) (c : SCache R) (args : List Arg) (kw : Kwargs) (j : Job)
    (hj : (scall cf f now hit delta c args kw).job = some j) :
    j = (args, kw) ∧ (scall cf f now hit delta c args kw).runs = 0 ∧
    ∃ r d t, c.look (cf.key args kw) now = some (.pair r d, some t) ∧
      (scall cf f now hit delta c args kw).result = some r ∧
      ∀ now', now' < now + d →
        ((scall cf f now hit delta c args kw).cache.look (cf.markerKey args kw) now').isSome := by
  unfold scall at hj ⊢
  cases hl : c.look (cf.key args kw) now with
  | none => rw [hl] at hj; simp at hj
  | some x =>
    rw [hl] at hj
    obtain ⟨v, t⟩ := x
    cases v with
    | marker => simp at hj
    | pair r d =>
      cases t with
      | none => simp at hj
      | some t =>
        simp only at hj ⊢
        cases hit with
        | true => simp at hj
        | false =>
          simp only [Bool.false_eq_true, if_false] at hj ⊢
          cases hm : c.look (cf.markerKey args kw) now with
          | some _ => rw [hm] at hj; simp at hj
          | none =>
            rw [hm] at hj
            simp only [Option.some.injEq] at hj
            refine ⟨hj.symm, rfl, r, d, t, rfl, rfl, fun now' hlt => ?_⟩
            rw [SCache.look_put_self_live _ _ _ _ _ hlt]
            rfl

/-- together: after a call started a recomputation at `now`, a second early-recomputation
decision for the same arguments at any `now' < now + delta` starts no second job -/
theorem stampede_one_recompute_after {R} (cf : Conf) (f : List Arg → Kwargs → R) (now now' : Int)
    (hit hit' : Bool) (delta delta' : Int) (c : SCache R) (args : List Arg) (kw : Kwargs) (j : Job)
    (hj : (scall cf f now hit delta c args kw).job = some j) :
    ∃ d, (∃ r t, c.look (cf.key args kw) now = some (.pair r d, some t)) ∧
      (now' < now + d →
        (scall cf f now' hit' delta' (scall cf f now hit delta c args kw).cache args kw).job = none) := by
  obtain ⟨_, _, r, d, t, hl, _, hm⟩ := stampede_job_marker cf f now hit delta c args kw j hj
  exact ⟨d, ⟨r, t, hl⟩, fun hlt => stampede_one_recompute cf f now' hit' delta' _ args kw (hm now' hlt)⟩

/-- the marker must be alive: once it has expired (here delta = 5, marker set at 1, dead at 6) a
second job starts although the first may still be running -/
theorem stampede_one_recompute_needs_marker :
    let cf : Conf := { base := [.val 9], expire := some 100, sentinel := Tok.val 0 }
    let f : List Arg → Kwargs → Nat := fun args _ => args.length
    let c1 := (scall cf f 0 true 5 SCache.empty [⟨.val 1, 1⟩] []).cache
    let c2 := (scall cf f 1 false 5 c1 [⟨.val 1, 1⟩] []).cache
    (scall cf f 1 false 5 c1 [⟨.val 1, 1⟩] []).job = some ([⟨.val 1, 1⟩], []) ∧
    (scall cf f 5 false 5 c2 [⟨.val 1, 1⟩] []).job = none ∧
    (scall cf f 6 false 5 c2 [⟨.val 1, 1⟩] []).job = some ([⟨.val 1, 1⟩], []) := by decide

/-- the pair evicted between the marker and the recomputation: the next call misses, runs `f`
itself and returns the right value; the thread then overwrites the entry with the same value -/
theorem stampede_evicted_pair_recomputes :
    let cf : Conf := { base := [.val 9], expire := some 100, sentinel := Tok.val 0 }
    let f : List Arg → Kwargs → Nat := fun args _ => args.length
    let one : List Arg := [⟨.val 1, 1⟩]
    let c1 := (scall cf f 0 true 5 SCache.empty one []).cache
    let c2 := (scall cf f 1 false 5 c1 one []).cache          -- marker added, job started
    let c3 := c2.drop (cf.key one [])                          -- the pair is evicted
    (scall cf f 2 false 5 c3 one []).result = some 1 ∧ (scall cf f 2 false 5 c3 one []).runs = 1 ∧
    (scall cf f 2 false 5 c3 one []).job = none ∧
    (scall cf f 4 true 5 (runJob cf f 3 5 (scall cf f 2 false 5 c3 one []).cache (one, [])) one []).result = some 1 := by
  decide

end DC.Memo
