/-
C20 (second half) for a count that is any positive rational p/q — `DC.Recipes.QBucket`
(DC/Model/RecipesQ.lean: time in ticks of 1/p of the time unit, tally scaled by q·seconds, so
that cap = p·seconds, one token = q·seconds and the delay is a whole number of ticks).

  * `qbucket_of_nat*`        the whole-number model `Bucket` is the special case q = 1
  * `qinit_ok`, `qattempt_ok` the invariant
  * `qsingle_sleep_suffices`, `qfirst_after_deadline_passes`   liveness, for EVERY p, q
  * `qwindow_bound*`         safety: passes·q·seconds ≤ max(p,q)·seconds + window(ticks)
  * `capped_never_passes`, `capped_eq_of_ge`   the cap-before-spend variant (seeded defect)
  * `qattempt_scale`         the answers do not depend on the clock resolution (den of `tq`)
  * `qspacing_of_lt`, `qsleeper_period_of_lt`, `qwindow_bound_any_lt`   what count < 1 really does
  * `qall_calls_pass`, `qall_calls_pass_once`   n calls, any schedule: all let through, once each
-/
import DC.Proofs.RecipeRational
import DC.Properties.C20

namespace DC.Recipes

/-! ### the whole-number model is the case q = 1 -/

theorem qbucket_of_nat_init (count seconds : Nat) (now : Int) :
    QBucket.init count 1 seconds now = QBucket.ofBucket (Bucket.init count seconds now) := rfl

/-- `qbucket_of_nat`: an attempt on the embedded whole-number bucket is the embedding of the
attempt of `Bucket`, with the same answer (pass, or the same delay in the same ticks of
1/count) — no hypothesis at all -/
theorem qbucket_of_nat (b : Bucket) (now : Int) :
    (QBucket.ofBucket b).attempt now = (QBucket.ofBucket (b.attempt now).1, (b.attempt now).2) := by
  have hc := QBucket.ofBucket_cap b
  have ht := QBucket.ofBucket_token b
  have hl : (QBucket.ofBucket b).last = b.last := rfl
  have hy : (QBucket.ofBucket b).tally = b.tally := rfl
  rcases Bucket.attempt_cases b now with ⟨h1, he⟩ | ⟨h1, h2, he⟩ | ⟨h1, h2, he⟩ <;> rw [he]
  · rcases (QBucket.ofBucket b).attempt_cases now with ⟨_, hq⟩ | ⟨g1, _, _⟩ | ⟨g1, _, _⟩
    · rw [hq, hc, ht]; rfl
    · omega
    · omega
  · rcases (QBucket.ofBucket b).attempt_cases now with ⟨g1, _⟩ | ⟨_, _, hq⟩ | ⟨_, g2, _⟩
    · omega
    · rw [hq, ht]; rfl
    · omega
  · rcases (QBucket.ofBucket b).attempt_cases now with ⟨g1, _⟩ | ⟨_, g2, _⟩ | ⟨_, _, hq⟩
    · omega
    · omega
    · rw [hq, ht]; rfl

theorem qbucket_of_nat_passes (times : List Int) : ∀ (b : Bucket),
    (QBucket.ofBucket b).passes times = b.passes times := by
  induction times with
  | nil => intro b; rfl
  | cons now rest ih =>
    intro b
    rw [QBucket.passes_cons, Bucket.passes_cons, qbucket_of_nat, ih]

theorem qbucket_of_nat_run (times : List Int) : ∀ (b : Bucket),
    (QBucket.ofBucket b).run times = QBucket.ofBucket (times.foldl (fun b t => (b.attempt t).1) b) := by
  induction times with
  | nil => intro b; rfl
  | cons now rest ih =>
    intro b
    rw [QBucket.run_cons, qbucket_of_nat, ih]; rfl

/-! ### invariant -/

/-- bucket invariant: the stored tally never exceeds count and is never below min(0, count - 1)
tokens (`cap - burst` = min(0, p - q)·seconds: after a pass with count < 1 the real code stores
the NEGATIVE tally count - 1, recipes.py:300) -/
def QBucket.Ok (b : QBucket) : Prop := b.cap - b.burst ≤ b.tally ∧ b.tally ≤ b.cap

instance (b : QBucket) : Decidable b.Ok := by unfold QBucket.Ok; infer_instance

theorem qinit_ok (p q seconds : Nat) (now : Int) : (QBucket.init p q seconds now).Ok := by
  have h := (QBucket.init p q seconds now).cap_le_burst
  have hc : (QBucket.init p q seconds now).tally = (QBucket.init p q seconds now).cap := rfl
  have h0 := (QBucket.init p q seconds now).cap_nonneg
  refine ⟨?_, ?_⟩ <;> omega

/-- the invariant is kept by every attempt (at any instant whatever) -/
theorem qattempt_ok (b : QBucket) (now : Int) (h : b.Ok) : (b.attempt now).1.Ok := by
  obtain ⟨h0, h1⟩ := h
  have hb := b.attempt_burst now
  have hc := b.attempt_cap now
  have htb := b.token_le_burst
  have hcb := b.cap_le_burst
  have ht0 := b.token_nonneg
  unfold QBucket.Ok
  rw [hb, hc]
  rcases b.attempt_cases now with ⟨ht, he⟩ | ⟨ht1, ht2, he⟩ | ⟨ht1, ht2, he⟩ <;> rw [he] <;> simp only
  · omega
  · omega
  · omega

/-- time does not run backwards in the stored instant, and the parameters stay -/
theorem qattempt_last (b : QBucket) (now : Int) (hn : b.last ≤ now) :
    b.last ≤ (b.attempt now).1.last ∧ (b.attempt now).1.p = b.p ∧ (b.attempt now).1.q = b.q ∧
    (b.attempt now).1.seconds = b.seconds := by
  refine ⟨?_, b.attempt_params now⟩
  rcases b.attempt_cases now with ⟨_, he⟩ | ⟨_, _, he⟩ | ⟨_, _, he⟩ <;> rw [he]
  · exact hn
  · exact hn
  · exact Int.le_refl _

theorem qrun_ok (times : List Int) : ∀ (b : QBucket), b.Ok → (b.run times).Ok := by
  induction times with
  | nil => intro b h; exact h
  | cons now rest ih => intro b h; exact ih _ (qattempt_ok b now h)

/-! ### liveness -/

/-- a refused attempt leaves the stored state alone (no `cache.set` on that branch) -/
theorem qattempt_refused (b : QBucket) (now d : Int) (hd : (b.attempt now).2 = some d) :
    (b.attempt now).1 = b ∧ d = b.token - (b.tally + (now - b.last)) ∧ 0 < d := by
  rcases b.attempt_cases now with ⟨_, he⟩ | ⟨_, _, he⟩ | ⟨_, ht2, he⟩ <;> rw [he] at hd ⊢
  · simp at hd
  · simp at hd
  · simp only [Option.some.injEq] at hd
    exact ⟨rfl, hd.symm, by omega⟩

/-- `qsingle_sleep_suffices`: for EVERY p, q, seconds and every state (no invariant needed, count
< 1 included): after sleeping the delay it was told, a caller that nobody overtook is let
through.  (After the sleep the tally is exactly one token; 1 > count passes on the first branch
when count < 1, 1 ≥ 1 on the second when count ≥ 1.) -/
theorem qsingle_sleep_suffices (b : QBucket) (now d : Int) (hd : (b.attempt now).2 = some d) :
    0 < d ∧ ((b.attempt now).1.attempt (now + d)).2 = none := by
  obtain ⟨hb, hd', hpos⟩ := qattempt_refused b now d hd
  refine ⟨hpos, ?_⟩
  rw [hb]
  rcases b.attempt_cases (now + d) with ⟨_, he'⟩ | ⟨_, _, he'⟩ | ⟨_, ht2', _⟩
  · rw [he']
  · rw [he']
  · omega

/-- `qfirst_after_deadline_passes`: more generally, whoever attempts FIRST at or after the
deadline `now + d` is let through, however late — so among any number of waiting callers at
least one gets through per delay, and a refused attempt never makes things worse (the state is
unchanged).  Together with `qattempt_refused` this is the progress argument for "every call is
eventually let through": as long as callers are waiting, one of them passes no later than its
first attempt after the earliest deadline. -/
theorem qfirst_after_deadline_passes (b : QBucket) (now d later : Int)
    (hd : (b.attempt now).2 = some d) (hl : now + d ≤ later) :
    ((b.attempt now).1.attempt later).2 = none := by
  obtain ⟨hb, hd', _⟩ := qattempt_refused b now d hd
  rw [hb]
  rcases b.attempt_cases later with ⟨_, he'⟩ | ⟨_, _, he'⟩ | ⟨_, ht2', _⟩
  · rw [he']
  · rw [he']
  · omega

/-- `qprogress_by_deadline`: system-wide progress with any number of callers.  If an attempt at
`now` was refused with delay d, then among ANY further attempts `others` (by anybody, at any
instants) followed by an attempt at some `later ≥ now + d` (the refused caller waking up), at
least one passes: either somebody got through in the meantime, or the sleeper does.  So while
calls are waiting, passes keep happening — no later than the earliest deadline handed out; with
finitely many calls outstanding every one of them is eventually let through. -/
theorem qprogress_by_deadline (b : QBucket) (now d later : Int) (others : List Int)
    (hd : (b.attempt now).2 = some d) (hl : now + d ≤ later) :
    b.passes (others ++ [later]) ≠ [] := by
  rw [QBucket.passes_append]
  by_cases hno : b.passes others = []
  · rw [hno, QBucket.run_of_no_pass others b hno, List.nil_append, QBucket.passes_cons]
    have := qfirst_after_deadline_passes b now d later hd hl
    rw [(qattempt_refused b now d hd).1] at this
    rw [if_pos this]
    simp
  · intro h
    exact hno (List.append_eq_nil_iff.mp h).1

/-- and an attempt before the deadline is refused again, with the deadline unchanged: the delay
is exact, not merely sufficient (needs count ≥ 1: see `qearly_passes_of_lt`) -/
theorem qbefore_deadline_refused (b : QBucket) (now d earlier : Int) (hq : b.q ≤ b.p)
    (hd : (b.attempt now).2 = some d) (he : earlier < now + d) :
    (b.attempt earlier).2 = some (now + d - earlier) := by
  obtain ⟨_, hd', _⟩ := qattempt_refused b now d hd
  have := b.token_le_cap hq
  rcases b.attempt_cases earlier with ⟨ht, _⟩ | ⟨_, ht, _⟩ | ⟨_, _, he'⟩
  · omega
  · omega
  · rw [he']; simp only [Option.some.injEq]; omega

/-! ### the cap-before-spend variant -/

/-- `capped_eq_of_ge`: for count ≥ 1 capping the tally at count BEFORE the spend test changes
nothing, in any state and at any instant — which is why the defect cannot be seen with
whole-number counts -/
theorem capped_eq_of_ge (b : QBucket) (now : Int) (hq : b.q ≤ b.p) :
    b.attemptCapped now = b.attempt now := by
  have hle := b.token_le_cap hq
  rcases b.attempt_cases now with ⟨ht, he⟩ | ⟨ht1, ht2, he⟩ | ⟨ht1, ht2, he⟩ <;> rw [he]
  · have hm : min (b.tally + (now - b.last)) b.cap = b.cap := by omega
    have hge : b.cap ≥ b.token := hle
    simp only [QBucket.attemptCapped, hm, hge, if_true]
  · have hm : min (b.tally + (now - b.last)) b.cap = b.tally + (now - b.last) := by omega
    simp only [QBucket.attemptCapped, hm, ht2, if_true]
  · have hm : min (b.tally + (now - b.last)) b.cap = b.tally + (now - b.last) := by omega
    have hlt : ¬ (b.tally + (now - b.last) ≥ b.token) := by omega
    simp only [QBucket.attemptCapped, hm, hlt, if_false]

theorem capped_passes_eq_of_ge (times : List Int) : ∀ (b : QBucket), b.q ≤ b.p →
    b.passesCapped times = b.passes times := by
  induction times with
  | nil => intro b _; rfl
  | cons now rest ih =>
    intro b hq
    rw [QBucket.passesCapped_cons, QBucket.passes_cons, capped_eq_of_ge b now hq]
    obtain ⟨h1, h2, _⟩ := b.attempt_params now
    rw [ih _ (by rw [h1, h2]; exact hq)]

/-- one attempt of the capped variant with count < 1: refused, state unchanged, and the delay it
is told is at least the (1 - count)/rate that can never be made up -/
theorem capped_attempt_of_lt (b : QBucket) (now : Int) (hpq : b.p < b.q) (hs : 0 < b.seconds) :
    ∃ d, b.attemptCapped now = (b, some d) ∧ b.token - b.cap ≤ d := by
  have hlt := b.cap_lt_token hpq hs
  have hn : ¬ (min (b.tally + (now - b.last)) b.cap ≥ b.token) := by omega
  refine ⟨b.token - min (b.tally + (now - b.last)) b.cap, ?_, by omega⟩
  simp only [QBucket.attemptCapped, hn, if_false]

/-- `capped_never_passes`: with count < 1 the capped variant lets NO call through, whatever the
state, however long and however often the callers wait -/
theorem capped_never_passes (times : List Int) : ∀ (b : QBucket), b.p < b.q → 0 < b.seconds →
    b.passesCapped times = [] := by
  induction times with
  | nil => intro b _ _; rfl
  | cons now rest ih =>
    intro b hpq hs
    obtain ⟨d, he, _⟩ := capped_attempt_of_lt b now hpq hs
    rw [QBucket.passesCapped_cons, he]
    simpa using ih b hpq hs

/-- in particular sleeping the delay does not help: the variant of `qsingle_sleep_suffices` is
false for the capped attempt -/
theorem capped_sleep_does_not_suffice (b : QBucket) (now d : Int) (hpq : b.p < b.q) (hs : 0 < b.seconds)
    (_hd : (b.attemptCapped now).2 = some d) : ((b.attemptCapped now).1.attemptCapped (now + d)).2 ≠ none := by
  obtain ⟨d1, he1, _⟩ := capped_attempt_of_lt b now hpq hs
  rw [he1]
  obtain ⟨d2, he2, _⟩ := capped_attempt_of_lt b (now + d) hpq hs
  rw [he2]; simp

/-- whereas the real attempt does let calls through with count = 1/2: refused at 0 with delay 1,
passes at 1, refused with delay 3, passes at 4 … -/
example : (QBucket.init 1 2 1 0).passes [0, 1, 1, 4, 4, 7] = [1, 4, 7] := by decide
example : (QBucket.init 1 2 1 0).passesCapped [0, 1, 1, 4, 4, 7, 100, 1000] = [] := by decide

/-- `hs` is needed: with seconds = 0 every quantity is 0 and the capped variant passes -/
theorem capped_never_passes_needs_seconds :
    (QBucket.init 1 2 0 0).passesCapped [0] = [0] := by decide

/-- `hpq` is needed (count = 1) -/
theorem capped_never_passes_needs_lt :
    (QBucket.init 1 1 1 0).passesCapped [0] = [0] := by decide

/-! ### safety: the window bound

In scaled integers (window in ticks of 1/p of the time unit, i.e. window·p):

    passes · q·seconds  ≤  max(p, q)·seconds + (last - first)

i.e. passes ≤ max(count, 1) + rate·window.  For count ≥ 1 this is "count in a burst plus rate per
elapsed time"; for count < 1 the burst is ONE call (a single call is always possible: the first
attempt at any instant after the decoration passes, since tally = count + ε > count), not
"count" calls.  With q = 1 and count > 0, max(p,q)·seconds = count·seconds and the statement is
literally `window_bound` (`window_bound_from_q` below derives it). -/

/-- the induction: `times` is ANY list of instants and `b` ANY state (neither sortedness nor the
invariant is needed: the window starts at a pass, and the state right after a pass always has
min(0, count-1) ≤ tally ≤ count - 1), `p :: ps` the first passes, `post` whatever passes follow.
First claim: n passes need n tokens out of what is there plus what accrues (plus the free
allowance `burst - cap` = max(0, 1-count) that count < 1 gets from the `tally > count` test) -/
theorem qwindow_bound_aux (times : List Int) : ∀ (b : QBucket),
    ∀ (p : Int) (ps post : List Int) (l : Int),
    b.passes times = (p :: ps) ++ post → (p :: ps).getLast? = some l →
    ((ps.length : Int) + 1) * b.token ≤ b.tally + (b.burst - b.cap) + (l - b.last) ∧
    ((ps.length : Int) + 1) * b.token ≤ b.burst + (l - p) := by
  induction times with
  | nil => intro b p ps post l hp; simp [QBucket.passes] at hp
  | cons now rest ih =>
    intro b p ps post l hp hl
    have hb := b.attempt_burst now
    have hc := b.attempt_cap now
    have hk := b.attempt_token now
    have htb := b.token_le_burst
    have hcb := b.cap_le_burst
    rw [QBucket.passes_cons] at hp
    -- the two passing cases share the continuation
    have pass : ∀ (tl : Int), (b.attempt now).2 = none → (b.attempt now).1.last = now →
        (b.attempt now).1.tally = tl → tl + b.token ≤ b.tally + (now - b.last) →
        tl + b.token ≤ b.cap → b.cap - b.burst ≤ tl →
        ((ps.length : Int) + 1) * b.token ≤ b.tally + (b.burst - b.cap) + (l - b.last) ∧
        ((ps.length : Int) + 1) * b.token ≤ b.burst + (l - p) := by
      intro tl hnone hlast htl ht1 ht2 htl0
      rw [if_pos hnone] at hp
      simp only [List.cons_append, List.nil_append, List.cons.injEq] at hp
      obtain ⟨hpn, hps⟩ := hp
      subst hpn
      cases ps with
      | nil =>
        simp only [List.getLast?_singleton, Option.some.injEq] at hl
        subst hl
        simp only [List.length_nil, Int.natCast_zero, Int.zero_add, Int.one_mul]
        omega
      | cons p2 ps2 =>
        rw [List.getLast?_cons_cons] at hl
        obtain ⟨ih1, _⟩ := ih _ p2 ps2 post l hps hl
        rw [hk, hb, hc, htl, hlast] at ih1
        have hlen : (((p2 :: ps2).length : Nat) : Int) + 1 = ((ps2.length : Int) + 1) + 1 := by
          simp
        rw [hlen, Int.add_mul _ 1, Int.one_mul]
        omega
    rcases b.attempt_cases now with ⟨ht, he⟩ | ⟨ht1, ht2, he⟩ | ⟨ht1, ht2, he⟩
    · exact pass (b.cap - b.token) (by rw [he]) (by rw [he]) (by rw [he]) (by omega) (by omega)
        (by omega)
    · exact pass (b.tally + (now - b.last) - b.token) (by rw [he]) (by rw [he]) (by rw [he])
        (by omega) (by omega) (by omega)
    · have hb' : (b.attempt now).1 = b := by rw [he]
      have hsome : ¬ (b.attempt now).2 = none := by rw [he]; simp
      rw [if_neg hsome, hb', List.nil_append] at hp
      exact ih b p ps post l hp hl

/-- `qwindow_bound`: for every p, q, seconds and every arrival pattern (attempt instants in any
order, by any number of callers sharing the cache), the calls let through between the first pass
and the last number at most max(count,1) + rate·window:
passes·q·seconds ≤ max(p,q)·seconds + (last - first) with the instants in ticks of 1/p unit. -/
theorem qwindow_bound (b : QBucket) (times : List Int) (first last : Int)
    (hf : (b.passes times).head? = some first) (hl : (b.passes times).getLast? = some last) :
    ((b.passes times).length : Int) * ((b.q : Int) * b.seconds) ≤
      ((max b.p b.q : Nat) : Int) * b.seconds + (last - first) := by
  cases hps : b.passes times with
  | nil => rw [hps] at hf; simp at hf
  | cons p ps =>
    rw [hps] at hf hl
    simp only [List.head?_cons, Option.some.injEq] at hf
    subst hf
    have := (qwindow_bound_aux times b p ps [] last (by simpa using hps) hl).2
    simpa [QBucket.token, QBucket.burst] using this

/-- `qwindow_bound_any`: the same for ANY window, i.e. any run `mid` of consecutive passes
(whatever passes came before and come after) -/
theorem qwindow_bound_any (times : List Int) : ∀ (b : QBucket),
    ∀ (pre mid post : List Int) (first last : Int),
    b.passes times = pre ++ mid ++ post → mid.head? = some first → mid.getLast? = some last →
    (mid.length : Int) * ((b.q : Int) * b.seconds) ≤
      ((max b.p b.q : Nat) : Int) * b.seconds + (last - first) := by
  induction times with
  | nil =>
    intro b pre mid post first last hp hf _
    cases mid with
    | nil => simp at hf
    | cons m ms => simp [QBucket.passes] at hp
  | cons now rest ih =>
    intro b pre mid post first last hp hf hl
    cases pre with
    | nil =>
      cases mid with
      | nil => simp at hf
      | cons m ms =>
        simp only [List.head?_cons, Option.some.injEq] at hf
        subst hf
        have := (qwindow_bound_aux (now :: rest) b m ms post last (by simpa using hp) hl).2
        simpa [QBucket.token, QBucket.burst] using this
    | cons x pre' =>
      rw [QBucket.passes_cons] at hp
      obtain ⟨hp1, hp2, hp3⟩ := b.attempt_params now
      by_cases hnone : (b.attempt now).2 = none
      · rw [if_pos hnone] at hp
        simp only [List.cons_append, List.nil_append, List.cons.injEq] at hp
        have := ih _ pre' mid post first last (by simpa using hp.2) hf hl
        rw [hp1, hp2, hp3] at this
        exact this
      · rw [if_neg hnone, List.nil_append] at hp
        have := ih _ (x :: pre') mid post first last hp hf hl
        rw [hp1, hp2, hp3] at this
        exact this

/-- the bound in the units of the statement: if the instants are given in a unit of which a tick
is 1/p (so `first = p·f`, `last = p·l`), then passes·q·seconds ≤ max(p,q)·seconds + p·(l - f) -/
theorem qwindow_bound_units (b : QBucket) (times : List Int) (f l : Int)
    (hf : (b.passes times).head? = some ((b.p : Int) * f))
    (hl : (b.passes times).getLast? = some ((b.p : Int) * l)) :
    ((b.passes times).length : Int) * ((b.q : Int) * b.seconds) ≤
      ((max b.p b.q : Nat) : Int) * b.seconds + (b.p : Int) * (l - f) := by
  have := qwindow_bound b times _ _ hf hl
  rw [Int.mul_sub]
  exact this

/-- `window_bound` (C20.lean) is the case q = 1: re-derived here from `qwindow_bound` and
`qbucket_of_nat_passes`, with its statement copied verbatim -/
theorem window_bound_from_q (b : Bucket) (times : List Int) (h : b.Ok) (hsorted : times.Pairwise (· ≤ ·))
    (hfirst : ∀ t ∈ times, b.last ≤ t) (first last : Int)
    (hf : (b.passes times).head? = some first) (hl : (b.passes times).getLast? = some last) :
    ((b.passes times).length : Int) * b.seconds ≤ (b.count : Int) * b.seconds + (last - first) := by
  have _ := hsorted
  have _ := hfirst
  obtain ⟨_, _, hc, _⟩ := h
  have := qwindow_bound (QBucket.ofBucket b) times first last
    (by rw [qbucket_of_nat_passes]; exact hf) (by rw [qbucket_of_nat_passes]; exact hl)
  rw [qbucket_of_nat_passes] at this
  have hm : max b.count 1 = b.count := Nat.max_eq_left hc
  simpa [QBucket.ofBucket, hm] using this

/-- non-vacuity and tightness.  count = 5/2 per second (ticks of 1/5 s, token 2, cap 5): a burst of
two at once, the third is told to wait 1 tick = 0.2 s … -/
example : (QBucket.init 5 2 1 0).passes [0, 0, 0, 1, 2, 3, 3, 5, 20, 20, 20, 21, 22] = [0, 0, 1, 3, 5, 20, 20, 21] := by decide
/-- … and the bound is attained: 3 passes in [0,1]: 3·2 ≤ 5 + 1 -/
example : (QBucket.init 5 2 1 0).passes [0, 0, 1] = [0, 0, 1] ∧ ((3 : Int) * (2 * 1) = ((max 5 2 : Nat) : Int) * 1 + (1 - 0)) := by decide
/-- count = 1/2: the "count in a burst" reading (passes·q·seconds ≤ p·seconds + window) is FALSE —
one call passes in a window of width 0 — which is why the burst must be max(count, 1) -/
theorem qwindow_count_burst_false_of_lt :
    let b := QBucket.init 1 2 1 0
    b.passes [1] = [1] ∧ ¬ (((b.passes [1]).length : Int) * ((b.q : Int) * b.seconds) ≤ (b.p : Int) * b.seconds + (1 - 1)) := by
  decide

/-! ### the answers do not depend on the resolution of the clock

`answerTq` runs the model with the period `seconds·den` and instants `t·p` for instants given as
multiples of 1/den s.  Refining the resolution by any factor k (den ↦ den·k, every instant ↦
instant·k) scales the state and the delays by k and changes nothing else, so the answer in
seconds (delay / (p·den)) is independent of den. -/

/-- the same state at a k times finer resolution -/
def QBucket.scale (k : Nat) (b : QBucket) : QBucket :=
  { b with seconds := b.seconds * k, last := b.last * k, tally := b.tally * k }

theorem qinit_scale (p q seconds k : Nat) (now : Int) :
    (QBucket.init p q seconds now).scale k = QBucket.init p q (seconds * k) (now * k) := by
  simp [QBucket.scale, QBucket.init, Int.mul_assoc]

theorem qattempt_scale (b : QBucket) (k : Nat) (hk : 0 < k) (now : Int) :
    (b.scale k).attempt (now * k) = ((b.attempt now).1.scale k, (b.attempt now).2.map (· * (k : Int))) := by
  have hk' : (0 : Int) < (k : Int) := by omega
  have hcap : (b.scale k).cap = b.cap * k := by
    simp [QBucket.scale, QBucket.cap, Int.mul_assoc]
  have htok : (b.scale k).token = b.token * k := by
    simp [QBucket.scale, QBucket.token, Int.mul_assoc]
  have hl : (b.scale k).last = b.last * k := rfl
  have hy : (b.scale k).tally = b.tally * k := rfl
  have ht : (b.scale k).tally + (now * k - (b.scale k).last) = (b.tally + (now - b.last)) * k := by
    rw [hl, hy, Int.add_mul, Int.sub_mul]
  rcases b.attempt_cases now with ⟨h1, he⟩ | ⟨h1, h2, he⟩ | ⟨h1, h2, he⟩ <;> rw [he]
  · have g : b.cap * k < (b.tally + (now - b.last)) * k := Int.mul_lt_mul_of_pos_right h1 hk'
    rcases (b.scale k).attempt_cases (now * k) with ⟨_, hq⟩ | ⟨g1, _, _⟩ | ⟨g1, _, _⟩
    · rw [hq, hcap, htok]
      simp [QBucket.scale, QBucket.cap, QBucket.token, Int.sub_mul, Int.mul_assoc]
    · omega
    · omega
  · have g1 : (b.tally + (now - b.last)) * k ≤ b.cap * k :=
      Int.mul_le_mul_of_nonneg_right h1 (Int.le_of_lt hk')
    have g2 : b.token * k ≤ (b.tally + (now - b.last)) * k :=
      Int.mul_le_mul_of_nonneg_right h2 (Int.le_of_lt hk')
    rcases (b.scale k).attempt_cases (now * k) with ⟨f1, _⟩ | ⟨_, _, hq⟩ | ⟨_, f2, _⟩
    · omega
    · rw [hq, ht, htok]
      simp [QBucket.scale, Int.sub_mul]
    · omega
  · have g1 : (b.tally + (now - b.last)) * k ≤ b.cap * k :=
      Int.mul_le_mul_of_nonneg_right h1 (Int.le_of_lt hk')
    have g2 : (b.tally + (now - b.last)) * k < b.token * k := Int.mul_lt_mul_of_pos_right h2 hk'
    rcases (b.scale k).attempt_cases (now * k) with ⟨f1, _⟩ | ⟨_, f2, _⟩ | ⟨_, _, hq⟩
    · omega
    · omega
    · rw [hq, ht, htok]
      simp [Int.sub_mul]

theorem qpasses_scale (times : List Int) : ∀ (b : QBucket) (k : Nat), 0 < k →
    (b.scale k).passes (times.map (· * (k : Int))) = (b.passes times).map (· * (k : Int)) := by
  induction times with
  | nil => intro b k _; rfl
  | cons now rest ih =>
    intro b k hk
    rw [List.map_cons, QBucket.passes_cons, QBucket.passes_cons, qattempt_scale b k hk now]
    simp only [ih _ k hk, List.map_append]
    cases h : (b.attempt now).2 <;> simp

/-- `hk` is needed: at "resolution 0" everything collapses (an empty bucket refuses, its
0-scaled image passes) -/
theorem qattempt_scale_needs_pos :
    let b : QBucket := { p := 1, q := 1, seconds := 1, last := 0, tally := 0 }
    (b.scale 0).attempt (0 * ((0 : Nat) : Int)) ≠
      ((b.attempt 0).1.scale 0, (b.attempt 0).2.map (· * ((0 : Nat) : Int))) := by
  decide

/-! ### count < 1: what the real code does (and where it is odd)

With count < 1 the branch `elif tally >= 1` can never be taken after a pass (tally ≤ count < 1), so
every pass goes through `if tally > count` and stores count - 1 < 0.  Consequences, all proved
below: a call passes iff MORE than 1/rate has elapsed since the last pass (strictly: `>` not
`>=`), so passes are spaced by more than seconds/count; but a refused caller is told to sleep
until (2 - count)/rate after the last pass — strictly longer than necessary.  A lone caller that
obeys `sleep_func(delay)` is therefore let through once per (2 - count)·seconds/count, e.g. once
every 3 s for `throttle(cache, 0.5, 1)`, not once every 2 s.  Safety and liveness both hold; the
throttle is merely slower than its nominal rate (see REPORT.md). -/

/-- with count < 1 an attempt passes exactly when the tally exceeds count, and then stores
count - 1 -/
theorem qattempt_of_lt (b : QBucket) (now : Int) (hpq : b.p < b.q) (hs : 0 < b.seconds) :
    ((b.attempt now).2 = none ↔ b.tally + (now - b.last) > b.cap) ∧
    ((b.attempt now).2 = none → (b.attempt now).1 = { b with last := now, tally := b.cap - b.token }) := by
  have hlt := b.cap_lt_token hpq hs
  rcases b.attempt_cases now with ⟨h1, he⟩ | ⟨h1, h2, he⟩ | ⟨h1, h2, he⟩
  · rw [he]; exact ⟨⟨fun _ => h1, fun _ => rfl⟩, fun _ => rfl⟩
  · omega
  · rw [he]
    refine ⟨⟨fun h => by simp at h, fun h => by omega⟩, fun h => by simp at h⟩

/-- `qspacing_of_lt`: with count < 1 two consecutive passes (of any callers) are MORE than
1/rate = q·seconds ticks apart -/
theorem qspacing_of_lt (b : QBucket) (times pre post : List Int) (a c : Int)
    (hpq : b.p < b.q) (hs : 0 < b.seconds) (hp : b.passes times = pre ++ a :: c :: post) :
    c - a > (b.q : Int) * b.seconds := by
  obtain ⟨b', t', g1, g2, g3, hp'⟩ := QBucket.passes_suffix times b pre (a :: c :: post) hp
  obtain ⟨ha, t'', hp''⟩ := QBucket.first_pass t' b' a (c :: post) hp'
  obtain ⟨hc, _⟩ := QBucket.first_pass t'' _ c post hp''
  have hpq' : b'.p < b'.q := by rw [g1, g2]; exact hpq
  have hs' : 0 < b'.seconds := by rw [g3]; exact hs
  have hst := (qattempt_of_lt b' a hpq' hs').2 ha
  obtain ⟨e1, e2, e3⟩ := b'.attempt_params a
  have hpq'' : (b'.attempt a).1.p < (b'.attempt a).1.q := by rw [e1, e2]; exact hpq'
  have hs'' : 0 < (b'.attempt a).1.seconds := by rw [e3]; exact hs'
  have := ((qattempt_of_lt _ c hpq'' hs'').1).1 hc
  rw [b'.attempt_cap a] at this
  rw [hst] at this
  simp only at this
  have htok : b'.token = (b.q : Int) * b.seconds := by simp [QBucket.token, g2, g3]
  omega

/-- after a pass with count < 1: an immediate further attempt is told to wait (2 - count)/rate
(`2·token - cap` ticks), yet every attempt more than 1/rate (`token` ticks) after the pass is let
through, and none at or before that -/
theorem qsleeper_period_of_lt (b : QBucket) (a : Int) (hpq : b.p < b.q) (hs : 0 < b.seconds)
    (ha : (b.attempt a).2 = none) :
    ((b.attempt a).1.attempt a).2 = some (2 * b.token - b.cap) ∧ b.token < 2 * b.token - b.cap ∧
    ∀ c, (((b.attempt a).1.attempt c).2 = none ↔ c - a > b.token) := by
  have hlt := b.cap_lt_token hpq hs
  have ht0 := b.token_nonneg
  have hc0 := b.cap_nonneg
  have hst := (qattempt_of_lt b a hpq hs).2 ha
  have hex : ∃ b1 : QBucket, (b.attempt a).1 = b1 ∧ b1.cap = b.cap ∧ b1.token = b.token ∧ b1.last = a ∧
      b1.tally = b.cap - b.token ∧ b1.p = b.p ∧ b1.q = b.q ∧ b1.seconds = b.seconds :=
    ⟨_, hst, rfl, rfl, rfl, rfl, rfl, rfl, rfl⟩
  obtain ⟨b1, hb1, hc1, hk1, hl1, hy1, hp1, hq1, hs1⟩ := hex
  rw [hb1]
  refine ⟨?_, by omega, fun c => ?_⟩
  · rcases b1.attempt_cases a with ⟨h1, _⟩ | ⟨_, h2, _⟩ | ⟨_, _, he⟩
    · omega
    · omega
    · rw [he]; simp only [Option.some.injEq]; omega
  · have := (qattempt_of_lt b1 c (by rw [hp1, hq1]; exact hpq) (by rw [hs1]; exact hs)).1
    rw [this]
    constructor <;> intro h <;> omega

/-- so with count < 1 an attempt BEFORE the deadline it was given can pass: the delay is
sufficient (`qsingle_sleep_suffices`) but not exact, unlike count ≥ 1 (`qbefore_deadline_refused`).
count = 1/2: pass at 1, refused at 1 with delay 3 (deadline 4), an attempt at 3.5 passes (ticks of
1 s with den = 1; here den = 2 to have the half second) -/
theorem qearly_passes_of_lt :
    let b := ((QBucket.init 1 2 2 0).attempt 2).1   -- count 1/2, half-second ticks, passed at 1 s
    (b.attempt 2).2 = some 6 ∧ (b.attempt 7).2 = none := by decide

/-- the sharp window bound for count < 1: n passes span MORE than (n-1)/rate, in whole ticks
(n-1)·(q·seconds + 1) ≤ last - first -/
theorem qwindow_bound_aux_lt (times : List Int) : ∀ (b : QBucket), b.p < b.q → 0 < b.seconds →
    ∀ (p : Int) (ps post : List Int) (l : Int),
    b.passes times = (p :: ps) ++ post → (p :: ps).getLast? = some l →
    ((ps.length : Int) + 1) * (b.token + 1) ≤ b.tally - (b.cap - b.token) + (l - b.last) ∧
    (ps.length : Int) * (b.token + 1) ≤ l - p := by
  induction times with
  | nil => intro b _ _ p ps post l hp; simp [QBucket.passes] at hp
  | cons now rest ih =>
    intro b hpq hs p ps post l hp hl
    rw [QBucket.passes_cons] at hp
    by_cases hn : (b.attempt now).2 = none
    · have ht := (qattempt_of_lt b now hpq hs).1.1 hn
      have hst := (qattempt_of_lt b now hpq hs).2 hn
      rw [if_pos hn] at hp
      simp only [List.cons_append, List.nil_append, List.cons.injEq] at hp
      obtain ⟨hpn, hps⟩ := hp
      subst hpn
      cases ps with
      | nil =>
        simp only [List.getLast?_singleton, Option.some.injEq] at hl
        subst hl
        simp only [List.length_nil, Int.natCast_zero, Int.zero_add, Int.one_mul, Int.zero_mul]
        omega
      | cons p2 ps2 =>
        rw [List.getLast?_cons_cons] at hl
        rw [hst] at hps
        obtain ⟨ih1, _⟩ := ih { b with last := now, tally := b.cap - b.token } hpq hs p2 ps2 post l hps hl
        have hc1 : ({ b with last := now, tally := b.cap - b.token } : QBucket).cap = b.cap := rfl
        have hk1 : ({ b with last := now, tally := b.cap - b.token } : QBucket).token = b.token := rfl
        rw [hc1, hk1] at ih1
        simp only at ih1
        have hlen : (((p2 :: ps2).length : Nat) : Int) = (ps2.length : Int) + 1 := by simp
        rw [hlen, Int.add_mul _ 1, Int.one_mul]
        omega
    · rw [if_neg hn, List.nil_append, QBucket.attempt_some_state b now hn] at hp
      exact ih b hpq hs p ps post l hp hl

theorem qwindow_bound_any_lt (b : QBucket) (times pre mid post : List Int) (first last : Int)
    (hpq : b.p < b.q) (hs : 0 < b.seconds)
    (hp : b.passes times = pre ++ mid ++ post) (hf : mid.head? = some first) (hl : mid.getLast? = some last) :
    ((mid.length : Int) - 1) * ((b.q : Int) * b.seconds + 1) ≤ last - first := by
  cases mid with
  | nil => simp at hf
  | cons m ms =>
    simp only [List.head?_cons, Option.some.injEq] at hf
    subst hf
    obtain ⟨b', t', g1, g2, g3, hp'⟩ := QBucket.passes_suffix times b pre ((m :: ms) ++ post)
      (by rw [hp, List.append_assoc])
    have := (qwindow_bound_aux_lt t' b' (by rw [g1, g2]; exact hpq) (by rw [g3]; exact hs) m ms post last hp' hl).2
    have htok : b'.token = (b.q : Int) * b.seconds := by simp [QBucket.token, g2, g3]
    rw [htok] at this
    simpa using this

/-- tightness for count < 1: one pass in a window of width 0 attains `qwindow_bound`
(1·q·seconds = max(p,q)·seconds + 0), and passes q·seconds + 1 ticks apart attain the sharp bound -/
example : (QBucket.init 1 2 1 0).passes [1, 3, 4, 6, 7] = [1, 4, 7] := by decide

/-! ### every call is eventually let through (any number of callers, any schedule)

`QSys` (DC/Model/RecipesQ.lean): the calls not yet let through, each with the earliest instant of
its next attempt; a schedule picks who attempts next and how late.  NO fairness assumption and
no assumption on the instants is needed: a refused call sleeps exactly until the deadline of the
present state and is let through at its next attempt unless somebody else got through in the
meantime — which also is progress. -/

theorem qsys_terminates (sched : List (Nat × Nat)) : ∀ (s : QSys), s.measure ≤ sched.length →
    (s.run sched).waiting = [] := by
  induction sched with
  | nil =>
    intro s h
    have h1 := tri_ge s.waiting.length
    have h0 : s.waiting.length = 0 := by
      simp only [List.length_nil, QSys.measure] at h; omega
    exact List.eq_nil_of_length_eq_zero h0
  | cons pick rest ih =>
    intro s h
    rw [QSys.run_cons]
    by_cases hne : s.waiting = []
    · rw [QSys.step_of_nil s pick hne, QSys.run_of_nil rest s hne]; exact hne
    · have := (QSys.step_measure s pick hne).1
      simp only [List.length_cons] at h
      exact ih _ (by omega)

/-- `qall_calls_pass`: n calls sharing one throttle (any p, q, seconds, count < 1 included; any
state of the bucket; any arrival instants; any schedule, however unfair, with any lateness of the
wake-ups) are ALL let through within n(n+1)/2 + n attempts in total. -/
theorem qall_calls_pass (s : QSys) (sched : List (Nat × Nat))
    (h : tri s.waiting.length + s.waiting.length ≤ sched.length) : (s.run sched).waiting = [] := by
  apply qsys_terminates
  have := List.countP_le_length (p := fun w => decide (w < s.b.deadline)) (l := s.waiting)
  unfold QSys.measure QSys.stale
  omega

/-- the bookkeeping: the state of the bucket is the run of the model over the logged attempt
instants, and the calls let through so far are exactly the calls no longer waiting — each call
is started once, and the starts are `passes` of the logged attempts, to which `qwindow_bound_any`
applies -/
theorem qsys_log (b0 : QBucket) (n : Nat) (sched : List (Nat × Nat)) : ∀ (s : QSys),
    s.b = b0.run s.log.reverse → (b0.passes s.log.reverse).length + s.waiting.length = n →
    (s.run sched).b = b0.run (s.run sched).log.reverse ∧
    (b0.passes (s.run sched).log.reverse).length + (s.run sched).waiting.length = n := by
  induction sched with
  | nil => intro s h1 h2; exact ⟨h1, h2⟩
  | cons pick rest ih =>
    intro s h1 h2
    rw [QSys.run_cons]
    cases hw : s.waiting with
    | nil => rw [QSys.step_of_nil s pick hw]; exact ih s h1 h2
    | cons w0 ws =>
      have hrun : ∀ now, b0.run (now :: s.log).reverse = (s.b.attempt now).1 := by
        intro now
        rw [List.reverse_cons, h1]
        simp [QBucket.run, List.foldl_append]
      have hpass : ∀ now, b0.passes (now :: s.log).reverse =
          b0.passes s.log.reverse ++ (if (s.b.attempt now).2 = none then [now] else []) := by
        intro now
        rw [List.reverse_cons, QBucket.passes_append, ← h1, QBucket.passes_cons]
        simp [QBucket.passes]
      have hi : pick.1 % (ws.length + 1) < (w0 :: ws).length := by
        simp only [List.length_cons]; exact Nat.mod_lt _ (Nat.succ_pos _)
      rw [hw] at h2
      rcases QSys.step_cases s pick w0 ws hw with ⟨hn, he⟩ | ⟨d, hd, he⟩ <;> rw [he]
      · apply ih
        · exact (hrun _).symm
        · simp only
          rw [hpass, if_pos hn, List.length_append, List.length_eraseIdx, if_pos hi]
          simp only [List.length_cons, List.length_nil] at h2 ⊢
          omega
      · apply ih
        · simp only
          rw [hrun, QBucket.attempt_some_state s.b _ (by rw [hd]; simp)]
        · simp only
          rw [hpass, hd]
          simp only [List.length_set]
          simpa using h2

/-- together: from a fresh system of n calls, any long enough schedule ends with every call let
through exactly once, the starts being the model's passes over the attempts that were made -/
theorem qall_calls_pass_once (b : QBucket) (arrivals : List Int) (sched : List (Nat × Nat))
    (h : tri arrivals.length + arrivals.length ≤ sched.length) :
    let fin := ({ b := b, waiting := arrivals } : QSys).run sched
    fin.waiting = [] ∧ (b.passes fin.log.reverse).length = arrivals.length ∧ fin.b = b.run fin.log.reverse := by
  have h1 := qall_calls_pass { b := b, waiting := arrivals } sched h
  have h2 := qsys_log b arrivals.length sched { b := b, waiting := arrivals } rfl (by simp [QBucket.passes])
  refine ⟨h1, ?_, h2.1⟩
  have := h2.2
  rw [h1] at this
  simpa using this

/-- the schedule must be long enough (here: no attempt at all) -/
theorem qall_calls_pass_needs_length :
    (({ b := QBucket.init 1 2 1 0, waiting := [0] } : QSys).run []).waiting ≠ [] := by decide

/-- two calls against count = 1/2, both arriving at 0, the second one always picked first:
refused (delay 1), refused, pass at 1, refused (delay 3), pass at 4 -/
example : (({ b := QBucket.init 1 2 1 0, waiting := [0, 0] } : QSys).run [(1, 0), (0, 0), (1, 0), (0, 0), (0, 0)]).waiting = []
    ∧ (({ b := QBucket.init 1 2 1 0, waiting := [0, 0] } : QSys).run [(1, 0), (0, 0), (1, 0), (0, 0), (0, 0)]).log.reverse = [0, 0, 1, 1, 4] := by
  decide

/-! ### the hypotheses above are needed -/

/-- `capped_eq_of_ge` needs count ≥ 1 -/
theorem capped_eq_of_ge_needs_ge :
    (QBucket.init 1 2 1 0).attemptCapped 1 ≠ (QBucket.init 1 2 1 0).attempt 1 := by decide

/-- `qattempt_of_lt` needs count < 1 (count = 1 passes with tally = count on the second branch)
and seconds > 0 -/
theorem qattempt_of_lt_needs_lt :
    ((QBucket.init 1 1 1 0).attempt 0).2 = none ∧
    ¬ ((QBucket.init 1 1 1 0).tally + (0 - (QBucket.init 1 1 1 0).last) > (QBucket.init 1 1 1 0).cap) := by decide

theorem qattempt_of_lt_needs_seconds :
    ((QBucket.init 1 2 0 0).attempt 0).2 = none ∧
    ¬ ((QBucket.init 1 2 0 0).tally + (0 - (QBucket.init 1 2 0 0).last) > (QBucket.init 1 2 0 0).cap) := by decide

/-- `qspacing_of_lt`, `qwindow_bound_any_lt` need count < 1 (a burst of two at the same instant
with count = 5/2) and seconds > 0 -/
theorem qspacing_of_lt_needs_lt :
    (QBucket.init 5 2 1 0).passes [0, 0] = [] ++ 0 :: 0 :: [] ∧ ¬ ((0 : Int) - 0 > ((2 : Nat) : Int) * (1 : Nat)) := by decide

theorem qspacing_of_lt_needs_seconds :
    (QBucket.init 1 2 0 0).passes [0, 0] = [] ++ 0 :: 0 :: [] ∧ ¬ ((0 : Int) - 0 > ((2 : Nat) : Int) * (0 : Nat)) := by decide

/-- `qsleeper_period_of_lt` needs count < 1: with count = 1 the delay after a pass is exactly
1/rate -/
theorem qsleeper_period_of_lt_needs_lt :
    let b := QBucket.init 1 1 1 0
    (b.attempt 0).2 = none ∧ ¬ (b.token < 2 * b.token - b.cap) := by decide

/-- `qattempt_last` needs `b.last ≤ now` -/
theorem qattempt_last_needs_le :
    let b : QBucket := { p := 1, q := 1, seconds := 1, last := 5, tally := 10 }
    ¬ (b.last ≤ (b.attempt 0).1.last) := by decide

end DC.Recipes
