/-
C13 — a sharded cache is observably one cache with a fixed key-to-shard mapping.
-/
import DC.Proofs.LayerLemmas

namespace DC.Fanout

/-- the shard index is always a valid shard -/
theorem route_lt (f : Fanout) (E : Externals) (k : PyVal) (h : f.shards ≠ []) :
    f.route E k < f.shards.length := by
  sorry

/-- `route_pure`: the shard of a key is a function of the stored form of the key and of the
number of shards — nothing else (no process state, no hash seed, no clock, no contents) -/
theorem route_pure (f g : Fanout) (E E' : Externals) (k k' : PyVal) (s : Cache) (t : Cache)
    (hf : f.shards.head? = some s) (hg : g.shards.head? = some t)
    (hlen : f.shards.length = g.shards.length)
    (hkey : (put E s.cfg.disk k).1 = (put E' t.cfg.disk k').1) :
    f.route E k = g.route E' k' := by
  sorry

/-- Full strength "keys the cache treats as equal go to one shard" FAILS (known finding D11):
1 and 1.0 are one key for the database but are routed apart with 8 shards -/
theorem route_respects_eq_fails :
    ¬ (∀ (a b : SqlVal), a.eqv b = true → hashDb a % 8 = hashDb b % 8) := by
  sorry

/-- ... it holds for keys of one storage form: equal text, equal bytes, equal integers -/
theorem route_respects_eq_partial (a b : SqlVal) (h : a.eqv b = true)
    (hcls : (∃ x y, a = .text x ∧ b = .text y) ∨ (∃ x y, a = .blob x ∧ b = .blob y) ∨
            (∃ x y, a = .int x ∧ b = .int y)) (n : Nat) :
    hashDb a % n = hashDb b % n := by
  sorry

/-- a key-addressed call touches only the shard the key is routed to, and there it IS the
Cache call: same result, same new shard state (up to the observation bookkeeping) -/
theorem keyed_only_route (f : Fanout) (E : Externals) (k : PyVal) (op : Cache → Cache × Out)
    (j : Nat) (hj : j ≠ f.route E k) :
    (f.keyed E k op).1.shards[j]? = f.shards[j]? := by
  sorry

theorem keyed_is_shard_op (f : Fanout) (E : Externals) (k : PyVal) (op : Cache → Cache × Out)
    (s : Cache) (hs : f.shards[f.route E k]? = some s) :
    (f.keyed E k op).2 = (op { s with env := f.env, envMiss := false, trace := [] }).2 ∧
    (f.keyed E k op).1.shards[f.route E k]? = some (op { s with env := f.env, envMiss := false, trace := [] }).1 := by
  sorry

/-- the number of shards never changes -/
theorem onShard_length (f : Fanout) (i : Nat) (op : Cache → Cache × Out) :
    (f.onShard i op).1.shards.length = f.shards.length := by
  sorry

/-- `len(fanout)` is the sum of the shard lengths: every shard exactly once -/
theorem len_sum (f : Fanout) :
    (f.len).2 = .int ((f.shards.map (·.count)).sum) := by
  sorry

/-- `clear()` empties every shard (every shard exactly once), for all table and page sizes -/
theorem clear_all_shards (f : Fanout) (h : ∀ s ∈ f.shards, Cache.TableInv s ∧ 0 < s.cfg.page) :
    ∀ s ∈ (f.clear).1.shards, s.rows = [] := by
  sorry

/-- the total size limit is divided among the shards -/
theorem limit_divided (n : Nat) (c : Cfg) (stats : Bool) :
    ∀ s ∈ (Fanout.init n c stats).shards, s.cfg.limN = c.limN ∧ s.cfg.limD = c.limD * n := by
  sorry

/-- non-vacuity of the D11 witness -/
example : (SqlVal.int 1).eqv (.real 0x3ff0000000000000) = true ∧
    hashDb (.int 1) % 8 = 1 ∧ hashDb (.real 0x3ff0000000000000) % 8 = 0 := by decide +kernel

end DC.Fanout
