/-
C13 — a sharded cache is observably one cache with a fixed key-to-shard mapping.
-/
import DC.Proofs.LayerLemmas

namespace DC.Fanout

/-- the shard index is always a valid shard -/
theorem route_lt (f : Fanout) (E : Externals) (k : PyVal) (h : f.shards ≠ []) :
    f.route E k < f.shards.length := by
  unfold route
  cases hs : f.shards with
  | nil => exact absurd hs h
  | cons a t =>
    simp only [List.head?_cons, List.length_cons]
    exact Nat.mod_lt _ (Nat.succ_pos _)

/-- `route_pure`: the shard of a key is a function of the stored form of the key and of the
number of shards — nothing else (no process state, no hash seed, no clock, no contents) -/
theorem route_pure (f g : Fanout) (E E' : Externals) (k k' : PyVal) (s : Cache) (t : Cache)
    (hf : f.shards.head? = some s) (hg : g.shards.head? = some t)
    (hlen : f.shards.length = g.shards.length)
    (hkey : (put E s.cfg.disk k).1 = (put E' t.cfg.disk k').1) :
    f.route E k = g.route E' k' := by
  unfold route diskHash
  rw [hf, hg]
  simp only
  rw [hkey, hlen]

/-- Full strength "keys the cache treats as equal go to one shard" FAILS (known finding D11):
1 and 1.0 are one key for the database but are routed apart with 8 shards -/
theorem route_respects_eq_fails :
    ¬ (∀ (a b : SqlVal), a.eqv b = true → hashDb a % 8 = hashDb b % 8) := by
  intro h
  have h1 := h (.int 1) (.real 0x3ff0000000000000) (by decide +kernel)
  revert h1
  decide +kernel

/-- ... it holds for keys of one storage form: equal text, equal bytes, equal integers -/
theorem route_respects_eq_partial (a b : SqlVal) (h : a.eqv b = true)
    (hcls : (∃ x y, a = .text x ∧ b = .text y) ∨ (∃ x y, a = .blob x ∧ b = .blob y) ∨
            (∃ x y, a = .int x ∧ b = .int y)) (n : Nat) :
    hashDb a % n = hashDb b % n := by
  rcases hcls with ⟨x, y, rfl, rfl⟩ | ⟨x, y, rfl, rfl⟩ | ⟨x, y, rfl, rfl⟩
  · have : x = y := by simpa [SqlVal.eqv] using h
    rw [this]
  · have : x = y := by simpa [SqlVal.eqv] using h
    rw [this]
  · have : intNum x = intNum y := by simpa [SqlVal.eqv, SqlVal.num] using h
    rw [(intNum_inj' x y).1 this]

/-- a key-addressed call touches only the shard the key is routed to, and there it IS the
Cache call: same result, same new shard state (up to the observation bookkeeping) -/
theorem keyed_only_route (f : Fanout) (E : Externals) (k : PyVal) (op : Cache → Cache × Out)
    (j : Nat) (hj : j ≠ f.route E k) :
    (f.keyed E k op).1.shards[j]? = f.shards[j]? :=
  onShard_getElem_ne f _ j op hj

theorem keyed_is_shard_op (f : Fanout) (E : Externals) (k : PyVal) (op : Cache → Cache × Out)
    (s : Cache) (hs : f.shards[f.route E k]? = some s) :
    (f.keyed E k op).2 = (op { s with env := f.env, envMiss := false, trace := [] }).2 ∧
    (f.keyed E k op).1.shards[f.route E k]? = some (op { s with env := f.env, envMiss := false, trace := [] }).1 :=
  onShard_some f _ op s hs

/-- the number of shards never changes -/
theorem onShard_length (f : Fanout) (i : Nat) (op : Cache → Cache × Out) :
    (f.onShard i op).1.shards.length = f.shards.length := by
  unfold onShard
  split
  · rfl
  · simp

/-- `len(fanout)` is the sum of the shard lengths: every shard exactly once -/
theorem len_sum (f : Fanout) :
    (f.len).2 = .int ((f.shards.map (·.count)).sum) := by
  show sumInts (f.each (fun s => s.len)).2 = _
  rw [each_len, sumInts_ints]

/-- `clear()` empties every shard (every shard exactly once), for all table and page sizes -/
theorem clear_all_shards (f : Fanout) (h : ∀ s ∈ f.shards, Cache.TableInv s ∧ 0 < s.cfg.page) :
    ∀ s ∈ (f.clear).1.shards, s.rows = [] := by
  have hI := each_induct f (fun s => s.clear)
    (fun k acc => (∀ j : Nat, j < k → ∀ s, acc.1.shards[j]? = some s → s.rows = []) ∧
      (∀ j : Nat, k ≤ j → acc.1.shards[j]? = f.shards[j]?))
    ⟨fun j hj => absurd hj (Nat.not_lt_zero _), fun _ _ => rfl⟩ ?_
  · intro s hs
    change s ∈ (f.each (fun s => s.clear)).1.shards at hs
    obtain ⟨j, hj⟩ := List.mem_iff_getElem?.1 hs
    by_cases hjn : j < f.shards.length
    · exact hI.1 j hjn s hj
    · have := hI.2 j (by omega)
      rw [hj, List.getElem?_eq_none (by omega)] at this
      exact absurd this (by simp)
  · intro k acc hk ⟨h1, h2⟩
    have hk2 := h2 k (Nat.le_refl _)
    rw [List.getElem?_eq_getElem hk] at hk2
    obtain ⟨_, hsh⟩ := onShard_some acc.1 k (fun s => s.clear) _ hk2
    have hinv := h _ (List.getElem_mem hk)
    refine ⟨?_, ?_⟩
    · intro j hj s hs
      change (acc.1.onShard k _).1.shards[j]? = some s at hs
      by_cases hjk : j = k
      · subst hjk
        rw [hsh] at hs
        injection hs with hs
        rw [← hs]
        exact (Cache.clear_all { f.shards[j] with env := acc.1.env, envMiss := false, trace := [] }
          hinv.1.tbl.asc hinv.1.tbl.pos hinv.2).1
      · rw [onShard_getElem_ne _ _ _ _ hjk] at hs
        exact h1 j (by omega) s hs
    · intro j hj
      show (acc.1.onShard k _).1.shards[j]? = _
      rw [onShard_getElem_ne _ _ _ _ (by omega)]
      exact h2 j (by omega)

/-- the total size limit is divided among the shards -/
theorem limit_divided (n : Nat) (c : Cfg) (stats : Bool) :
    ∀ s ∈ (Fanout.init n c stats).shards, s.cfg.limN = c.limN ∧ s.cfg.limD = c.limD * n := by
  intro s hs
  unfold init at hs
  rw [List.mem_replicate] at hs
  rw [hs.2]
  exact ⟨rfl, rfl⟩


/-- non-vacuity of the D11 witness -/
example : (SqlVal.int 1).eqv (.real 0x3ff0000000000000) = true ∧
    hashDb (.int 1) % 8 = 1 ∧ hashDb (.real 0x3ff0000000000000) % 8 = 0 := by decide +kernel

end DC.Fanout
