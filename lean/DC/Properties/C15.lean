/-
C15 — Lock, RLock and BoundedSemaphore exclude across threads and processes.
Every acquire attempt / release is one atomic cache operation (C05/C06); the
theorems hold for EVERY sequence of events by any number of contenders.
-/
import DC.Proofs.RecipeLemmas

namespace DC.Recipes

/-- `lock_mutex`: at most one contender is between a successful acquire and its release -/
theorem lock_mutex (evs : List Ev) : ((LockSys.run {} evs).holding.length ≤ 1) ∧
    ((LockSys.run {} evs).st.held = true ↔ (LockSys.run {} evs).holding.length = 1) := by
  have h := LockSys.inv_run {} evs LockSys.inv_init
  unfold LockSys.Inv at h
  cases hh : (LockSys.run {} evs).st.held <;> simp_all

/-- `acquire_progress` (Lock): a free lock is acquired by the next attempt, a held one is not -/
theorem lock_attempt (s : LockSys) (who : Nat) :
    (s.step (.acquire who)).2 = !s.st.held := by
  cases hh : s.st.held <;> simp [LockSys.step, LockSt.tryAcquire, hh]

/-- `rlock_mutex`: at most one contender holds the RLock (with any depth) at any instant, and
it is the recorded owner; the recorded count is that contender's depth -/
theorem rlock_mutex (evs : List Ev) :
    let s := RLockSys.run {} evs
    (∀ a b, 0 < s.depth a → 0 < s.depth b → a = b) ∧
    (∀ a, 0 < s.depth a → s.st.owner = some a ∧ s.st.count = s.depth a) ∧
    ((∀ a, s.depth a = 0) → s.st.count = 0) := by
  intro s
  exact RLockSys.inv_facts s (RLockSys.inv_run {} evs RLockSys.inv_init)

/-- `rlock_reentrant`: an attempt succeeds exactly when the lock is free or the caller holds it -/
theorem rlock_attempt (evs : List Ev) (who : Nat) :
    let s := RLockSys.run {} evs
    (s.step (.acquire who)).2 = true ↔ ((∀ a, s.depth a = 0) ∨ 0 < s.depth who) := by
  intro s
  have hinv : s.Inv := RLockSys.inv_run {} evs RLockSys.inv_init
  obtain ⟨_, f2, f3⟩ := RLockSys.inv_facts s hinv
  obtain ⟨h1, h2⟩ := hinv
  by_cases hc : s.st.owner = some who ∨ s.st.count = 0
  · rw [RLockSys.step_acquire_ok s who hc]
    simp only [true_iff]
    rcases hc with hc | hc
    · by_cases h0 : s.st.count = 0
      · left; intro a; rw [h1 a]; split <;> simp [h0]
      · right; rw [h1 who]; simp [hc]; omega
    · left; intro a; rw [h1 a]; split <;> simp [hc]
  · rw [RLockSys.step_acquire_fail s who hc]
    simp only [Bool.false_eq_true, false_iff]
    rintro (h | h)
    · exact hc (Or.inr (f3 h))
    · exact hc (Or.inl (f2 who h).1)

/-- `rlock_release_refused`: releasing what the caller does not hold is refused and changes nothing;
releasing what it holds lowers its depth by one — so the lock is free after as many releases -/
theorem rlock_release (evs : List Ev) (who : Nat) :
    let s := RLockSys.run {} evs
    (s.depth who = 0 → (s.step (.release who)).2 = false ∧ (s.step (.release who)).1.st = s.st) ∧
    (0 < s.depth who → (s.step (.release who)).2 = true ∧
        (s.step (.release who)).1.depth who = s.depth who - 1) := by
  intro s
  have hinv : s.Inv := RLockSys.inv_run {} evs RLockSys.inv_init
  obtain ⟨_, f2, f3⟩ := RLockSys.inv_facts s hinv
  obtain ⟨h1, h2⟩ := hinv
  constructor
  · intro h0
    have hc : ¬ (s.st.owner = some who ∧ 0 < s.st.count) := by
      rintro ⟨ho, hc⟩
      have := h1 who
      simp [ho] at this
      omega
    rw [RLockSys.step_release_fail s who hc]
    exact ⟨rfl, rfl⟩
  · intro hpos
    have hc : s.st.owner = some who ∧ 0 < s.st.count := by
      obtain ⟨ho, hcnt⟩ := f2 who hpos
      exact ⟨ho, by omega⟩
    rw [RLockSys.step_release_ok s who hc]
    simp

/-- `sem_bound`: never more holders than the configured value; the free permits account for them -/
theorem sem_bound (n : Nat) (evs : List Ev) :
    let s := SemSys.run { st := { limit := n, free := n } } evs
    s.holding.length + s.st.free = n ∧ s.holding.length ≤ n := by
  intro s
  have h : s.Inv n := SemSys.inv_run n _ evs (by simp [SemSys.Inv])
  obtain ⟨h1, _⟩ := h
  exact ⟨h1, by omega⟩

/-- `sem_release_refused`: with no permit out, release is refused and changes nothing -/
theorem sem_release_refused (s : SemSt) (h : s.free = s.limit) : s.release = (s, false) := by
  simp [SemSt.release, h]

/-- `acquire_progress` (semaphore): an attempt succeeds exactly when a permit is free -/
theorem sem_attempt (s : SemSt) : (s.tryAcquire).2 = decide (0 < s.free) := by
  by_cases h : s.free > 0 <;> simp [SemSt.tryAcquire, h]

/-- non-vacuity -/
example : (LockSys.run {} [.acquire 0, .acquire 1, .release 0, .acquire 1]).holding = [1] := by decide
example : ((RLockSys.run {} [.acquire 0, .acquire 0, .acquire 1, .release 0]).st) = { owner := some 0, count := 1 } := by decide

end DC.Recipes
