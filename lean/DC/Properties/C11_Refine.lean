/-
C11 (refinement) — the Deque model refines the reference bounded list of
DC/Model/DSpec.lean: for every history of append / appendleft / extend / extendleft /
pop / popleft / peek / peekleft / len / clear / deque[i] / deque[i] = v / del deque[i] /
iteration / count / remove / comparison with a list / rotate / reverse / maxlen = k
that fits the key budget, every call returns what `collections.deque(maxlen)` over the stored
values returns, and the final states correspond (`drun_refines`).

The single-step theorems of DC/Properties/C11.lean assume the invariant `Ok`; the refinement
adds its preservation.  `Ok` cannot hold forever — every push moves one
step away from the origin and the queue keys have 15 digits — so the invariant
is budgeted: `OkN d n` = "`Ok d`, the file invariants (`Cache.Good`), at most
`maxlen` items, every item readable, and room for `n` more pushes at either end".
`step_okN : OkN d (n + cost) → OkN (d.step op).1 n`; the empty Deque satisfies
`OkN _ 499999999999999` and not `OkN _ 500000000000000` (`okN_empty`,
`okN_empty_max`); `budget_needed` shows what happens beyond the budget.

Files.
  C11_RefineBase.lean     `DRefines`, `OkN`, and the calls of the first version of this theorem
                          (append, appendleft, pop, popleft, peek, peekleft, len, clear, deque[i],
                          iteration) — unchanged text of the first version
  C11_RefineExtend.lean   extend / `+=` / extendleft
  C11_RefineIndex.lean    deque[i] = v, del deque[i]
  C11_RefineSearch.lean   count, remove, comparisons
  C11_RefineOrder.lean    rotate, reverse
  C11_RefineMaxlen.lean   the maxlen setter
  C11_RefineRestore.lean  when the hypothesis of rotate / reverse holds (`restorable_lawful`)
  C11_RefineUnbounded.lean (imports this file) deques longer than their bound (`OkU`): what `append`
                          does there, `setMaxlen_bounds`, histories after one `maxlen` assignment
  this file               one call (`step_*`), histories (`drun_*`), the user-level corollaries,
                          non-vacuity, the counterexamples for the added hypotheses

The key budget.  A call that performs several `append` steps uses several units of the budget:
`DOp.cost len op` (DC/Model/DSpec.lean) is the number of units call `op` may use on a deque of `len`
items — the number of values for `extend`, `steps mod len` for `rotate`, `len` for `reverse`, 1 for
every other call (as in the first version, although only `append` needs it) —, and
`DSpec.costs m cfg ops` the total along a history from the bounded list `m` on.  The history
theorems ask `DSpec.costs m cfg ops ≤ n` where the first version asked `ops.length ≤ n`; for
histories of the first version's calls (`DOp.basic`) the two coincide (`costs_basic`) and the
first version's statements are kept, word for word plus `DOp.basic`, as `…_basic`.

Statement notes.
 * `DRefines d m` is `(items d).map (entryOfRow d.cache) = m.items ∧ d.maxlen = m.maxlen`.
 * The hard part is `append` on the model side: `tbegin; push; [pull]; tend` runs inside a
   transaction block, where `Cache.Good` does not hold (depth 1, removals deferred).
   DC/Proofs/DRefineBlock.lean carries the file invariant through the block (`drf_BI`); the
   `maxlen` setter runs its trimming loop in the same way (`trimLoop_all`).
 * `-- added:` hypotheses:
     - `0 < d.cache.cfg.page` for `clear` and `reverse` (as in C03_Refine: with page size 0 the
       removal loop removes nothing; never false for a real cache);
     - `d.cache.cfg.disk = .pickle` for the calls that look an item up again by the key read back
       from its row (`DOp.byKey`: `deque[i]`, iteration, `deque[i] = v`, `del deque[i]`, `count`,
       `remove`, comparisons, `reverse`): `exDqJson_getitem` in C11.lean, `setitem_needs_pickle`
       below;
     - `DSpec.restorable m cfg ops` for `rotate` / `reverse`: these move an item by reading its
       value and storing it again, so the bounded list is rotated / reversed only if storing the
       value again gives the same stored representation (`DSpec.restores`, with the codec
       observations of that call); `rotate_needs_restores` is the counterexample,
       `restorable_lawful` shows that it holds whenever the calls of the history observe one codec
       whose `loads` inverts `dumps` (`list_after_history_lawful`).
 * A value that cannot be stored (`DSpec.entryFor … = none`: `Disk.store` fails, or the database
   cell cannot be bound) makes `append` / `appendleft` / `deque[i] = v` raise UnicodeEncodeError on
   both sides and changes nothing (the model leaves the block through `traise`, which rolls it
   back: `append_propagates_error`); `extend` / `extendleft` stop at the first such value.
-/
import DC.Properties.C11_RefineBase
import DC.Properties.C11_RefineExtend
import DC.Properties.C11_RefineIndex
import DC.Properties.C11_RefineSearch
import DC.Properties.C11_RefineOrder
import DC.Properties.C11_RefineMaxlen
import DC.Properties.C11_RefineRestore

namespace DC.Deque
open DC.Cache DC.Spec DC.DSpec

/-! ### histories -/

theorem DRefines.eq {d : Deque} {m : DList} (h : DRefines d m) :
    m = { items := (items d).map (entryOfRow d.cache), maxlen := d.maxlen } := by
  cases m with
  | mk it ml =>
    have h1 : _ = it := h.1
    have h2 : _ = ml := h.2
    rw [h1, h2]

/-- the bounded list a state represents -/
def absList (d : Deque) : DList := { items := (items d).map (entryOfRow d.cache), maxlen := d.maxlen }

theorem drefines_absList (d : Deque) : DRefines d (absList d) := ⟨rfl, rfl⟩

theorem restoreOk_rotate {m : DList} {cfg : Cfg} {E : Externals} {now : Int} {steps : Int}
    (h : (DOp.rotate E now steps).restoreOk m cfg = true) : ∀ e ∈ m.items, restores E cfg e = true :=
  List.all_eq_true.1 h

theorem restoreOk_reverse {m : DList} {cfg : Cfg} {E : Externals} {now : Int}
    (h : (DOp.reverse E now).restoreOk m cfg = true) : ∀ e ∈ m.items, restores E cfg e = true :=
  List.all_eq_true.1 h

theorem restoreOk_basic (m : DList) (cfg : Cfg) (op : DOp) (hb : op.basic = true) : op.restoreOk m cfg = true := by
  cases op <;> first | rfl | cases hb

theorem cost_basic (len : Nat) (op : DOp) (hb : op.basic = true) : op.cost len = 1 := by
  cases op <;> first | rfl | cases hb

/-- one call keeps the invariant and uses up at most `DOp.cost` units of the budget (only the
`append` / `appendleft` steps need them).
-- added (with the calls that write through a key read back from a row): `hdisk`, as in
`step_drefines` — with `JSONDisk` the key read back is not the key of the row, and `deque[i] = v`
would add a row under a foreign key; (with `rotate` / `reverse`): `hpg`, `hrt`. -/
theorem step_okN (d : Deque) (n : Nat) (op : DOp) (hok : OkN d (n + op.cost (items d).length))
    (hdisk : op.byKey = true → d.cache.cfg.disk = .pickle)
    (hpg : 0 < d.cache.cfg.page) -- added: `reverse` clears the deque
    (hrt : op.restoreOk (absList d) d.cache.cfg = true) -- added: `rotate` / `reverse` store the values again
    : OkN (d.step op).1 n := by
  cases op with
  | append E now v => exact append_okN d n E now v false hok
  | appendleft E now v => exact append_okN d n E now v true hok
  | pop E now => exact pop_okN d n E now false hok.mono
  | popleft E now => exact pop_okN d n E now true hok.mono
  | peek E now => exact peek_okN d n E now false hok.mono
  | peekleft E now => exact peek_okN d n E now true hok.mono
  | len =>
    have h := hok.mono.of_core (c' := (d.cache.len).1)
      (good_of_pi (len_inv d.cache hok.good.tinv) hok.good.pi) rfl
    exact h
  | clear => exact clear_okN d n hok.mono
  | getitem E now i => exact getitem_okN d n E now i hok.mono
  | iter E now rev => exact iter_okN d n E now rev hok.mono
  | extend E now vs => exact extend_okN d n E now vs false hok
  | extendleft E now vs => exact extend_okN d n E now vs true hok
  | setitem E now i v => exact setitem_okN d n E now i v hok.mono (hdisk rfl)
  | delitem E now i => exact delitem_okN d n E now i hok.mono (hdisk rfl)
  | count E now v => exact count_okN d n E now v hok.mono
  | remove E now v => exact remove_okN d n E now v hok.mono (hdisk rfl)
  | compare E now op that => exact compare_okN d n E now op that hok.mono (hdisk rfl)
  | rotate E now steps =>
    exact (rotate_all d (absList d) n E now steps hok ⟨rfl, rfl⟩ (restoreOk_rotate hrt)).2.2.1
  | reverse E now =>
    exact (reverse_all d (absList d) n E now hok ⟨rfl, rfl⟩ hpg (hdisk rfl) (restoreOk_reverse hrt)).2.2.1
  | setMaxlen E now k => exact setMaxlen_okN d n E now k hok.mono

/-- the first version's statement: a call of the first version uses at most one unit -/
theorem step_okN_basic (d : Deque) (n : Nat) (op : DOp) (hb : op.basic = true) (hok : OkN d (n + 1)) :
    OkN (d.step op).1 n := by
  cases op with
  | append E now v => exact append_okN d n E now v false hok
  | appendleft E now v => exact append_okN d n E now v true hok
  | pop E now => exact pop_okN d n E now false hok.mono
  | popleft E now => exact pop_okN d n E now true hok.mono
  | peek E now => exact peek_okN d n E now false hok.mono
  | peekleft E now => exact peek_okN d n E now true hok.mono
  | len =>
    have h := hok.mono.of_core (c' := (d.cache.len).1)
      (good_of_pi (len_inv d.cache hok.good.tinv) hok.good.pi) rfl
    exact h
  | clear => exact clear_okN d n hok.mono
  | getitem E now i => exact getitem_okN d n E now i hok.mono
  | iter E now rev => exact iter_okN d n E now rev hok.mono
  | _ => cases hb

/-- no call changes the configuration -/
theorem step_cfg (d : Deque) (n : Nat) (op : DOp) (hok : OkN d (n + op.cost (items d).length))
    (hdisk : op.byKey = true → d.cache.cfg.disk = .pickle) (hpg : 0 < d.cache.cfg.page)
    (hrt : op.restoreOk (absList d) d.cache.cfg = true) :
    (d.step op).1.cache.cfg = d.cache.cfg := by
  cases op with
  | append E now v => exact append_cfg d n E now v false hok
  | appendleft E now v => exact append_cfg d n E now v true hok
  | pop E now =>
    show (d.cache.pull E now none false false false).1.cfg = _
    exact (pull_cfg d n E now false hok.mono)
  | popleft E now =>
    show (d.cache.pull E now none true false false).1.cfg = _
    exact (pull_cfg d n E now true hok.mono)
  | peek E now => exact congrArg Core.cfg (peek_core d n E now false hok.mono)
  | peekleft E now => exact congrArg Core.cfg (peek_core d n E now true hok.mono)
  | len => rfl
  | clear => exact rf_clear_cfg d.cache
  | getitem E now i => exact congrArg Core.cfg (getitem_core d n E now i hok.mono).1
  | iter E now rev =>
    show (d.iterVals E now rev).1.cache.cfg = _
    rw [iterVals_eq]
    exact congrArg Core.cfg (iter_fold_core d n E now hok.mono _ d.cache [] hok.good rfl).1
  | extend E now vs => exact extend_cfg d n E now vs false hok
  | extendleft E now vs => exact extend_cfg d n E now vs true hok
  | setitem E now i v => exact setitem_cfg d n E now i v hok.mono
  | delitem E now i => exact delitem_cfg d n E now i hok.mono
  | count E now v => exact count_cfg d n E now v hok.mono
  | remove E now v => exact remove_cfg d n E now v hok.mono
  | compare E now op that => exact compare_cfg d n E now op that hok.mono (hdisk rfl)
  | rotate E now steps =>
    exact (rotate_all d (absList d) n E now steps hok ⟨rfl, rfl⟩ (restoreOk_rotate hrt)).2.2.2
  | reverse E now =>
    exact (reverse_all d (absList d) n E now hok ⟨rfl, rfl⟩ hpg (hdisk rfl) (restoreOk_reverse hrt)).2.2.2
  | setMaxlen E now k => exact setMaxlen_cfg d n E now k hok.mono

/-- the first version's statement -/
theorem step_cfg_basic (d : Deque) (n : Nat) (op : DOp) (hb : op.basic = true) (hok : OkN d (n + 1)) :
    (d.step op).1.cache.cfg = d.cache.cfg := by
  cases op with
  | append E now v => exact append_cfg d n E now v false hok
  | appendleft E now v => exact append_cfg d n E now v true hok
  | pop E now =>
    show (d.cache.pull E now none false false false).1.cfg = _
    exact (pull_cfg d n E now false hok.mono)
  | popleft E now =>
    show (d.cache.pull E now none true false false).1.cfg = _
    exact (pull_cfg d n E now true hok.mono)
  | peek E now => exact congrArg Core.cfg (peek_core d n E now false hok.mono)
  | peekleft E now => exact congrArg Core.cfg (peek_core d n E now true hok.mono)
  | len => rfl
  | clear => exact rf_clear_cfg d.cache
  | getitem E now i => exact congrArg Core.cfg (getitem_core d n E now i hok.mono).1
  | iter E now rev =>
    show (d.iterVals E now rev).1.cache.cfg = _
    rw [iterVals_eq]
    exact congrArg Core.cfg (iter_fold_core d n E now hok.mono _ d.cache [] hok.good rfl).1
  | _ => cases hb

/-- one call: its result is the bounded list's result, and the states correspond afterwards -/
theorem step_drefines (d : Deque) (m : DList) (n : Nat) (op : DOp)
    (hok : OkN d (n + op.cost (items d).length))
    (hr : DRefines d m)
    (hpg : 0 < d.cache.cfg.page) -- added: page size of the removal loop of `clear`
    (hdisk : op.byKey = true → d.cache.cfg.disk = .pickle) -- added: `deque[i]` and iteration read the keys back
    (hrt : op.restoreOk m d.cache.cfg = true) -- added: `rotate` / `reverse` store the values again (`DSpec.restores`)
    : (d.step op).2 = (DSpec.step m d.cache.cfg op).2 ∧
    DRefines (d.step op).1 (DSpec.step m d.cache.cfg op).1 := by
  cases op with
  | append E now v => exact append_drefines d m n E now v false hok hr
  | appendleft E now v => exact append_drefines d m n E now v true hok hr
  | pop E now => exact pop_drefines d m _ E now false hok hr
  | popleft E now => exact pop_drefines d m _ E now true hok hr
  | peek E now => exact peek_drefines d m _ E now false hok hr
  | peekleft E now => exact peek_drefines d m _ E now true hok hr
  | len => exact len_drefines d m _ hok hr
  | clear => exact clear_drefines d m _ hok hr hpg
  | getitem E now i => exact getitem_drefines d m _ E now i hok hr (hdisk rfl)
  | iter E now rev => exact iter_drefines d m _ E now rev hok hr (hdisk rfl)
  | extend E now vs => exact extend_drefines d m n E now vs false hok hr
  | extendleft E now vs => exact extend_drefines d m n E now vs true hok hr
  | setitem E now i v => exact setitem_drefines d m _ E now i v hok hr (hdisk rfl)
  | delitem E now i => exact delitem_drefines d m _ E now i hok hr (hdisk rfl)
  | count E now v => exact count_drefines d m _ E now v hok hr (hdisk rfl)
  | remove E now v => exact remove_drefines d m _ E now v hok hr (hdisk rfl)
  | compare E now op that => exact compare_drefines d m _ E now op that hok hr (hdisk rfl)
  | rotate E now steps => exact rotate_drefines d m n E now steps hok hr (restoreOk_rotate hrt)
  | reverse E now => exact reverse_drefines d m n E now hok hr hpg (hdisk rfl) (restoreOk_reverse hrt)
  | setMaxlen E now k => exact setMaxlen_drefines d m _ E now k hok hr

/-- the first version's statement -/
theorem step_drefines_basic (d : Deque) (m : DList) (n : Nat) (op : DOp) (hb : op.basic = true)
    (hok : OkN d (n + 1)) (hr : DRefines d m) (hpg : 0 < d.cache.cfg.page)
    (hdisk : op.byKey = true → d.cache.cfg.disk = .pickle) :
    (d.step op).2 = (DSpec.step m d.cache.cfg op).2 ∧
    DRefines (d.step op).1 (DSpec.step m d.cache.cfg op).1 :=
  step_drefines d m n op (by rw [cost_basic _ op hb]; exact hok) hr hpg hdisk (restoreOk_basic m _ op hb)

theorem run_cons (d : Deque) (op : DOp) (ops : List DOp) : d.run (op :: ops) = (d.step op).1.run ops := rfl

theorem spec_run_cons (m : DList) (cfg : Cfg) (op : DOp) (ops : List DOp) :
    DSpec.run m cfg (op :: ops) = DSpec.run (DSpec.step m cfg op).1 cfg ops := rfl

theorem costs_cons (m : DList) (cfg : Cfg) (op : DOp) (ops : List DOp) :
    DSpec.costs m cfg (op :: ops) = op.cost m.items.length + DSpec.costs (DSpec.step m cfg op).1 cfg ops := rfl

/-- for the calls of the first version the budget a history uses is its length -/
theorem costs_basic (m : DList) (cfg : Cfg) (ops : List DOp) (hb : ∀ op ∈ ops, op.basic = true) :
    DSpec.costs m cfg ops = ops.length := by
  induction ops generalizing m with
  | nil => rfl
  | cons op ops ih =>
    rw [costs_cons, cost_basic _ op (hb op List.mem_cons_self),
      ih _ (fun o ho => hb o (List.mem_cons_of_mem _ ho)), List.length_cons]
    omega

theorem restorable_cons (m : DList) (cfg : Cfg) (op : DOp) (ops : List DOp) :
    DSpec.restorable m cfg (op :: ops) =
      (op.restoreOk m cfg && DSpec.restorable (DSpec.step m cfg op).1 cfg ops) := rfl

/-- histories of the first version's calls store nothing again -/
theorem restorable_basic (m : DList) (cfg : Cfg) (ops : List DOp) (hb : ∀ op ∈ ops, op.basic = true) :
    DSpec.restorable m cfg ops = true := by
  induction ops generalizing m with
  | nil => rfl
  | cons op ops ih =>
    rw [restorable_cons, restoreOk_basic m cfg op (hb op List.mem_cons_self),
      ih _ (fun o ho => hb o (List.mem_cons_of_mem _ ho))]
    rfl

/-- the history theorem with everything the induction carries: results, final states, the
invariant with the remaining budget, the configuration -/
theorem drun_refines_strong (d : Deque) (m : DList) (ops : List DOp) (n : Nat) (hok : OkN d n)
    (hcost : DSpec.costs m d.cache.cfg ops ≤ n) (hr : DRefines d m) (hpg : 0 < d.cache.cfg.page)
    (hdisk : ∀ op ∈ ops, op.byKey = true → d.cache.cfg.disk = .pickle)
    (hrt : DSpec.restorable m d.cache.cfg ops = true) :
    Deque.outs d ops = DSpec.outs m d.cache.cfg ops ∧
    DRefines (Deque.run d ops) (DSpec.run m d.cache.cfg ops) ∧
    OkN (Deque.run d ops) (n - DSpec.costs m d.cache.cfg ops) ∧ (Deque.run d ops).cache.cfg = d.cache.cfg := by
  induction ops generalizing d m n with
  | nil => exact ⟨rfl, hr, hok, rfl⟩
  | cons op ops ih =>
    rw [costs_cons] at hcost
    rw [restorable_cons, Bool.and_eq_true] at hrt
    obtain ⟨hrt1, hrt2⟩ := hrt
    have hrt1' : op.restoreOk (absList d) d.cache.cfg = true := by
      have := hr.eq
      unfold absList; rw [← this]; exact hrt1
    have hlen := hr.length
    obtain ⟨k, rfl⟩ : ∃ k, n = k + op.cost (items d).length :=
      ⟨n - op.cost (items d).length, by rw [← hlen]; omega⟩
    have hd1 := hdisk op List.mem_cons_self
    have hcfg := step_cfg d k op hok hd1 hpg hrt1'
    obtain ⟨hs2, hs1⟩ := step_drefines d m k op hok hr hpg hd1 hrt1
    obtain ⟨h1, h2, h3, h4⟩ := ih (d.step op).1 (DSpec.step m d.cache.cfg op).1 k
      (step_okN d k op hok hd1 hpg hrt1')
      (by rw [hcfg]; rw [← hlen] at hcost; omega) hs1 (by rw [hcfg]; exact hpg)
      (fun o ho hb => by rw [hcfg]; exact hdisk o (List.mem_cons_of_mem _ ho) hb)
      (by rw [hcfg]; exact hrt2)
    rw [hcfg] at h1 h2 h3 h4
    refine ⟨?_, ?_, ?_, ?_⟩
    · show _ :: _ = _ :: _
      rw [hs2, h1]
    · rw [run_cons, spec_run_cons]; exact h2
    · rw [run_cons, costs_cons, hlen]
      have : k + op.cost (items d).length -
          (op.cost (items d).length + DSpec.costs (DSpec.step m d.cache.cfg op).1 d.cache.cfg ops) =
          k - DSpec.costs (DSpec.step m d.cache.cfg op).1 d.cache.cfg ops := by omega
      rw [this]; exact h3
    · rw [run_cons]; exact h4

/-- **the history theorem**: every call of a history returns what the bounded list returns, and
the final states correspond — for every history that fits the budget of the invariant. -/
theorem drun_refines (d : Deque) (m : DList) (ops : List DOp) (n : Nat) (hok : OkN d n)
    (hcost : DSpec.costs m d.cache.cfg ops ≤ n) (hr : DRefines d m)
    (hpg : 0 < d.cache.cfg.page) -- added: page size of the removal loop of `clear`
    (hdisk : ∀ op ∈ ops, op.byKey = true → d.cache.cfg.disk = .pickle) -- added: `deque[i]` / iteration need the pickle `Disk`
    (hrt : DSpec.restorable m d.cache.cfg ops = true) -- added: `rotate` / `reverse` store every value again as it was
    : Deque.outs d ops = DSpec.outs m d.cache.cfg ops ∧
    DRefines (Deque.run d ops) (DSpec.run m d.cache.cfg ops) := by
  obtain ⟨h1, h2, -⟩ := drun_refines_strong d m ops n hok hcost hr hpg hdisk hrt
  exact ⟨h1, h2⟩

/-- the state half on its own -/
theorem drun_refines_state (d : Deque) (m : DList) (ops : List DOp) (n : Nat) (hok : OkN d n)
    (hcost : DSpec.costs m d.cache.cfg ops ≤ n) (hr : DRefines d m) (hpg : 0 < d.cache.cfg.page)
    (hdisk : ∀ op ∈ ops, op.byKey = true → d.cache.cfg.disk = .pickle)
    (hrt : DSpec.restorable m d.cache.cfg ops = true) :
    DRefines (Deque.run d ops) (DSpec.run m d.cache.cfg ops) :=
  (drun_refines_strong d m ops n hok hcost hr hpg hdisk hrt).2.1

/-! #### the statements of the first version (histories of `DOp.basic` calls, one unit per call) -/

theorem drun_refines_strong_basic (d : Deque) (m : DList) (ops : List DOp) (n : Nat) (hok : OkN d n)
    (hb : ∀ op ∈ ops, op.basic = true)
    (hlen : ops.length ≤ n) (hr : DRefines d m) (hpg : 0 < d.cache.cfg.page)
    (hdisk : ∀ op ∈ ops, op.byKey = true → d.cache.cfg.disk = .pickle) :
    Deque.outs d ops = DSpec.outs m d.cache.cfg ops ∧
    DRefines (Deque.run d ops) (DSpec.run m d.cache.cfg ops) ∧
    OkN (Deque.run d ops) (n - ops.length) ∧ (Deque.run d ops).cache.cfg = d.cache.cfg := by
  have hc := costs_basic m d.cache.cfg ops hb
  have := drun_refines_strong d m ops n hok (by rw [hc]; exact hlen) hr hpg hdisk
    (restorable_basic m _ ops hb)
  rw [hc] at this
  exact this

theorem drun_refines_basic (d : Deque) (m : DList) (ops : List DOp) (n : Nat) (hok : OkN d n)
    (hb : ∀ op ∈ ops, op.basic = true)
    (hlen : ops.length ≤ n) (hr : DRefines d m)
    (hpg : 0 < d.cache.cfg.page)
    (hdisk : ∀ op ∈ ops, op.byKey = true → d.cache.cfg.disk = .pickle)
    : Deque.outs d ops = DSpec.outs m d.cache.cfg ops ∧
    DRefines (Deque.run d ops) (DSpec.run m d.cache.cfg ops) :=
  drun_refines d m ops n hok (by rw [costs_basic m d.cache.cfg ops hb]; exact hlen) hr hpg hdisk
    (restorable_basic m _ ops hb)

theorem drun_refines_state_basic (d : Deque) (m : DList) (ops : List DOp) (n : Nat) (hok : OkN d n)
    (hb : ∀ op ∈ ops, op.basic = true)
    (hlen : ops.length ≤ n) (hr : DRefines d m) (hpg : 0 < d.cache.cfg.page)
    (hdisk : ∀ op ∈ ops, op.byKey = true → d.cache.cfg.disk = .pickle) :
    DRefines (Deque.run d ops) (DSpec.run m d.cache.cfg ops) :=
  (drun_refines_basic d m ops n hok hb hlen hr hpg hdisk).2

/-! ### the empty Deque, the user-level corollary, non-vacuity -/

/-- the empty Deque (any `maxlen`) satisfies the invariant with every budget `N` that fits between
the origin and both ends of the key range: `N ≤ qorigin` and `qorigin + N ≤ 999999999999999` -/
theorem okN_init (cf : Cfg) (ml : Option Nat) (N : Nat) (hp : cf.policy = .none)
    (hq : 1 ≤ cf.qorigin ∧ cf.qorigin ≤ 999999999999998)
    (hN : N ≤ cf.qorigin ∧ cf.qorigin + N ≤ 999999999999999) :
    OkN { cache := { cfg := cf }, maxlen := ml } N where
  good := good_init cf false
  pol := hp
  noexp := fun r hr => by cases hr
  allq := fun r hr => by cases hr
  qok := fun r hr => by cases hr
  room := fun r hr => by cases hr
  origin := hq
  originN := hN
  stats := rfl
  bounded := fun m _ => Nat.zero_le _
  readable := fun r hr => by cases hr

/-- `Deque(maxlen=ml)` on a fresh directory: policy 'none', everything else as in core.py -/
def fresh (ml : Option Nat) : Deque := { cache := { cfg := { policy := .none } }, maxlen := ml }

/-- with the origin of core.py (500000000000000) the budget of the empty Deque is exactly
499999999999999 calls: that many `append`s reach the last usable key 999999999999998 -/
theorem okN_empty (ml : Option Nat) : OkN (fresh ml) 499999999999999 :=
  okN_init _ ml _ rfl (by decide) (by decide)

theorem okN_empty_max (ml : Option Nat) : ¬ OkN (fresh ml) (499999999999999 + 1) := by
  intro h
  have : (500000000000000 : Nat) + (499999999999999 + 1) ≤ 999999999999999 := h.originN.2
  omega

/-- the empty Deque represents the empty bounded list -/
theorem drefines_init (cf : Cfg) (ml : Option Nat) :
    DRefines { cache := { cfg := cf }, maxlen := ml } { items := [], maxlen := ml } := ⟨rfl, rfl⟩

/-- **what a user sees**: after any history that uses at most 499999999999999 units of the key budget on a fresh Deque
(pickle `Disk`, any `maxlen`), `list(deque)` is exactly the list `collections.deque(maxlen)` holds
after the same calls. -/
theorem list_after_history (ml : Option Nat) (ops : List DOp) (E : Externals) (now : Int)
    (hcost : DSpec.costs { items := [], maxlen := ml } (fresh ml).cache.cfg ops ≤ 499999999999999)
    (hrt : DSpec.restorable { items := [], maxlen := ml } (fresh ml).cache.cfg ops = true) -- added: `rotate` / `reverse`
    :
    (((fresh ml).run ops).iterVals E now false).2 =
      .list ((DSpec.run { items := [], maxlen := ml } (fresh ml).cache.cfg ops).items.map
        (fun e => valueOf e E (fresh ml).cache.cfg)) := by
  obtain ⟨-, h2, h3, h4⟩ := drun_refines_strong (fresh ml) { items := [], maxlen := ml } ops
    499999999999999 (okN_empty ml) hcost (drefines_init _ ml)
    (show 0 < (100 : Nat) by decide) (fun _ _ _ => rfl) hrt
  have := (iter_drefines _ _ _ E now false h3 h2 (by rw [h4]; rfl)).1
  rw [h4] at this
  exact this

/-- the first version's statement -/
theorem list_after_history_basic (ml : Option Nat) (ops : List DOp) (E : Externals) (now : Int)
    (hb : ∀ op ∈ ops, op.basic = true)
    (hlen : ops.length + 1 ≤ 499999999999999) :
    (((fresh ml).run ops).iterVals E now false).2 =
      .list ((DSpec.run { items := [], maxlen := ml } (fresh ml).cache.cfg ops).items.map
        (fun e => valueOf e E (fresh ml).cache.cfg)) :=
  list_after_history ml ops E now (by rw [costs_basic _ _ ops hb]; omega) (restorable_basic _ _ ops hb)

/-- **what a user sees, one codec**: when every call observes the same codec `E` and `loads`
inverts `dumps` for it (`Lawful E`), the hypothesis about `rotate` / `reverse` holds by itself:
after any history that fits the key budget, `list(deque)` is the list `collections.deque(maxlen)`
holds after the same calls. -/
theorem list_after_history_lawful (ml : Option Nat) (ops : List DOp) (E : Externals) (hE : Lawful E) (now : Int)
    (hcost : DSpec.costs { items := [], maxlen := ml } (fresh ml).cache.cfg ops ≤ 499999999999999)
    (hops : ∀ op ∈ ops, ∀ E', op.codec = some E' → E' = E) :
    (((fresh ml).run ops).iterVals E now false).2 =
      .list ((DSpec.run { items := [], maxlen := ml } (fresh ml).cache.cfg ops).items.map
        (fun e => valueOf e E (fresh ml).cache.cfg)) :=
  list_after_history ml ops E now hcost
    (restorable_lawful E hE _ ops _ hops (fun e he => by cases he))

/-- a codec satisfying `Lawful` (the injective toy pickle of DC/Properties/C11.lean for keys, values
and JSON alike) -/
def exLawE : Externals :=
  { dumpsK := exL.dumpsK, dumpsV := exL.dumpsK, loads := exL.loads, jsonz := exL.dumpsK, unjsonz := exL.loads }

theorem exLawE_lawful : Lawful exLawE := ⟨exL_lawful, exL_lawful, exL_lawful⟩

example (now : Int) :
    let ops : List DOp := [.extend exLawE 0 [.none, .int 2, .obj [7]], .rotate exLawE 1 1, .reverse exLawE 2]
    (((fresh (some 2)).run ops).iterVals exLawE now false).2 =
      .list ((DSpec.run { items := [], maxlen := some 2 } (fresh (some 2)).cache.cfg ops).items.map
        (fun e => valueOf e exLawE (fresh (some 2)).cache.cfg)) :=
  list_after_history_lawful (some 2) _ exLawE exLawE_lawful now (by decide +kernel)
    (fun op hop E' hE' => by
      simp only [List.mem_cons, List.not_mem_nil, or_false] at hop
      rcases hop with rfl | rfl | rfl <;> cases hE' <;> rfl)

/-- an `append` that cannot store its value raises and changes nothing: a text value with a lone
surrogate — `deque.append('\\ud800')` — makes `Cache.push` fail with UnicodeEncodeError inside the
block; the exception propagates, the block is rolled back (table and files as before, no
transaction left open), exactly as the specification says.  (A concrete instance of the failure
branch of `append_drefines`; the deque holds one item before the call.) -/
theorem append_propagates_error :
    let d := ((fresh none).append toyV 0 (.int 7) false).1
    let d' := (d.append toyV 1 (.str [0xD800]) false).1
    (match (d.append toyV 1 (.str [0xD800]) false).2 with
      | .exc "UnicodeEncodeError" => true | _ => false) = true ∧
    (match (DSpec.append { items := (items d).map (entryOfRow d.cache) } toyV d.cache.cfg (.str [0xD800]) false).2 with
      | .exc "UnicodeEncodeError" => true | _ => false) = true ∧
    d'.cache.rows = d.cache.rows ∧ d'.cache.files = d.cache.files ∧ d'.cache.depth = 0 ∧
    d'.cache.snap.isNone = true ∧ storable toyV d.cache.cfg (.str [0xD800]) = false := by
  decide +kernel

/-- non-vacuity: a concrete history on a fresh Deque with `maxlen = 2`: three appends (the third on
the full deque drops the front item), an `appendleft` on the full deque (drops the back item),
`len`, `peek`, `deque[-1]`, `list(reversed(deque))`, `popleft`, `pop`, `pop` on the empty deque,
`clear`. -/
def exD : Deque := { cache := { cfg := { policy := .none } }, maxlen := some 2 }

def exDOps : List DOp :=
  [ .append toyV 0 (.int 1), .append toyV 1 (.int 2), .append toyV 2 (.int 3),
    .appendleft toyV 3 (.str [97]), .len, .peek toyV 4, .getitem toyV 5 (-1), .iter toyV 6 true,
    .popleft toyV 7, .pop toyV 8, .pop toyV 9, .clear ]

example : Deque.outs exD exDOps = DSpec.outs { maxlen := some 2 } exD.cache.cfg exDOps ∧
    DRefines (Deque.run exD exDOps) (DSpec.run { maxlen := some 2 } exD.cache.cfg exDOps) :=
  drun_refines exD { maxlen := some 2 } exDOps 499999999999999 (okN_empty _) (by decide)
    (drefines_init _ _) (by decide) (fun _ _ _ => rfl) (by decide)

/-- what the bounded list (and therefore the Deque) returns along that history -/
example : DSpec.outs { maxlen := some 2 } exD.cache.cfg exDOps =
    [.none, .none, .none, .none, .int 2, .val (.int 2), .val (.int 2),
     .list [.val (.int 2), .val (.str [97])], .val (.str [97]), .val (.int 2), .exc "IndexError", .none] := by
  rfl

example : Deque.outs exD exDOps =
    [.none, .none, .none, .none, .int 2, .val (.int 2), .val (.int 2),
     .list [.val (.int 2), .val (.str [97])], .val (.str [97]), .val (.int 2), .exc "IndexError", .none] :=
  (drun_refines exD { maxlen := some 2 } exDOps 499999999999999 (okN_empty _) (by decide)
    (drefines_init _ _) (by decide) (fun _ _ _ => rfl) (by decide)).1.trans (by rfl)

/-- the items after the first four calls: `['a', 2]` -/
example : ((DSpec.run { maxlen := some 2 } exD.cache.cfg (exDOps.take 4)).items.map
    (fun e => valueOf e toyV exD.cache.cfg)) = [.val (.str [97]), .val (.int 2)] := by
  rfl

/-! ### non-vacuity for the calls added to the first version

A history on a fresh Deque with `maxlen = 3` that uses every added call: `extend` beyond the bound,
`extendleft` on the full deque, assignment by negative index, `rotate` in both directions (more
steps than items), `count` with `9 == 9.0`, an ordering that is decided by the second pair and one
that raises TypeError, `reverse`, deletion by index, `remove` (present, then absent: ValueError),
shrinking `maxlen` to 0, assignment out of range (IndexError), iteration. -/

def exD3 : Deque := { cache := { cfg := { policy := .none } }, maxlen := some 3 }

def exD3Ops : List DOp :=
  [ .extend toyV 0 [.int 1, .int 2, .int 3, .int 4], .extendleft toyV 1 [.str [97], .str [98]],
    .setitem toyV 2 (-1) (.int 9), .iter toyV 2 false, .rotate toyV 3 1, .rotate toyV 4 (-5), .iter toyV 4 false,
    .count toyV 5 (.float 0x4022000000000000), .compare toyV 6 .lt [.str [97], .int 10],
    .compare toyV 7 .lt [.int 1], .compare toyV 7 .eq [.str [97], .float 0x4022000000000000, .str [98]], .reverse toyV 8, .iter toyV 8 false,
    .delitem toyV 9 1, .remove toyV 10 (.str [97]), .remove toyV 11 (.str [122]), .len,
    .setMaxlen toyV 12 0, .setitem toyV 13 0 (.int 1), .delitem toyV 13 0, .iter toyV 14 false,
    .extend toyV 15 [.int 1, .str [0xD800], .int 3] ]

/-- the hypotheses of the history theorem hold for it: 4 + 2 + 1 + 1 + 2 + 3 + … units of the
budget, every rotated / reversed item is stored again as it was -/
example : DSpec.costs { maxlen := some 3 } exD3.cache.cfg exD3Ops = 31 ∧
    DSpec.restorable { maxlen := some 3 } exD3.cache.cfg exD3Ops = true := by decide +kernel

example : Deque.outs exD3 exD3Ops = DSpec.outs { maxlen := some 3 } exD3.cache.cfg exD3Ops ∧
    DRefines (Deque.run exD3 exD3Ops) (DSpec.run { maxlen := some 3 } exD3.cache.cfg exD3Ops) :=
  drun_refines exD3 { maxlen := some 3 } exD3Ops 499999999999999 (okN_empty _) (by decide +kernel)
    (drefines_init _ _) (by decide) (fun _ _ _ => rfl) (by decide +kernel)

/-- what the bounded list (and therefore the Deque) returns along that history -/
example : (match DSpec.outs { maxlen := some 3 } exD3.cache.cfg exD3Ops with
    | [.none, .none, .none, .list [.val (.str [98]), .val (.str [97]), .val (.int 9)], .none, .none,
       .list [.val (.str [97]), .val (.int 9), .val (.str [98])],
       .int 1, .bool true, .exc "TypeError", .bool true, .none,
       .list [.val (.str [98]), .val (.int 9), .val (.str [97])],
       .none, .none, .exc "ValueError", .int 1, .none, .exc "IndexError", .exc "IndexError", .list [],
       .exc "UnicodeEncodeError"] => true
    | _ => false) = true := by
  decide +kernel

/-! ### why `rotate` / `reverse` need `DSpec.restores`

A codec whose `loads` does not invert `dumpsV`: the object `o` is stored as the pickle `[7]`, read
back as `None`, and `None` is stored as the pickle `[9]`.  `rotate(1)` pops `o` at the back and
appends what it read at the front: the deque now holds the stored form of `None`, the rotated list
still holds the stored form of `o`. -/

def exBadE : Externals :=
  { toyV with dumpsV := fun v => match v with | .none => [9] | _ => [7], loads := fun _ => .none }

def exBadD : Deque := ((fresh none).extend exBadE 0 [.int 5, .obj [1]] false).1

theorem rotate_needs_restores :
    OkN exBadD 1 ∧ DRefines exBadD (absList exBadD) ∧
    (DOp.rotate exBadE 1 1).cost (items exBadD).length = 1 ∧
    (DOp.rotate exBadE 1 1).restoreOk (absList exBadD) exBadD.cache.cfg = false ∧
    (items (exBadD.rotate exBadE 1 1).1).map (entryOfRow (exBadD.rotate exBadE 1 1).1.cache) ≠
      (DSpec.rotate (absList exBadD) 1).1.items := by
  refine ⟨?_, drefines_absList _, by decide +kernel, by decide +kernel, by decide +kernel⟩
  have h := extend_okN (fresh none) 1 exBadE 0 [.int 5, .obj [1]] false
    (OkN.weaken (k := 499999999999996) (okN_empty none))
  exact h

/-- with a codec that inverts itself (`toyV`) the same two calls agree -/
example :
    let d := ((fresh none).extend toyV 0 [.int 5, .obj [1]] false).1
    (DOp.rotate toyV 1 1).restoreOk (absList d) d.cache.cfg = true ∧
    (items (d.rotate toyV 1 1).1).map (entryOfRow (d.rotate toyV 1 1).1.cache) =
      (DSpec.rotate (absList d) 1).1.items := by
  decide +kernel

/-! ### `rotate` / `reverse` when a value that was read back cannot be stored again

A codec whose `loads` gives a text with a lone surrogate: the object `o` is stored as a pickle, read
back as `'\ud800'`, and that text cannot be stored.  `rotate(1)` pops `o` and the re-append raises:
UnicodeEncodeError propagates out of `rotate`, the popped item is lost (persistent.py:629-633), no
transaction is left open.  `reverse()` raises while filling its temporary Deque, before the
`clear`: the deque is untouched (persistent.py:590).  (Outside `DSpec.restores`, so outside the
refinement theorems — these two pin the model to the Python code there.) -/

def exBadE2 : Externals := { toyV with loads := fun _ => .str [0xD800] }

def exBadD2 : Deque := ((fresh none).extend exBadE2 0 [.int 5, .obj [1]] false).1

theorem rotate_propagates_error :
    exBadD2.cache.rows.length = 2 ∧
    (match (exBadD2.rotate exBadE2 1 1).2 with | .exc "UnicodeEncodeError" => true | _ => false) = true ∧
    (exBadD2.rotate exBadE2 1 1).1.cache.rows = exBadD2.cache.rows.take 1 ∧
    (exBadD2.rotate exBadE2 1 1).1.cache.depth = 0 ∧
    (DOp.rotate exBadE2 1 1).restoreOk (absList exBadD2) exBadD2.cache.cfg = false := by
  decide +kernel

theorem reverse_error_leaves_unchanged :
    (match (exBadD2.reverse exBadE2 1).2 with | .exc "UnicodeEncodeError" => true | _ => false) = true ∧
    (exBadD2.reverse exBadE2 1).1.cache.rows = exBadD2.cache.rows ∧
    (exBadD2.reverse exBadE2 1).1.cache.files = exBadD2.cache.files ∧
    (exBadD2.reverse exBadE2 1).1.cache.depth = 0 ∧
    (match (exBadD2.iterVals exBadE2 2 false).2 with
      | .list [.val (.int 5), .val (.str [0xD800])] => true | _ => false) = true := by
  decide +kernel

/-! ### why `deque[i] = v` needs the pickle `Disk`

On the JSONDisk deque of `exDqJson_getitem` (DC/Properties/C11.lean: `Ok`, one item) the key read
back from the row is not the key of the row: the assignment ADDS a row instead of replacing the
item, the deletion raises IndexError; the bounded list replaces / removes the item. -/
theorem setitem_needs_pickle :
    Ok exDqJson ∧ exDqJson.cache.rows.length = 1 ∧
    (exDqJson.setitem exL 0 0 (.int 7)).1.cache.rows.length = 2 ∧
    (match (exDqJson.delitem exL 0 0).2 with | .exc "IndexError" => true | _ => false) = true ∧
    (DSpec.setitem (absList exDqJson) exL exDqJson.cache.cfg 0 (.int 7)).1.items.length = 1 ∧
    (match (DSpec.delitem (absList exDqJson) 0).2 with | .none => true | _ => false) = true :=
  ⟨exDqJson_ok, rfl, by decide +kernel, by decide +kernel, by decide +kernel, by decide +kernel⟩

/-! ### why the invariant is budgeted

Beyond the budget the next queue number is 999999999999999 — the upper bound of the queue key
range, which is exclusive: the pushed row is not a member of the queue, `len` counts it but no
`pop` ever returns it.  From the default origin this takes 500000000000000 `append`s, so it is
shown here on a Deque whose origin is the last usable number. -/

def exEdge : Deque := { cache := { cfg := { policy := .none, qorigin := 999999999999998 } } }

def exEdgeOps : List DOp := [.append toyV 0 (.int 1), .append toyV 1 (.int 2), .len, .pop toyV 2, .pop toyV 3]

theorem budget_needed :
    OkN exEdge 1 ∧ ¬ OkN exEdge 2 ∧
    (match Deque.outs exEdge exEdgeOps with
      | [.none, .none, .int 2, .val (.int 1), .exc "IndexError"] => true | _ => false) = true ∧
    (match DSpec.outs {} exEdge.cache.cfg exEdgeOps with
      | [.none, .none, .int 2, .val (.int 2), .val (.int 1)] => true | _ => false) = true := by
  refine ⟨okN_init _ none 1 rfl (by decide) (by decide), ?_, by decide +kernel, by decide +kernel⟩
  intro h
  have : (999999999999998 : Nat) + 2 ≤ 999999999999999 := h.originN.2
  omega

end DC.Deque
