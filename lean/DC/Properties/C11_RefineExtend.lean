/-
C11 (refinement, continued) — `extend` / `deque += …` / `extendleft`: one `append` /
`appendleft` per value, stopping at the first value that cannot be stored.  A call with `k`
values uses up to `k` units of the key budget of `OkN`.
-/
import DC.Properties.C11_RefineBase
import DC.Properties.C11_Seq

namespace DC.Deque
open DC.Cache DC.Spec DC.DSpec

theorem spec_extend_nil (m : DList) (E : Externals) (cfg : Cfg) (left : Bool) :
    DSpec.extend m E cfg [] left = (m, .none) := rfl

theorem spec_extend_cons_some (m : DList) (E : Externals) (cfg : Cfg) (v : PyVal) (vs : List PyVal)
    (left : Bool) (e : Spec.Entry) (h : entryFor E cfg v = some e) :
    DSpec.extend m E cfg (v :: vs) left = DSpec.extend (DSpec.append m E cfg v left).1 E cfg vs left := by
  rw [DSpec.extend]
  simp [storable, h]

theorem spec_extend_cons_none (m : DList) (E : Externals) (cfg : Cfg) (v : PyVal) (vs : List PyVal)
    (left : Bool) (h : entryFor E cfg v = none) :
    DSpec.extend m E cfg (v :: vs) left = (m, .exc "UnicodeEncodeError") := by
  rw [DSpec.extend]
  simp [storable, h]

theorem OkN.weaken {d : Deque} {n k : Nat} (h : OkN d (n + k)) : OkN d n := by
  induction k with
  | zero => exact h
  | succ k ih => exact ih (OkN.mono h)

/-- everything the induction over the values carries -/
theorem extend_all (d : Deque) (m : DList) (n : Nat) (E : Externals) (now : Int) (vs : List PyVal)
    (left : Bool) (hok : OkN d (n + vs.length)) (hr : DRefines d m) :
    (d.extend E now vs left).2 = (DSpec.extend m E d.cache.cfg vs left).2 ∧
    DRefines (d.extend E now vs left).1 (DSpec.extend m E d.cache.cfg vs left).1 ∧
    OkN (d.extend E now vs left).1 n ∧
    (d.extend E now vs left).1.cache.cfg = d.cache.cfg := by
  induction vs generalizing d m with
  | nil => exact ⟨rfl, hr, hok, rfl⟩
  | cons v vs ih =>
    have hok1 : OkN d ((n + vs.length) + 1) := by
      have : n + (v :: vs).length = (n + vs.length) + 1 := by simp only [List.length_cons]; omega
      rw [← this]; exact hok
    obtain ⟨ho, hr'⟩ := append_drefines d m _ E now v left hok1 hr
    have hok' := append_okN d _ E now v left hok1
    have hcfg := append_cfg d _ E now v left hok1
    rcases append_state d _ E now v left hok1 with ⟨hef, hout, -, -⟩ | ⟨e, r, num, hef, hout, -⟩
    · -- the value cannot be stored: `extend` stops here
      rw [extend_stops_at_error d E now v vs left _ hout, spec_extend_cons_none m E _ v vs left hef]
      rw [spec_append_none m E _ v left hef] at hr'
      refine ⟨rfl, hr', ?_, hcfg⟩
      exact hok'.weaken
    · rw [extend_cons_ok d E now v vs left (by rw [hout]; rfl), spec_extend_cons_some m E _ v vs left e hef]
      obtain ⟨h1, h2, h3, h4⟩ := ih (d.append E now v left).1 (DSpec.append m E d.cache.cfg v left).1 hok' hr'
      rw [hcfg] at h1 h2 h4
      exact ⟨h1, h2, h3, h4⟩

/-- `extend` / `extendleft`: same result as the specification (None, or the UnicodeEncodeError of
the first value that cannot be stored), relation preserved -/
theorem extend_drefines (d : Deque) (m : DList) (n : Nat) (E : Externals) (now : Int) (vs : List PyVal)
    (left : Bool) (hok : OkN d (n + vs.length)) (hr : DRefines d m) :
    (d.extend E now vs left).2 = (DSpec.extend m E d.cache.cfg vs left).2 ∧
    DRefines (d.extend E now vs left).1 (DSpec.extend m E d.cache.cfg vs left).1 :=
  ⟨(extend_all d m n E now vs left hok hr).1, (extend_all d m n E now vs left hok hr).2.1⟩

theorem extendleft_drefines (d : Deque) (m : DList) (n : Nat) (E : Externals) (now : Int) (vs : List PyVal)
    (hok : OkN d (n + vs.length)) (hr : DRefines d m) :
    (d.extend E now vs true).2 = (DSpec.extend m E d.cache.cfg vs true).2 ∧
    DRefines (d.extend E now vs true).1 (DSpec.extend m E d.cache.cfg vs true).1 :=
  extend_drefines d m n E now vs true hok hr

/-- a state always represents some bounded list -/
theorem drefines_self (d : Deque) : DRefines d { items := (items d).map (entryOfRow d.cache), maxlen := d.maxlen } :=
  ⟨rfl, rfl⟩

/-- `extend` / `extendleft` with `k` values use up `k` units of the budget -/
theorem extend_okN (d : Deque) (n : Nat) (E : Externals) (now : Int) (vs : List PyVal) (left : Bool)
    (hok : OkN d (n + vs.length)) : OkN (d.extend E now vs left).1 n :=
  (extend_all d _ n E now vs left hok (drefines_self d)).2.2.1

theorem extend_cfg (d : Deque) (n : Nat) (E : Externals) (now : Int) (vs : List PyVal) (left : Bool)
    (hok : OkN d (n + vs.length)) : (d.extend E now vs left).1.cache.cfg = d.cache.cfg :=
  (extend_all d _ n E now vs left hok (drefines_self d)).2.2.2

/-- what `extend` does to the list when every value can be stored: the values are added at the back
and the list keeps its last `maxlen` items — `collections.deque.extend` -/
theorem spec_extend_all_storable (m : DList) (E : Externals) (cfg : Cfg) (vs : List PyVal)
    (hs : ∀ v ∈ vs, storable E cfg v = true) (hb : ∀ k, m.maxlen = some k → m.items.length ≤ k) :
    (DSpec.extend m E cfg vs false).2 = .none ∧
    (DSpec.extend m E cfg vs false).1.maxlen = m.maxlen ∧
    (DSpec.extend m E cfg vs false).1.items =
      (let l := m.items ++ vs.filterMap (entryFor E cfg)
       match m.maxlen with
       | none => l
       | some k => l.drop (l.length - k)) := by
  induction vs generalizing m with
  | nil =>
    refine ⟨rfl, rfl, ?_⟩
    show m.items = _
    simp only [List.filterMap_nil, List.append_nil]
    cases hm : m.maxlen with
    | none => rfl
    | some k =>
      have := hb k hm
      simp only
      rw [show m.items.length - k = 0 by omega]; rfl
  | cons v vs ih =>
    have hv := hs v List.mem_cons_self
    obtain ⟨e, he⟩ : ∃ e, entryFor E cfg v = some e := by
      unfold storable at hv
      exact Option.isSome_iff_exists.1 hv
    rw [spec_extend_cons_some m E cfg v vs false e he]
    have happ : DSpec.append m E cfg v false =
        ({ m with items := if m.over (m.items ++ [e]) then (m.items ++ [e]).tail else m.items ++ [e] }, .none) := by
      unfold DSpec.append; rw [he]; rfl
    rw [happ]
    have hb' : ∀ k, m.maxlen = some k →
        (if m.over (m.items ++ [e]) then (m.items ++ [e]).tail else m.items ++ [e]).length ≤ k := by
      intro k hk
      have := hb k hk
      unfold DList.over
      rw [hk]
      simp only [List.length_append, List.length_cons, List.length_nil]
      split <;> simp_all <;> omega
    obtain ⟨h1, h2, h3⟩ := ih { m with items := if m.over (m.items ++ [e]) then (m.items ++ [e]).tail else m.items ++ [e] }
      (fun w hw => hs w (List.mem_cons_of_mem _ hw)) hb'
    refine ⟨h1, h2, ?_⟩
    rw [h3]
    simp only [List.filterMap_cons, he]
    cases hm : m.maxlen with
    | none => simp [DList.over, hm]
    | some k =>
      have := hb k hm
      simp only [DList.over, hm]
      by_cases hlt : k < (m.items ++ [e]).length
      · simp only [hlt, decide_true, if_true]
        have hlen : m.items.length = k := by
          simp only [List.length_append, List.length_cons, List.length_nil] at hlt; omega
        cases hmi : m.items with
        | nil =>
          simp only [List.nil_append, List.tail_cons, List.length_cons] at *
          rw [hmi] at hlen; simp only [List.length_nil] at hlen; subst hlen
          simp
        | cons a t =>
          rw [hmi] at hlen
          simp only [List.cons_append, List.tail_cons, List.length_cons, List.length_append,
            List.length_nil] at hlen ⊢
          have key : ∀ (X : List Spec.Entry) (L i j : Nat), i = L → j = L + 1 →
              List.drop i X = List.drop j (a :: X) := by
            intro X L i j hi hj; subst hi; subst hj; rfl
          simp only [List.append_assoc, List.cons_append, List.nil_append]
          exact key _ (List.filterMap (entryFor E cfg) vs).length _ _ (by omega) (by omega)
      · simp only [hlt, decide_false, Bool.false_eq_true, if_false]
        simp [List.append_assoc]

end DC.Deque
