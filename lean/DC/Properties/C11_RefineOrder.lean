/-
C11 (refinement, continued) — `rotate` and `reverse`.  Both move items by reading their value
and storing it again (`rotate`: pop at one end, append at the other; `reverse`: copy everything
out back to front — into a temporary Deque, which must be able to store it —, clear, extend), so
every moved item gets a new queue key — one unit of the budget
per move — and a new stored representation.
-- added: `∀ e ∈ m.items, restores E cfg e` — storing the value of an item again gives the same
stored representation (deterministic serializer, `loads` inverts it); `rotate_needs_restores`
is the counterexample.
-/
import DC.Properties.C11_RefineSearch
import DC.Properties.C11_RefineExtend
import DC.Proofs.DRefineRotate

namespace DC.Deque
open DC.Cache DC.Spec DC.DSpec

theorem restores_spec {E : Externals} {cfg : Cfg} {e : Spec.Entry} (h : restores E cfg e = true) :
    ∃ v, valueOf e E cfg = .val v ∧ entryFor E cfg v = some e := by
  unfold restores at h
  split at h
  · rename_i v hv
    exact ⟨v, hv, of_decide_eq_true h⟩
  · cases h

/-- one step of `rotate` on the model: pop at one end, append at the other -/
def rot1 (E : Externals) (now : Int) (right : Bool) (d : Deque) : Deque :=
  match (d.pop E now (!right)).2 with
  | .val v => ((d.pop E now (!right)).1.append E now v right).1
  | _ => (d.pop E now (!right)).1

theorem rotateLoop_succ (E : Externals) (now : Int) (right : Bool) (k : Nat) (d : Deque) :
    rotateLoop E now right (k + 1) d =
      match (d.pop E now (!right)).2 with
      | .val v =>
        match (d.pop E now (!right)).1.append E now v right with
        | (d2, .exc e) => (d2, .exc e)
        | (d2, _) => rotateLoop E now right k d2
      | .exc e => if e == "IndexError" then ((d.pop E now (!right)).1, .none) else ((d.pop E now (!right)).1, .exc e)
      | _ => rotateLoop E now right k (d.pop E now (!right)).1 := rfl

/-- one step on the list -/
def srot (right : Bool) (l : List Spec.Entry) : List Spec.Entry := if right then rotr l else rotl l

theorem srot_nil (right : Bool) : srot right [] = [] := by cases right <;> rfl

theorem srot_mem (right : Bool) (l : List Spec.Entry) : ∀ e ∈ srot right l, e ∈ l := by
  intro e he
  cases right with
  | true =>
    simp only [srot, if_true, rotr] at he
    cases hl : l.getLast? with
    | none => rw [hl] at he; exact he
    | some x =>
      rw [hl] at he
      rcases List.mem_cons.1 he with h | h
      · rw [h]; exact List.mem_of_getLast? hl
      · exact List.dropLast_subset l h
  | false =>
    simp only [srot, Bool.false_eq_true, if_false, rotl] at he
    cases l with
    | nil => exact he
    | cons x t =>
      simp only [List.mem_append, List.mem_singleton] at he
      rcases he with h | h
      · exact List.mem_cons_of_mem _ h
      · rw [h]; exact List.mem_cons_self

theorem srot_length (right : Bool) (l : List Spec.Entry) : (srot right l).length = l.length := by
  cases right with
  | true =>
    simp only [srot, if_true, rotr]
    cases hl : l.getLast? with
    | none => rfl
    | some x =>
      have : 0 < l.length := by
        cases l with
        | nil => cases hl
        | cons a t => simp
      simp only [List.length_cons, List.length_dropLast]
      omega
  | false =>
    simp only [srot, Bool.false_eq_true, if_false, rotl]
    cases l with
    | nil => rfl
    | cons x t => simp

/-- the step of the specification in terms of the end that is popped (`left = !right`) -/
theorem srot_eq (right : Bool) (l : List Spec.Entry) :
    srot right l =
      match (if (!right) then l.head? else l.getLast?) with
      | none => l
      | some x => if right then x :: l.dropLast else l.tail ++ [x] := by
  cases right with
  | true =>
    simp only [srot, if_true, rotr, Bool.not_true, Bool.false_eq_true, if_false]
    cases l.getLast? <;> rfl
  | false =>
    simp only [srot, Bool.false_eq_true, if_false, rotl, Bool.not_false, if_true]
    cases l <;> rfl

/-- one step: pop and append again — the list is rotated by one, one unit of the budget is used -/
theorem rot1_all (d : Deque) (m : DList) (n : Nat) (E : Externals) (now : Int) (right : Bool)
    (hok : OkN d (n + 1)) (hr : DRefines d m)
    (hrt : ∀ e ∈ m.items, restores E d.cache.cfg e = true) :
    DRefines (rot1 E now right d) { m with items := srot right m.items } ∧
    OkN (rot1 E now right d) n ∧ (rot1 E now right d).cache.cfg = d.cache.cfg ∧
    (((d.pop E now (!right)).2 = .exc "IndexError" ∧ m.items = []) ∨
     (∃ v, (d.pop E now (!right)).2 = .val v ∧ ((d.pop E now (!right)).1.append E now v right).2 = .none)) := by
  obtain ⟨hpo, hpr⟩ := pop_drefines d m (n + 1) E now (!right) hok hr
  have hpok := pop_okN d (n + 1) E now (!right) hok
  have hpcfg : (d.pop E now (!right)).1.cache.cfg = d.cache.cfg := pull_cfg d (n + 1) E now (!right) hok
  unfold DSpec.pop at hpo hpr
  rw [srot_eq]
  unfold rot1
  cases hh : (if (!right) = true then m.items.head? else m.items.getLast?) with
  | none =>
    rw [hh] at hpo hpr
    simp only at hpo hpr ⊢
    rw [hpo]
    exact ⟨hpr, hpok.mono, hpcfg, .inl ⟨rfl, drf_end_none hh⟩⟩
  | some e =>
    rw [hh] at hpo hpr
    simp only at hpo hpr ⊢
    have hmem : e ∈ m.items := by
      cases right with
      | true => exact List.mem_of_getLast? hh
      | false => exact List.mem_of_head? hh
    obtain ⟨v, hv, hef⟩ := restores_spec (hrt e hmem)
    rw [hpo, hv]
    simp only
    obtain ⟨hao, har⟩ := append_drefines (d.pop E now (!right)).1 _ n E now v right hpok hpr
    have haok := append_okN (d.pop E now (!right)).1 n E now v right hpok
    have hacfg := append_cfg (d.pop E now (!right)).1 n E now v right hpok
    rw [hpcfg] at har hao
    rw [spec_append_some _ E _ v right e hef] at har hao
    refine ⟨?_, haok, hacfg.trans hpcfg, .inr ⟨v, rfl, hao⟩⟩
    -- no trimming: the list is as long as before
    have hbound : ∀ k, m.maxlen = some k → m.items.length ≤ k := by
      intro k hk
      have := hok.bounded k (by rw [hr.2]; exact hk)
      rw [hr.length]; exact this
    have hpos : 0 < m.items.length := by
      cases hmi : m.items with
      | nil => rw [hmi] at hmem; cases hmem
      | cons a t => simp
    have hnotrim : ∀ (L : List Spec.Entry), L.length = m.items.length → trimTo m.maxlen right L = L := by
      intro L hL
      unfold trimTo overLen
      cases hm : m.maxlen with
      | none => rfl
      | some k =>
        have := hbound k hm
        simp only [decide_eq_true_eq]
        rw [if_neg (by omega)]
    simp only at har
    rw [hnotrim] at har
    · cases right with
      | true => exact har
      | false => exact har
    · cases right with
      | true =>
        simp only [Bool.not_true, Bool.false_eq_true, if_false, if_true, List.length_cons,
          List.length_dropLast]
        omega
      | false =>
        simp only [Bool.not_false, if_true, Bool.false_eq_true, if_false, List.length_append,
          List.length_tail, List.length_cons, List.length_nil]
        omega

/-- `k` steps -/
theorem rotateLoop_all (E : Externals) (now : Int) (right : Bool) : ∀ (k : Nat) (d : Deque) (m : DList) (n : Nat),
    OkN d (n + k) → DRefines d m → (∀ e ∈ m.items, restores E d.cache.cfg e = true) →
    (rotateLoop E now right k d).2 = .none ∧
    DRefines (rotateLoop E now right k d).1 { m with items := iter_ (srot right) k m.items } ∧
    OkN (rotateLoop E now right k d).1 n ∧ (rotateLoop E now right k d).1.cache.cfg = d.cache.cfg
  | 0, d, m, n, hok, hr, _ => ⟨rfl, hr, hok, rfl⟩
  | k + 1, d, m, n, hok, hr, hrt => by
    have hok1 : OkN d ((n + k) + 1) := hok
    obtain ⟨h1, h2, h3, hcase⟩ := rot1_all d m (n + k) E now right hok1 hr hrt
    rw [rotateLoop_succ]
    unfold rot1 at h1 h2 h3
    rcases hcase with ⟨ho, hnil⟩ | ⟨v, ho, hao⟩
    · -- the pop found nothing: the deque is empty, and stays so
      rw [ho] at h1 h2 h3 ⊢
      simp only at h1 h2 h3 ⊢
      have hit : ∀ j, iter_ (srot right) j ([] : List Spec.Entry) = [] := by
        intro j
        induction j with
        | zero => rfl
        | succ j ih => show iter_ (srot right) j (srot right []) = []; rw [srot_nil]; exact ih
      rw [hnil, hit]
      rw [hnil, srot_nil] at h1
      exact ⟨rfl, h1, h2.weaken, h3⟩
    · rw [ho] at h1 h2 h3 ⊢
      simp only at h1 h2 h3 ⊢
      obtain ⟨g0, g1, g2, g3⟩ := rotateLoop_all E now right k _ _ n h2 h1
        (fun e he => by rw [h3]; exact hrt e (srot_mem right m.items e he))
      have hstep : (match (d.pop E now (!right)).1.append E now v right with
          | (d2, .exc e) => (d2, Out.exc e)
          | (d2, _) => rotateLoop E now right k d2) =
          rotateLoop E now right k ((d.pop E now (!right)).1.append E now v right).1 := by
        generalize (d.pop E now (!right)).1.append E now v right = pr at hao
        obtain ⟨d2, o2⟩ := pr
        simp only at hao
        subst hao
        rfl
      rw [hstep]
      exact ⟨g0, g1, g2, g3.trans h3⟩

theorem iter_srot (right : Bool) (k : Nat) (l : List Spec.Entry) :
    iter_ (srot right) k l = if right then iter_ rotr k l else iter_ rotl k l := by
  cases right with
  | true =>
    have : srot true = rotr := funext (fun l => rfl)
    rw [this]; rfl
  | false =>
    have : srot false = rotl := funext (fun l => rfl)
    rw [this]; rfl

theorem rotate_all (d : Deque) (m : DList) (n : Nat) (E : Externals) (now : Int) (steps : Int)
    (hok : OkN d (n + (DOp.rotate E now steps).cost (items d).length)) (hr : DRefines d m)
    (hrt : ∀ e ∈ m.items, restores E d.cache.cfg e = true) :
    (d.rotate E now steps).2 = (DSpec.rotate m steps).2 ∧
    DRefines (d.rotate E now steps).1 (DSpec.rotate m steps).1 ∧
    OkN (d.rotate E now steps).1 n ∧ (d.rotate E now steps).1.cache.cfg = d.cache.cfg := by
  have hcount : d.cache.count = ((items d).length : Int) := by
    rw [hok.good.tinv.tbl.count, hok.items_length]
  have hlen := hr.length
  unfold rotate DSpec.rotate
  rw [hcount, hlen]
  dsimp only
  simp only [DOp.cost] at hok
  by_cases h0 : (items d).length = 0
  · have hb : (((items d).length : Int) == 0) = true := by simp [h0]
    rw [if_pos hb, if_pos h0]
    rw [if_pos h0] at hok
    exact ⟨rfl, hr, hok, rfl⟩
  · have hb : (((items d).length : Int) == 0) = false := by simp [h0]
    rw [hb, if_neg h0]
    rw [if_neg h0] at hok
    simp only [Bool.false_eq_true, if_false]
    by_cases hs : 0 ≤ steps
    · rw [if_pos hs] at hok
      rw [if_pos (show steps ≥ 0 from hs), if_pos hs]
      obtain ⟨h0, h1, h2, h3⟩ := rotateLoop_all E now true _ d m n hok hr hrt
      rw [iter_srot] at h1
      exact ⟨h0, h1, h2, h3⟩
    · rw [if_neg hs] at hok
      rw [if_neg (show ¬ steps ≥ 0 from hs), if_neg hs]
      obtain ⟨h0, h1, h2, h3⟩ := rotateLoop_all E now false _ d m n hok hr hrt
      rw [iter_srot] at h1
      exact ⟨h0, h1, h2, h3⟩

/-- `rotate(steps)`: the list is rotated, one unit of the budget per single step -/
theorem rotate_drefines (d : Deque) (m : DList) (n : Nat) (E : Externals) (now : Int) (steps : Int)
    (hok : OkN d (n + (DOp.rotate E now steps).cost (items d).length)) (hr : DRefines d m)
    (hrt : ∀ e ∈ m.items, restores E d.cache.cfg e = true) -- added: every item is stored again as it was
    : (d.rotate E now steps).2 = (DSpec.rotate m steps).2 ∧
    DRefines (d.rotate E now steps).1 (DSpec.rotate m steps).1 :=
  ⟨(rotate_all d m n E now steps hok hr hrt).1, (rotate_all d m n E now steps hok hr hrt).2.1⟩

theorem rotate_okN (d : Deque) (n : Nat) (E : Externals) (now : Int) (steps : Int)
    (hok : OkN d (n + (DOp.rotate E now steps).cost (items d).length))
    (hrt : ∀ r ∈ items d, restores E d.cache.cfg (entryOfRow d.cache r) = true) :
    OkN (d.rotate E now steps).1 n :=
  (rotate_all d { items := (items d).map (entryOfRow d.cache), maxlen := d.maxlen } n E now steps hok
    ⟨rfl, rfl⟩ (fun e he => by
      obtain ⟨r, hr, rfl⟩ := List.mem_map.1 he
      exact hrt r hr)).2.2.1

/-! ### `reverse` -/

theorem reverse_eq (d : Deque) (E : Externals) (now : Int) :
    d.reverse E now =
      if (outVals (Fanout.outList (d.iterVals E now true).2)).all (tempStorable E) then
        ((d.iterVals E now true).1.clear).1.extend E now (outVals (Fanout.outList (d.iterVals E now true).2)) false
      else ((d.iterVals E now true).1, .exc "UnicodeEncodeError") := rfl

theorem outVals_cons_val (v : PyVal) (rest : List Out) : outVals (.val v :: rest) = v :: outVals rest := rfl

/-- what a deque with the pickle `Disk` can store, the temporary Deque of `reverse` can store too
(whether a value can be stored does not depend on `disk_min_file_size`) -/
theorem tempStorable_of_entryFor (E : Externals) (cfg : Cfg) (hdisk : cfg.disk = .pickle) (v : PyVal)
    (e : Spec.Entry) (h : entryFor E cfg v = some e) : tempStorable E v = true := by
  rcases entryFor_cases E cfg v with ⟨h0, -⟩ | ⟨p, hpl, hbind, -⟩
  · rw [h0] at h; cases h
  · rw [hdisk] at hpl
    unfold tempStorable
    show (match Disk.place E 32768 v false with
      | .error _ => false | .ok (.inline _ sv) => bindable sv | .ok (.file _ _) => true) = true
    have hpl' : Disk.place E cfg.minFileSize v false = .ok p := hpl
    unfold Disk.place at hpl' ⊢
    simp only [Bool.false_eq_true, if_false] at hpl' ⊢
    cases v with
    | str s =>
      simp only at hpl' ⊢
      have hu : (utf8enc s).isSome = true := by
        split at hpl'
        · cases hpl'; exact hbind
        · split at hpl'
          · assumption
          · cases hpl'
      by_cases hl : s.length < 32768
      · simp only [hl, if_true]; exact hu
      · simp only [hl, if_false, hu, if_true]
    | int i =>
      simp only
      by_cases hi : inI64 i = true
      · simp only [hi, if_true]; exact hi
      · simp only [hi, Bool.false_eq_true, if_false]
        by_cases hl : (E.dumpsV (.int i)).length < 32768 <;> simp only [hl, if_true, if_false] <;> rfl
    | float f =>
      simp only
      by_cases hn : floatIsNaN f = true
      · simp only [hn, if_true]
        by_cases hl : (E.dumpsV (.float f)).length < 32768 <;> simp only [hl, if_true, if_false] <;> rfl
      · simp only [hn, Bool.false_eq_true, if_false]; rfl
    | bytes b =>
      simp only
      by_cases hl : b.length < 32768 <;> simp only [hl, if_true, if_false] <;> rfl
    | none =>
      simp only
      by_cases hl : (E.dumpsV .none).length < 32768 <;> simp only [hl, if_true, if_false] <;> rfl
    | obj o =>
      simp only
      by_cases hl : (E.dumpsV (.obj o)).length < 32768 <;> simp only [hl, if_true, if_false] <;> rfl

/-- extending the bounded list with the values of the entries `L` (each stored again as it was, no
overflow) appends the entries -/
theorem spec_extend_restores (E : Externals) (cfg : Cfg) : ∀ (L : List Spec.Entry) (m : DList),
    (∀ e ∈ L, restores E cfg e = true) → (∀ k, m.maxlen = some k → m.items.length + L.length ≤ k) →
    DSpec.extend m E cfg (outVals (L.map (fun e => valueOf e E cfg))) false =
      ({ m with items := m.items ++ L }, .none) ∧
    (outVals (L.map (fun e => valueOf e E cfg))).length = L.length ∧
    (cfg.disk = .pickle → (outVals (L.map (fun e => valueOf e E cfg))).all (tempStorable E) = true)
  | [], m, _, _ => by
    refine ⟨?_, rfl, fun _ => rfl⟩
    show (m, Out.none) = _
    rw [List.append_nil]
  | e :: L, m, hrt, hb => by
    obtain ⟨v, hv, hef⟩ := restores_spec (hrt e List.mem_cons_self)
    simp only [List.map_cons, hv, outVals_cons_val]
    have hnotrim : trimTo m.maxlen false (m.items ++ [e]) = m.items ++ [e] := by
      unfold trimTo overLen
      cases hm : m.maxlen with
      | none => rfl
      | some k =>
        have := hb k hm
        simp only [decide_eq_true_eq, List.length_append, List.length_cons, List.length_nil] at this ⊢
        rw [if_neg (by omega)]
    obtain ⟨g1, g2, g3⟩ := spec_extend_restores E cfg L { m with items := m.items ++ [e] }
      (fun x hx => hrt x (List.mem_cons_of_mem _ hx))
      (fun k hk => by
        have := hb k hk
        simp only [List.length_append, List.length_cons, List.length_nil] at this ⊢
        omega)
    refine ⟨?_, by simp only [List.length_cons, g2], fun hd => ?_⟩
    · rw [spec_extend_cons_some m E cfg v _ false e hef, spec_append_some m E cfg v false e hef]
      simp only [Bool.false_eq_true, if_false]
      rw [hnotrim, g1]
      simp only [List.append_assoc, List.cons_append, List.nil_append]
    · simp only [List.all_cons, Bool.and_eq_true]
      exact ⟨tempStorable_of_entryFor E cfg hd v e hef, g3 hd⟩

theorem reverse_all (d : Deque) (m : DList) (n : Nat) (E : Externals) (now : Int)
    (hok : OkN d (n + (items d).length)) (hr : DRefines d m)
    (hpg : 0 < d.cache.cfg.page) (hdisk : d.cache.cfg.disk = .pickle)
    (hrt : ∀ e ∈ m.items, restores E d.cache.cfg e = true) :
    (d.reverse E now).2 = (DSpec.reverse m).2 ∧
    DRefines (d.reverse E now).1 (DSpec.reverse m).1 ∧
    OkN (d.reverse E now).1 n ∧ (d.reverse E now).1.cache.cfg = d.cache.cfg := by
  obtain ⟨hi1, hi2⟩ := iter_drefines d m _ E now true hok hr hdisk
  have hiok := iter_okN d _ E now true hok
  have hicfg : (d.iterVals E now true).1.cache.cfg = d.cache.cfg := by
    rw [iterVals_eq]
    exact congrArg Core.cfg (iter_fold_core d _ E now hok _ d.cache [] hok.good rfl).1
  have hm1 : (DSpec.iter m E d.cache.cfg true).1 = m := rfl
  rw [hm1] at hi2
  obtain ⟨-, hc2⟩ := clear_drefines (d.iterVals E now true).1 m _ hiok hi2 (by rw [hicfg]; exact hpg)
  have hcok := clear_okN (d.iterVals E now true).1 _ hiok
  have hccfg : ((d.iterVals E now true).1.clear).1.cache.cfg = d.cache.cfg :=
    (rf_clear_cfg (d.iterVals E now true).1.cache).trans hicfg
  have hvals : Fanout.outList (d.iterVals E now true).2 =
      m.items.reverse.map (fun e => valueOf e E d.cache.cfg) := by
    rw [hi1]; rfl
  have hlen : m.items.reverse.length = (items d).length := by rw [List.length_reverse, hr.length]
  obtain ⟨s1, s2, s3⟩ := spec_extend_restores E d.cache.cfg m.items.reverse (DSpec.clear m).1
    (fun e he => hrt e (List.mem_reverse.1 he))
    (fun k hk => by
      have := hok.bounded k (by rw [hr.2]; exact hk)
      show 0 + m.items.reverse.length ≤ k
      rw [hlen]; omega)
  rw [reverse_eq, hvals, if_pos (s3 hdisk)]
  obtain ⟨g0, g1, g2, g3⟩ := extend_all ((d.iterVals E now true).1.clear).1 (DSpec.clear m).1 n E now
    (outVals (m.items.reverse.map (fun e => valueOf e E d.cache.cfg))) false
    (by rw [s2, hlen]; exact hcok) hc2
  rw [hccfg, s1] at g0 g1
  refine ⟨g0, ?_, g2, g3.trans hccfg⟩
  simpa [DSpec.clear, DSpec.reverse] using g1

/-- `reverse()`: the list is reversed; one unit of the budget per item -/
theorem reverse_drefines (d : Deque) (m : DList) (n : Nat) (E : Externals) (now : Int)
    (hok : OkN d (n + (items d).length)) (hr : DRefines d m)
    (hpg : 0 < d.cache.cfg.page) -- added: page size of the removal loop of `clear`
    (hdisk : d.cache.cfg.disk = .pickle) -- added: the keys are read back by the pickle `Disk`
    (hrt : ∀ e ∈ m.items, restores E d.cache.cfg e = true) -- added: every item is stored again as it was
    : (d.reverse E now).2 = (DSpec.reverse m).2 ∧
    DRefines (d.reverse E now).1 (DSpec.reverse m).1 :=
  ⟨(reverse_all d m n E now hok hr hpg hdisk hrt).1, (reverse_all d m n E now hok hr hpg hdisk hrt).2.1⟩

theorem reverse_okN (d : Deque) (n : Nat) (E : Externals) (now : Int)
    (hok : OkN d (n + (items d).length))
    (hpg : 0 < d.cache.cfg.page) (hdisk : d.cache.cfg.disk = .pickle)
    (hrt : ∀ r ∈ items d, restores E d.cache.cfg (entryOfRow d.cache r) = true) :
    OkN (d.reverse E now).1 n :=
  (reverse_all d { items := (items d).map (entryOfRow d.cache), maxlen := d.maxlen } n E now hok
    ⟨rfl, rfl⟩ hpg hdisk (fun e he => by
      obtain ⟨r, hr, rfl⟩ := List.mem_map.1 he
      exact hrt r hr)).2.2.1

end DC.Deque

namespace DC.DSpec

/-- **`rotate(steps)` is `steps` single steps**: the bounded list after `DSpec.rotate m steps` is
`m.items` rotated one step to the right `steps` times (`collections.deque.rotate`: "rotating one
step to the right is equivalent to `d.appendleft(d.pop())`"), for negative `steps` one step to the
left `-steps` times — for every integer and every list, the empty one included -/
theorem spec_rotate_eq_iter (m : DList) (steps : Int) :
    rotate m steps =
      ({ m with items := if 0 ≤ steps then iter_ rotr steps.toNat m.items
                         else iter_ rotl (-steps).toNat m.items }, .none) := by
  unfold rotate
  by_cases h0 : m.items.length = 0
  · rw [if_pos h0]
    have hnil : m.items = [] := List.eq_nil_of_length_eq_zero h0
    have : (if 0 ≤ steps then iter_ rotr steps.toNat m.items else iter_ rotl (-steps).toNat m.items) = m.items := by
      rw [hnil]
      split
      · exact iter_nil rotr rfl _
      · exact iter_nil rotl rfl _
    rw [this]
  · rw [if_neg h0]
    by_cases hs : 0 ≤ steps
    · rw [if_pos hs, if_pos hs]
      rw [iter_mod rotr rotr_length iter_rotr_len m.items steps.toNat]
      obtain ⟨s, rfl⟩ := Int.eq_ofNat_of_zero_le hs
      have : (((s : Nat) : Int) % (m.items.length : Int)).toNat = s % m.items.length := by omega
      rw [this, Int.toNat_natCast]
    · rw [if_neg hs, if_neg hs]
      rw [iter_mod rotl rotl_length iter_rotl_len m.items (-steps).toNat]
      obtain ⟨s, hs'⟩ := Int.eq_ofNat_of_zero_le (show 0 ≤ -steps by omega)
      rw [hs']
      have : (((s : Nat) : Int) % (m.items.length : Int)).toNat = s % m.items.length := by omega
      rw [this, Int.toNat_natCast]

end DC.DSpec
