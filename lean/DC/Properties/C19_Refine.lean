/-
C19 (refinement) — DjangoCache refines the Django-level specification `DC/Model/DjSpec.lean`
(the cache-backend contract written over the ONE reference dictionary) for every history of
set / add / get / touch / delete / pop / has_key / incr / decr / clear with a clock that never
goes backwards.

Built from C13_Refine: every Django call is one call of the sharded cache under the namespaced
key (`djrf_step_eq`), the Django-level specification is the dictionary's call under the same key
(`djrf_spec_step`), and the namespaced keys are text, so the routing hypothesis of C13_Refine
holds for every history (`djrf_routeOK`).

Statement notes.
 * `DRefines d m clock` is `FRefines d.fan m clock` (all keys); `DGood d` is `FGood d.fan`.
 * `outs` masks the result of `clear` (a row count) by `.none`, as `Cache.outs` does.
 * The contract clauses for histories (`get_unaffected`, `versions_isolated`, `forever_returned`,
   `forever_returns_value`, `nonpositive_never_returned`) carry the -- added: hypothesis
   `(dcfg d).disk = .pickle` (the default `Disk`): two namespaced keys are then one dictionary
   key exactly when they are the same text.  With `JSONDisk` key identity rests on the json+zlib
   codec being injective, an `Externals` law these statements do not assume;
   `get_unaffected_needs_disk` is the counterexample with the (non-injective) toy codec.
 * "until deleted" is rendered as: the calls in between do not *write to* `(key, version)`
   (`writesTo`: anything but `get` / `has_key` addressed to that key under that version, or
   `clear`).  `forever_returned` / `nonpositive_never_returned` assume the `set` returned True
   (a value or key that cannot be stored raises and stores nothing).
-/
import DC.Model.DjSpec
import DC.Properties.C13_Refine
import DC.Properties.C19

namespace DC.Django
open DC.Cache DC.Spec DC.Fanout DC.DjSpec

/-! ### histories on a DjangoCache -/

/-- one call of a history -/
def step (d : Django) : DOp → Django × Out
  | .set E now k v t ver tag => d.set E now k v t ver tag
  | .add E now k v t ver tag => d.add E now k v t ver tag
  | .get E now k ver => d.get E now k ver
  | .touch E now k t ver => d.touch E now k t ver
  | .delete E now k ver => d.delete E now k ver
  | .pop E now k ver => d.pop E now k ver
  | .hasKey E now k ver => d.hasKey E now k ver
  | .incr E now k delta ver => d.incr E now k delta ver
  | .decr E now k delta ver => d.decr E now k delta ver
  | .clear => d.clear

def run (d : Django) (ops : List DOp) : Django := ops.foldl (fun d op => (d.step op).1) d

/-- the calls whose result the dictionary determines (all but `clear`, which counts rows) -/
def determined : DOp → Bool
  | .clear => false
  | _ => true

/-- the results of a history (`clear` masked by `.none`, as in `Cache.outs`) -/
def outs (d : Django) : List DOp → List Out
  | [] => []
  | op :: ops => (if determined op then (d.step op).2 else .none) :: outs (d.step op).1 ops

/-- what the cache is configured with -/
def conf (d : Django) : Conf :=
  { keyPrefix := d.keyPrefix, version := d.version, defaultTimeout := d.defaultTimeout }

/-- the clock value of a call -/
def dclock : DOp → Option Int
  | .set _ now .. | .add _ now .. | .get _ now .. | .touch _ now .. | .delete _ now ..
  | .pop _ now .. | .hasKey _ now .. | .incr _ now .. | .decr _ now .. => some now
  | .clear => none

def dmonotoneB : Int → List DOp → Bool
  | _, [] => true
  | t, op :: ops =>
    match dclock op with
    | some n => decide (t ≤ n) && dmonotoneB n ops
    | none => dmonotoneB t ops

/-- clocks of a history never go backwards -/
def DMonotone (t : Int) (ops : List DOp) : Prop := dmonotoneB t ops = true

instance (t : Int) (ops : List DOp) : Decidable (DMonotone t ops) :=
  inferInstanceAs (Decidable (dmonotoneB t ops = true))

/-! ### a Django call is a call of the sharded cache under the namespaced key -/

/-- the FanoutCache call a Django call makes -/
def toOp (C : Conf) : DOp → Cache.Op
  | .set E now k v t ver tag => .set E now (key C k ver) v (ttl C t) false tag
  | .add E now k v t ver tag => .add E now (key C k ver) v (ttl C t) false tag
  | .get E now k ver => .get E now (key C k ver) false false false
  | .touch E now k t ver => .touch E now (key C k ver) (ttl C t)
  | .delete E now k ver => .delete E now (key C k ver)
  | .pop E now k ver => .pop E now (key C k ver) false false
  | .hasKey E now k ver => .contains E now (key C k ver)
  | .incr E now k delta ver => .incr E now (key C k ver) delta none
  | .decr E now k delta ver => .incr E now (key C k ver) (-delta) none
  | .clear => .clear

/-- KeyError becomes ValueError -/
def valueErr (o : Out) : Out :=
  match o with
  | .exc "KeyError" => .exc "ValueError"
  | o => o

/-- what Django does with the result -/
def post : DOp → Out → Out
  | .incr .., o => valueErr o
  | .decr .., o => valueErr o
  | _, o => o

theorem djrf_makeKey (d : Django) (k : Str) (ver : Option Int) :
    d.makeKey k ver = key (conf d) k ver := by
  simp [makeKey, key, verText, digits, intDigits_eq, conf]
  rfl

theorem djrf_ttl (d : Django) (t : Timeout) : d.backendTimeout t = ttl (conf d) t := by
  cases t with
  | dflt => rfl
  | forever => rfl
  | secs t =>
    unfold backendTimeout ttl
    by_cases h : t = 0 <;> simp [h]

theorem djrf_step_eq (d : Django) (op : DOp) :
    d.step op = ({ d with fan := (d.fan.step (toOp (conf d) op)).1 },
      post op (d.fan.step (toOp (conf d) op)).2) := by
  cases op <;>
    simp only [step, Django.set, Django.add, Django.get, Django.touch, Django.delete, Django.pop,
      Django.hasKey, Django.incr, Django.decr, Django.clear, djrf_makeKey, djrf_ttl, toOp,
      Fanout.step, post, valueErr] <;> rfl

theorem djrf_step_conf (d : Django) (op : DOp) : conf (d.step op).1 = conf d := by
  rw [djrf_step_eq]; rfl

theorem djrf_step_fan (d : Django) (op : DOp) :
    (d.step op).1.fan = (d.fan.step (toOp (conf d) op)).1 := by
  rw [djrf_step_eq]

/-! ### the Django-level specification is the dictionary's call under the namespaced key -/

/-- `DjSpec.incr` (ValueError when there is no item or it expired) is `Spec.incr` without default
with KeyError turned into ValueError -/
theorem djrf_incr_spec (m : Spec.Dict) (C : Conf) (cfg : Cfg) (E : Externals) (now : Int) (k : Str)
    (delta : Int) (ver : Option Int) :
    DjSpec.incr m C cfg E now k delta ver =
      ((Spec.incr m E cfg now (key C k ver) delta none).1,
        valueErr (Spec.incr m E cfg now (key C k ver) delta none).2) := by
  unfold DjSpec.incr
  rw [specIncr_eq]
  cases m.get (keyOf E cfg (key C k ver)) with
  | none => rfl
  | some e =>
    simp only
    split
    · rfl
    · cases e.val with
      | int i => simp only; split <;> rfl
      | null => rfl
      | real b => rfl
      | text b => rfl
      | blob b => rfl

theorem djrf_spec_step (m : Spec.Dict) (C : Conf) (cfg : Cfg) (op : DOp) :
    DjSpec.step m C cfg op =
      ((Spec.step m cfg (toOp C op)).1, post op (Spec.step m cfg (toOp C op)).2) := by
  cases op <;> first
    | rfl
    | exact djrf_incr_spec ..

/-! ### the translation preserves what the history theorem of C13_Refine asks for -/

theorem djrf_keyed (C : Conf) (op : DOp) : Keyed (toOp C op) = true := by
  cases op <;> rfl

theorem djrf_determined (C : Conf) (op : DOp) : Determined (toOp C op) = determined op := by
  cases op <;> rfl

theorem djrf_opClock (C : Conf) (op : DOp) : opClock (toOp C op) = dclock op := by
  cases op <;> rfl

theorem djrf_monotone (C : Conf) (t : Int) (ops : List DOp) :
    Cache.Monotone t (ops.map (toOp C)) ↔ DMonotone t ops := by
  unfold Cache.Monotone DMonotone
  induction ops generalizing t with
  | nil => exact Iff.rfl
  | cons op ops ih =>
    rw [List.map_cons, monotoneB, dmonotoneB, djrf_opClock]
    cases dclock op with
    | none => exact ih t
    | some n =>
      simp only [Bool.and_eq_true, decide_eq_true_eq]
      exact and_congr Iff.rfl (ih n)

/-- every namespaced key is text: not a number -/
theorem djrf_nonnumeric (C : Conf) (ops : List DOp) :
    histPyAll (fun k => !pyIsNumber k) (ops.map (toOp C)) = true := by
  unfold histPyAll
  rw [List.all_map, List.all_eq_true]
  intro op _
  cases op <;> rfl

/-- **the routing hypothesis is automatic**: the keys DjangoCache hands to the sharded cache are
text, and text is equal only to itself (D11 cannot occur) -/
theorem djrf_routeOK (d : Django) (ops : List DOp) (V : Spec.Key → Prop) :
    RouteOK d.fan (histKeys (fcfg d.fan) (ops.map (toOp (conf d)))) V :=
  routeOK_of_nonnumeric d.fan _ V (fun op hop E k hkey => by
    simpa using frf_histPyAll (djrf_nonnumeric (conf d) ops) op hop E k hkey)

/-! ### histories: model and specification through the translation -/

/-- apply `post` along a history -/
def postAll : List DOp → List Out → List Out
  | op :: ops, o :: os => post op o :: postAll ops os
  | _, _ => []

theorem djrf_run_cons (d : Django) (op : DOp) (ops : List DOp) :
    d.run (op :: ops) = (d.step op).1.run ops := rfl

theorem djrf_run (d : Django) (ops : List DOp) :
    (d.run ops).fan = d.fan.run (ops.map (toOp (conf d))) ∧ conf (d.run ops) = conf d := by
  induction ops generalizing d with
  | nil => exact ⟨rfl, rfl⟩
  | cons op ops ih =>
    rw [djrf_run_cons, List.map_cons, frf_run_cons]
    obtain ⟨h1, h2⟩ := ih (d.step op).1
    rw [djrf_step_conf] at h1 h2
    rw [djrf_step_fan] at h1
    exact ⟨h1, h2⟩

theorem djrf_post_none (op : DOp) (h : determined op = false) : post op .none = .none := by
  cases op <;> first | rfl | cases h

theorem djrf_outs (d : Django) (ops : List DOp) :
    outs d ops = postAll ops (Fanout.outs d.fan (ops.map (toOp (conf d)))) := by
  induction ops generalizing d with
  | nil => rfl
  | cons op ops ih =>
    rw [outs, List.map_cons, Fanout.outs, postAll, ih, djrf_step_conf, djrf_step_fan,
      djrf_determined]
    congr 1
    cases hdet : determined op with
    | true => simp only [if_true]; rw [djrf_step_eq]
    | false => simp only [Bool.false_eq_true, if_false]; exact (djrf_post_none op hdet).symm

theorem djrf_spec_run (m : Spec.Dict) (C : Conf) (cfg : Cfg) (ops : List DOp) :
    DjSpec.run m C cfg ops = Spec.run m cfg (ops.map (toOp C)) := by
  induction ops generalizing m with
  | nil => rfl
  | cons op ops ih =>
    show DjSpec.run (DjSpec.step m C cfg op).1 C cfg ops = _
    rw [ih, djrf_spec_step, List.map_cons, spec_run_cons]

theorem djrf_spec_outs (m : Spec.Dict) (C : Conf) (cfg : Cfg) (ops : List DOp) :
    DjSpec.outs m C cfg ops = postAll ops (Spec.outs m cfg (ops.map (toOp C))) := by
  induction ops generalizing m with
  | nil => rfl
  | cons op ops ih =>
    rw [DjSpec.outs, List.map_cons, Spec.outs, postAll, ih, djrf_spec_step]

/-! ### the relation, the invariant, the history theorem -/

/-- the DjangoCache represents the dictionary `m`: its sharded cache does (C13_Refine) -/
def DRefines (d : Django) (m : Spec.Dict) (clock : Int) : Prop := FRefines d.fan m clock

/-- the invariant: that of the sharded cache (at least one shard, every shard quiescent and
consistent, one configuration without size limit) -/
def DGood (d : Django) : Prop := FGood d.fan

/-- the configuration of the shards -/
def dcfg (d : Django) : Cfg := fcfg d.fan

/-- the history theorem with everything the induction carries -/
theorem djrun_refines_strong (d : Django) (m : Spec.Dict) (clock : Int) (ops : List DOp)
    (hg : DGood d) (hr : DRefines d m clock) (hm : DMonotone clock ops) :
    outs d ops = DjSpec.outs m (conf d) (dcfg d) ops ∧
    (∃ clock', DRefines (d.run ops) (DjSpec.run m (conf d) (dcfg d) ops) clock') ∧
    DGood (d.run ops) ∧ dcfg (d.run ops) = dcfg d ∧ conf (d.run ops) = conf d := by
  obtain ⟨h1, h2, h3, h4, -⟩ := frun_refines_on_strong (fun _ => True) d.fan m clock
    (ops.map (toOp (conf d))) hg hr
    (fun op hop => by
      obtain ⟨o, -, rfl⟩ := List.mem_map.1 hop
      exact djrf_keyed _ o)
    ((djrf_monotone _ _ _).2 hm) (fun _ _ => trivial) (djrf_routeOK d ops _)
  obtain ⟨r1, r2⟩ := djrf_run d ops
  refine ⟨?_, ⟨lastClock clock (ops.map (toOp (conf d))), ?_⟩, ?_, ?_, r2⟩
  · rw [djrf_outs, djrf_spec_outs, h1]; rfl
  · unfold DRefines
    rw [r1, djrf_spec_run]
    exact h2
  · unfold DGood; rw [r1]; exact h3
  · unfold dcfg; rw [r1]; exact h4

/-- **the history theorem**: for every history of Django cache calls with a clock that never goes
backwards, every call returns what the Django-level specification over the ONE reference
dictionary returns, and the final states correspond — whatever the number of shards.  No routing
hypothesis: the namespaced keys are text (`djrf_routeOK`). -/
theorem djrun_refines (d : Django) (m : Spec.Dict) (clock : Int) (ops : List DOp)
    (hg : DGood d) (hr : DRefines d m clock) (hm : DMonotone clock ops) :
    outs d ops = DjSpec.outs m (conf d) (dcfg d) ops ∧
    ∃ clock', DRefines (d.run ops) (DjSpec.run m (conf d) (dcfg d) ops) clock' :=
  ⟨(djrun_refines_strong d m clock ops hg hr hm).1, (djrun_refines_strong d m clock ops hg hr hm).2.1⟩

/-- a fresh DjangoCache over `n ≥ 1` shards without size limit: the invariant holds and it
represents the empty dictionary -/
theorem django_init (n : Nat) (cf : Cfg) (st : Bool) (pre : Str) (ver : Int) (dt : Option Int)
    (hn : 1 ≤ n) (hp : cf.policy = .none) (hpg : 0 < cf.page) (clock : Int) :
    DGood { fan := Fanout.init n cf st, keyPrefix := pre, version := ver, defaultTimeout := dt } ∧
    DRefines { fan := Fanout.init n cf st, keyPrefix := pre, version := ver, defaultTimeout := dt }
      [] clock :=
  ⟨fgood_init n cf st hn hp hpg, frefines_init n cf st hn clock⟩

/-! ### what a call returns after a history -/

theorem djrf_run_append (d : Django) (a b : List DOp) : d.run (a ++ b) = (d.run a).run b := by
  unfold run; rw [List.foldl_append]

theorem djrf_spec_run_append (m : Spec.Dict) (C : Conf) (cfg : Cfg) (a b : List DOp) :
    DjSpec.run m C cfg (a ++ b) = DjSpec.run (DjSpec.run m C cfg a) C cfg b := by
  unfold DjSpec.run; rw [List.foldl_append]

theorem djrf_outs_append (d : Django) (ops : List DOp) (g : DOp) :
    outs d (ops ++ [g]) =
      outs d ops ++ [if determined g then ((d.run ops).step g).2 else .none] := by
  induction ops generalizing d with
  | nil => rfl
  | cons op ops ih =>
    show _ :: outs (d.step op).1 (ops ++ [g]) = _ :: _ ++ _
    rw [ih]; rfl

theorem djrf_spec_outs_append (m : Spec.Dict) (C : Conf) (cfg : Cfg) (ops : List DOp) (g : DOp) :
    DjSpec.outs m C cfg (ops ++ [g]) =
      DjSpec.outs m C cfg ops ++ [(DjSpec.step (DjSpec.run m C cfg ops) C cfg g).2] := by
  induction ops generalizing m with
  | nil => rfl
  | cons op ops ih =>
    show _ :: DjSpec.outs (DjSpec.step m C cfg op).1 C cfg (ops ++ [g]) = _ :: _ ++ _
    rw [ih]; rfl

/-- **what a user sees**: after any history with a non-decreasing clock, a call returns exactly
what the Django-level specification returns on the dictionary built by that history -/
theorem call_after_history (d : Django) (m : Spec.Dict) (clock : Int) (ops : List DOp) (g : DOp)
    (hg : DGood d) (hr : DRefines d m clock) (hdet : determined g = true)
    (hm : DMonotone clock (ops ++ [g])) :
    ((d.run ops).step g).2 = (DjSpec.step (DjSpec.run m (conf d) (dcfg d) ops) (conf d) (dcfg d) g).2 := by
  have h := (djrun_refines d m clock (ops ++ [g]) hg hr hm).1
  rw [djrf_outs_append, djrf_spec_outs_append, hdet, if_pos rfl] at h
  have := List.append_inj_right' h rfl
  exact List.singleton_inj.1 this

/-! ### clocks of sub-histories -/

theorem djrf_mono_weaken {t n : Int} (h : t ≤ n) {c : List DOp} (hc : DMonotone n c) : DMonotone t c := by
  unfold DMonotone at hc ⊢
  induction c generalizing t n with
  | nil => rfl
  | cons op c ih =>
    rw [dmonotoneB] at hc ⊢
    cases hcl : dclock op with
    | none => rw [hcl] at hc; exact ih h hc
    | some x =>
      rw [hcl] at hc
      simp only [Bool.and_eq_true, decide_eq_true_eq] at hc ⊢
      exact ⟨Int.le_trans h hc.1, hc.2⟩

theorem djrf_mono_prefix {t : Int} {a b : List DOp} (h : DMonotone t (a ++ b)) : DMonotone t a := by
  unfold DMonotone at h ⊢
  induction a generalizing t with
  | nil => rfl
  | cons op a ih =>
    rw [List.cons_append, dmonotoneB] at h
    rw [dmonotoneB]
    cases hcl : dclock op with
    | none => rw [hcl] at h; exact ih h
    | some x =>
      rw [hcl] at h
      simp only [Bool.and_eq_true, decide_eq_true_eq] at h ⊢
      exact ⟨h.1, ih h.2⟩

theorem djrf_mono_suffix {t : Int} {a c : List DOp} (h : DMonotone t (a ++ c)) :
    ∃ t', t ≤ t' ∧ DMonotone t' c := by
  unfold DMonotone at h ⊢
  induction a generalizing t with
  | nil => exact ⟨t, Int.le_refl _, h⟩
  | cons op a ih =>
    rw [List.cons_append, dmonotoneB] at h
    cases hcl : dclock op with
    | none => rw [hcl] at h; exact ih h
    | some x =>
      rw [hcl] at h
      simp only [Bool.and_eq_true, decide_eq_true_eq] at h
      obtain ⟨t', h1, h2⟩ := ih h.2
      exact ⟨t', Int.le_trans h.1 h1, h2⟩

/-- dropping a stretch of calls from a history keeps the clocks non-decreasing -/
theorem djrf_mono_skip {t : Int} {a b c : List DOp} (h : DMonotone t (a ++ b ++ c)) :
    DMonotone t (a ++ c) := by
  induction a generalizing t with
  | nil =>
    obtain ⟨t', h1, h2⟩ := djrf_mono_suffix (a := b) (c := c) h
    exact djrf_mono_weaken h1 h2
  | cons op a ih =>
    unfold DMonotone at h ⊢ ih
    rw [List.cons_append, List.cons_append, dmonotoneB] at h
    rw [List.cons_append, dmonotoneB]
    cases hcl : dclock op with
    | none => rw [hcl] at h; exact ih h
    | some x =>
      rw [hcl] at h
      simp only [Bool.and_eq_true, decide_eq_true_eq] at h ⊢
      exact ⟨h.1, ih h.2⟩

/-! ### the contract clauses, for histories

-- added: `(dcfg d).disk = .pickle` (the default `Disk`): the stored form of a text key is the
text itself, so two namespaced keys are one dictionary key exactly when they are the same text.
With `JSONDisk` the stored key is the compressed JSON of the text, and key identity rests on the
codec being injective (an `Externals` law), which these statements do not assume. -/

/-- the key and the version a call addresses -/
def addr : DOp → Option (Str × Option Int)
  | .set _ _ k _ _ ver _ | .add _ _ k _ _ ver _ | .get _ _ k ver | .touch _ _ k _ ver
  | .delete _ _ k ver | .pop _ _ k ver | .hasKey _ _ k ver | .incr _ _ k _ ver
  | .decr _ _ k _ ver => some (k, ver)
  | .clear => none

/-- calls that only read -/
def isRead : DOp → Bool
  | .get .. | .hasKey .. => true
  | _ => false

/-- may the call change the item of `(k, v)`?  Reads never do, `clear` does, every other call
does when it addresses the key `k` under the version `v` -/
def writesTo (C : Conf) (k : Str) (v : Int) (op : DOp) : Bool :=
  match addr op with
  | none => true
  | some (k', ver') => !isRead op && (k' == k && ver'.getD C.version == v)

theorem djrf_keyOf_pickle (E : Externals) (cfg : Cfg) (hd : cfg.disk = .pickle) (s : Str) :
    keyOf E cfg (.str s) = (.text s, true) := by
  unfold keyOf put; rw [hd]; rfl

/-- namespaced keys are one text only for the same key under the same version -/
theorem djrf_key_inj (C : Conf) (k₁ k₂ : Str) (v₁ v₂ : Option Int) (h : key C k₁ v₁ = key C k₂ v₂) :
    v₁.getD C.version = v₂.getD C.version ∧ k₁ = k₂ := by
  let d : Django := { fan := default, keyPrefix := C.keyPrefix, version := C.version,
                      defaultTimeout := C.defaultTimeout }
  have hc : conf d = C := rfl
  have := makeKey_inj d k₁ k₂ v₁ v₂ (by rw [djrf_makeKey, djrf_makeKey, hc]; exact h)
  exact this

theorem djrf_key_congr (C : Conf) (k : Str) (v₁ v₂ : Option Int)
    (h : v₁.getD C.version = v₂.getD C.version) : key C k v₁ = key C k v₂ := by
  unfold key; rw [h]

/-- different (key, version) pairs are different dictionary keys -/
theorem djrf_sameKey_false (C : Conf) (cfg : Cfg) (hd : cfg.disk = .pickle) (E₁ E₂ : Externals)
    (k₁ k₂ : Str) (v₁ v₂ : Option Int)
    (hne : ¬ (k₁ = k₂ ∧ v₁.getD C.version = v₂.getD C.version)) :
    sameKey (keyOf E₁ cfg (key C k₁ v₁)) (keyOf E₂ cfg (key C k₂ v₂)) = false := by
  cases h : sameKey (keyOf E₁ cfg (key C k₁ v₁)) (keyOf E₂ cfg (key C k₂ v₂)) with
  | false => rfl
  | true =>
    exfalso
    apply hne
    have hk : key C k₁ v₁ = key C k₂ v₂ := by
      unfold key at h ⊢
      rw [djrf_keyOf_pickle _ _ hd, djrf_keyOf_pickle _ _ hd] at h
      simp only [sameKey, SqlVal.eqv, Bool.and_eq_true, beq_iff_eq] at h
      rw [h.1]
    have := djrf_key_inj C k₁ k₂ v₁ v₂ hk
    exact ⟨this.2, this.1⟩

/-- the dictionary key does not depend on the codec (default `Disk`) -/
theorem djrf_keyOf_indep (C : Conf) (cfg : Cfg) (hd : cfg.disk = .pickle) (E₁ E₂ : Externals)
    (k : Str) (v : Option Int) : keyOf E₁ cfg (key C k v) = keyOf E₂ cfg (key C k v) := by
  unfold key
  rw [djrf_keyOf_pickle _ _ hd, djrf_keyOf_pickle _ _ hd]

theorem djrf_get_state (m : Spec.Dict) (E : Externals) (cfg : Cfg) (now : Int) (k : PyVal)
    (read et tg : Bool) : (Spec.get m E cfg now k read et tg).1 = m := by
  unfold Spec.get; split
  · split <;> rfl
  · rfl

/-- a call that does not write to `(k, ver)` leaves the binding of its dictionary key alone -/
theorem djrf_frame (m : Spec.Dict) (C : Conf) (cfg : Cfg) (hd : cfg.disk = .pickle) (op : DOp)
    (E : Externals) (k : Str) (ver : Option Int)
    (hw : writesTo C k (ver.getD C.version) op = false) :
    (DjSpec.step m C cfg op).1.get (keyOf E cfg (key C k ver)) = m.get (keyOf E cfg (key C k ver)) := by
  have aux : ∀ (E' : Externals) (k' : Str) (ver' : Option Int),
      frf_opKey (toOp C op) = some (E', key C k' ver') →
      (k' == k && ver'.getD C.version == ver.getD C.version) = false →
      (Spec.step m cfg (toOp C op)).1.get (keyOf E cfg (key C k ver)) =
        m.get (keyOf E cfg (key C k ver)) := by
    intro E' k' ver' hkey hne
    refine frf_local_frame (frf_step_local cfg (toOp C op) E' _ hkey) m _ ?_
    apply djrf_sameKey_false C cfg hd
    intro h
    simp [h.1, h.2] at hne
  rw [djrf_spec_step]
  cases op <;> simp only [writesTo, addr, isRead, Bool.not_true, Bool.not_false, Bool.true_and,
    Bool.false_and, reduceCtorEq] at hw
  · exact aux _ _ _ rfl hw
  · exact aux _ _ _ rfl hw
  · exact congrArg (fun x => Dict.get x _) (djrf_get_state ..)
  · exact aux _ _ _ rfl hw
  · exact aux _ _ _ rfl hw
  · exact aux _ _ _ rfl hw
  · rfl
  · exact aux _ _ _ rfl hw
  · exact aux _ _ _ rfl hw

theorem djrf_run_frame (m : Spec.Dict) (C : Conf) (cfg : Cfg) (hd : cfg.disk = .pickle)
    (ops : List DOp) (E : Externals) (k : Str) (ver : Option Int)
    (hw : ∀ op ∈ ops, writesTo C k (ver.getD C.version) op = false) :
    (DjSpec.run m C cfg ops).get (keyOf E cfg (key C k ver)) = m.get (keyOf E cfg (key C k ver)) := by
  induction ops generalizing m with
  | nil => rfl
  | cons op ops ih =>
    show (DjSpec.run (DjSpec.step m C cfg op).1 C cfg ops).get _ = _
    rw [ih _ (fun o ho => hw o (List.mem_cons_of_mem _ ho))]
    exact djrf_frame m C cfg hd op E k ver (hw op List.mem_cons_self)

/-- `get` on the specification looks at the binding of its key only -/
theorem djrf_get_out (m₁ m₂ : Spec.Dict) (C : Conf) (cfg : Cfg) (E : Externals) (now : Int) (k : Str)
    (ver : Option Int)
    (h : m₁.get (keyOf E cfg (key C k ver)) = m₂.get (keyOf E cfg (key C k ver))) :
    (DjSpec.step m₁ C cfg (.get E now k ver)).2 = (DjSpec.step m₂ C cfg (.get E now k ver)).2 :=
  frf_local_out (frf_get_local E cfg now (key C k ver) false false false) m₁ m₂ h

/-- **calls that do not write to `(key, version)` do not change what `get(key, version)` returns**:
reads of any key, and set / add / touch / delete / pop / incr / decr of other keys or of the same
key under other versions -/
theorem get_unaffected (d : Django) (m : Spec.Dict) (clock : Int) (ops ops' : List DOp)
    (E : Externals) (now : Int) (k : Str) (ver : Option Int)
    (hg : DGood d) (hr : DRefines d m clock)
    (hd : (dcfg d).disk = .pickle) -- added: default Disk, see above
    (hm : DMonotone clock (ops ++ ops' ++ [.get E now k ver]))
    (hw : ∀ op ∈ ops', writesTo (conf d) k (ver.getD (conf d).version) op = false) :
    ((d.run (ops ++ ops')).step (.get E now k ver)).2 = ((d.run ops).step (.get E now k ver)).2 := by
  rw [call_after_history d m clock (ops ++ ops') _ hg hr rfl hm,
    call_after_history d m clock ops _ hg hr rfl (djrf_mono_skip hm), djrf_spec_run_append]
  exact djrf_get_out _ _ _ _ _ _ _ _ (djrf_run_frame _ _ _ hd ops' E k ver hw)

/-- the added hypothesis is needed: with `JSONDisk` and a codec whose `jsonz` is not injective
(the toy codec maps everything to the empty byte string) all keys are one dictionary key, and
a `set` of key `a` changes what `get` of key `b` returns.  Not a finding about the code: the
real json+zlib codec is injective. -/
theorem get_unaffected_needs_disk :
    ∃ (d : Django) (ops' : List DOp) (E : Externals) (now : Int) (k : Str) (ver : Option Int),
      DGood d ∧ DRefines d [] 0 ∧ DMonotone 0 ([] ++ ops' ++ [.get E now k ver]) ∧
      (∀ op ∈ ops', writesTo (conf d) k (ver.getD (conf d).version) op = false) ∧
      ((d.run ([] ++ ops')).step (.get E now k ver)).2 ≠ ((d.run []).step (.get E now k ver)).2 := by
  refine ⟨{ fan := Fanout.init 1 { policy := .none, disk := .json } false },
    [.set toyV 0 [97] (.int 7) .forever none .null], toyV, 1, [98], none,
    (django_init 1 _ false _ _ _ (by decide) rfl (by decide) 0).1,
    (django_init 1 _ false _ _ _ (by decide) rfl (by decide) 0).2, by decide +kernel,
    by decide +kernel, ?_⟩
  intro h
  have h2 := congrArg (fun o => match o with | .default => true | _ => false) h
  revert h2
  decide +kernel

/-- the version a call addresses (`None` = the configured one); `clear` addresses all -/
def versionOf (C : Conf) (op : DOp) : Option Int := (addr op).map (fun p => p.2.getD C.version)

/-- **different versions never see each other's values**: whatever is done under the version `v'`
(to whatever keys) does not change what `get` under another version returns -/
theorem versions_isolated (d : Django) (m : Spec.Dict) (clock : Int) (ops ops' : List DOp)
    (E : Externals) (now : Int) (k : Str) (ver : Option Int) (v' : Int)
    (hg : DGood d) (hr : DRefines d m clock)
    (hd : (dcfg d).disk = .pickle) -- added: default Disk, see above
    (hm : DMonotone clock (ops ++ ops' ++ [.get E now k ver]))
    (hv : ∀ op ∈ ops', versionOf (conf d) op = some v')
    (hne : v' ≠ ver.getD (conf d).version) :
    ((d.run (ops ++ ops')).step (.get E now k ver)).2 = ((d.run ops).step (.get E now k ver)).2 := by
  refine get_unaffected d m clock ops ops' E now k ver hg hr hd hm (fun op hop => ?_)
  have h := hv op hop
  unfold versionOf at h
  unfold writesTo
  cases ha : addr op with
  | none => rw [ha] at h; cases h
  | some p =>
    rw [ha] at h
    simp only [Option.map_some, Option.some.injEq] at h
    have : (p.2.getD (conf d).version == ver.getD (conf d).version) = false := by
      rw [h]; simpa using hne
    simp [this]

/-- what `set` stores when it returns True -/
theorem djrf_set_true (m : Spec.Dict) (C : Conf) (cfg : Cfg) (E : Externals) (now : Int) (k : Str)
    (v : PyVal) (t : Timeout) (ver : Option Int) (tag : SqlVal)
    (h : (DjSpec.step m C cfg (.set E now k v t ver tag)).2 = .bool true) :
    ∃ p, place E cfg.disk cfg.minFileSize v false = .ok p ∧
      (DjSpec.step m C cfg (.set E now k v t ver tag)).1.get (keyOf E cfg (key C k ver)) =
        some (entryOf p ((ttl C t).map (now + ·)) tag) := by
  show ∃ p, _ ∧ (Spec.set m E cfg now (key C k ver) v (ttl C t) false tag).1.get _ = _
  change (Spec.set m E cfg now (key C k ver) v (ttl C t) false tag).2 = .bool true at h
  unfold Spec.set at h ⊢
  cases hp : place E cfg.disk cfg.minFileSize v false with
  | error e => rw [hp] at h; cases h
  | ok p =>
    rw [hp] at h
    simp only at h ⊢
    split at h
    · rename_i hb
      refine ⟨p, rfl, ?_⟩
      rw [if_pos hb, rf_get_put]
      have hb1 : bindable (keyOf E cfg (key C k ver)).1 = true := by
        simp only [Bool.and_eq_true] at hb; exact hb.1.1
      have hrefl : sameKey (keyOf E cfg (key C k ver)) (keyOf E cfg (key C k ver)) = true := by
        unfold key keyOf put at hb1 ⊢
        cases cfg.disk <;> simp [sameKey, SqlVal.eqv, Disk.put, JSONDisk.put]
      rw [if_pos hrefl]
    · cases h

/-- **a value set with timeout None is returned by every later get, until the key is written
again**: if `set(key, value, timeout=None, version)` returned True, then after any calls that do
not write to `(key, version)`, `get(key, version)` — at any later time — returns the stored value
read back (`Entry.out` of the entry `set` stored) -/
theorem forever_returned (d : Django) (m : Spec.Dict) (clock : Int) (ops ops' : List DOp)
    (E E' : Externals) (now now' : Int) (k : Str) (v : PyVal) (ver ver' : Option Int) (tag : SqlVal)
    (hg : DGood d) (hr : DRefines d m clock)
    (hd : (dcfg d).disk = .pickle) -- added: default Disk, see above
    (hm : DMonotone clock (ops ++ [.set E now k v .forever ver tag] ++ ops' ++ [.get E' now' k ver']))
    (hver : ver'.getD (conf d).version = ver.getD (conf d).version)
    (hset : ((d.run ops).step (.set E now k v .forever ver tag)).2 = .bool true)
    (hw : ∀ op ∈ ops', writesTo (conf d) k (ver.getD (conf d).version) op = false) :
    ∃ p, place E (dcfg d).disk (dcfg d).minFileSize v false = .ok p ∧
      ((d.run (ops ++ [.set E now k v .forever ver tag] ++ ops')).step (.get E' now' k ver')).2 =
        (entryOf p none tag).out E' (dcfg d) false false false := by
  have hm1 : DMonotone clock (ops ++ [.set E now k v .forever ver tag]) :=
    djrf_mono_prefix (djrf_mono_prefix hm)
  rw [call_after_history d m clock ops _ hg hr rfl hm1] at hset
  obtain ⟨p, hp, hget⟩ := djrf_set_true _ _ _ _ _ _ _ _ _ _ hset
  refine ⟨p, hp, ?_⟩
  rw [call_after_history d m clock _ _ hg hr rfl hm, djrf_spec_run_append, djrf_spec_run_append]
  have hk : key (conf d) k ver' = key (conf d) k ver := djrf_key_congr _ k _ _ hver
  have hfr := djrf_run_frame (DjSpec.run (DjSpec.run m (conf d) (dcfg d) ops) (conf d) (dcfg d)
    [.set E now k v .forever ver tag]) (conf d) (dcfg d) hd ops' E' k ver hw
  rw [djrf_keyOf_indep _ _ hd E' E] at hfr
  have hget' : (DjSpec.run (DjSpec.run m (conf d) (dcfg d) ops) (conf d) (dcfg d)
      [.set E now k v .forever ver tag]).get (keyOf E (dcfg d) (key (conf d) k ver)) =
      some (entryOf p none tag) := hget
  rw [hget'] at hfr
  show (Spec.get _ E' (dcfg d) now' (key (conf d) k ver') false false false).2 = _
  unfold Spec.get
  rw [hk, djrf_keyOf_indep _ _ hd E' E, hfr]
  cases p <;> rfl

/-- **a value set with a timeout ≤ 0 is never returned**: if `set(key, value, timeout=t, version)`
with `t ≤ 0` returned True, then after any calls that do not write to `(key, version)`,
`get(key, version)` returns the default -/
theorem nonpositive_never_returned (d : Django) (m : Spec.Dict) (clock : Int) (ops ops' : List DOp)
    (E E' : Externals) (now now' : Int) (k : Str) (v : PyVal) (t : Int) (ver ver' : Option Int)
    (tag : SqlVal) (ht : t ≤ 0)
    (hg : DGood d) (hr : DRefines d m clock)
    (hd : (dcfg d).disk = .pickle) -- added: default Disk, see above
    (hm : DMonotone clock (ops ++ [.set E now k v (.secs t) ver tag] ++ ops' ++ [.get E' now' k ver']))
    (hver : ver'.getD (conf d).version = ver.getD (conf d).version)
    (hset : ((d.run ops).step (.set E now k v (.secs t) ver tag)).2 = .bool true)
    (hw : ∀ op ∈ ops', writesTo (conf d) k (ver.getD (conf d).version) op = false) :
    ((d.run (ops ++ [.set E now k v (.secs t) ver tag] ++ ops')).step (.get E' now' k ver')).2 =
      .default := by
  have hm1 : DMonotone clock (ops ++ [.set E now k v (.secs t) ver tag]) :=
    djrf_mono_prefix (djrf_mono_prefix hm)
  have hnow : now ≤ now' := by
    have h1 := djrf_mono_skip (a := ops ++ [.set E now k v (.secs t) ver tag]) (b := ops') hm
    rw [List.append_assoc] at h1
    obtain ⟨t', -, h2⟩ := djrf_mono_suffix h1
    unfold DMonotone at h2
    simp only [List.cons_append, List.nil_append, dmonotoneB, dclock, Bool.and_eq_true,
      decide_eq_true_eq] at h2
    exact h2.2.1
  rw [call_after_history d m clock ops _ hg hr rfl hm1] at hset
  obtain ⟨p, hp, hget⟩ := djrf_set_true _ _ _ _ _ _ _ _ _ _ hset
  rw [call_after_history d m clock _ _ hg hr rfl hm, djrf_spec_run_append, djrf_spec_run_append]
  have hk : key (conf d) k ver' = key (conf d) k ver := djrf_key_congr _ k _ _ hver
  have hfr := djrf_run_frame (DjSpec.run (DjSpec.run m (conf d) (dcfg d) ops) (conf d) (dcfg d)
    [.set E now k v (.secs t) ver tag]) (conf d) (dcfg d) hd ops' E' k ver hw
  rw [djrf_keyOf_indep _ _ hd E' E] at hfr
  have hget' : (DjSpec.run (DjSpec.run m (conf d) (dcfg d) ops) (conf d) (dcfg d)
      [.set E now k v (.secs t) ver tag]).get (keyOf E (dcfg d) (key (conf d) k ver)) =
      some (entryOf p ((ttl (conf d) (.secs t)).map (now + ·)) tag) := hget
  rw [hget'] at hfr
  show (Spec.get _ E' (dcfg d) now' (key (conf d) k ver') false false false).2 = _
  unfold Spec.get
  rw [hk, djrf_keyOf_indep _ _ hd E' E, hfr]
  have hdead : (entryOf p ((ttl (conf d) (.secs t)).map (now + ·)) tag).live now' = false := by
    have : (entryOf p ((ttl (conf d) (.secs t)).map (now + ·)) tag).expT =
        some (now + (if t = 0 then -1 else t)) := by cases p <;> rfl
    unfold Entry.live
    rw [this]
    simp only [gt_iff_lt, decide_eq_false_iff_not, Int.not_lt]
    split <;> omega
  simp only [hdead, Bool.false_eq_true, if_false]
  rfl

/-- the stored value read back with the codec it was stored with is the value (C01) -/
theorem djrf_out_value (E : Externals) (hE : Lawful E) (cfg : Cfg) (hd : cfg.disk = .pickle)
    (v : PyVal) (p : Placement) (x : Option Int) (tag : SqlVal)
    (hp : place E cfg.disk cfg.minFileSize v false = .ok p) :
    (entryOf p x tag).out E cfg false false false = .val v := by
  rw [hd] at hp
  have h := fetch_store E hE cfg.minFileSize v p hp
  unfold Entry.out
  rw [hd]
  cases p with
  | inline mode sv =>
    have h' : fetch E .pickle mode none false sv false = .val v := h
    show (match fetch E .pickle mode none false sv false with
      | .ioerror => _ | f => _) = _
    rw [h']; rfl
  | file mode c =>
    have h' : fetch E .pickle mode (some c) true .null false = .val v := h
    show (match fetch E .pickle mode (some c) true .null false with
      | .ioerror => _ | f => _) = _
    rw [h']; rfl

/-- … and with a lawful codec the later `get` returns the value itself -/
theorem forever_returns_value (d : Django) (m : Spec.Dict) (clock : Int) (ops ops' : List DOp)
    (E : Externals) (hE : Lawful E) (now now' : Int) (k : Str) (v : PyVal) (ver ver' : Option Int)
    (tag : SqlVal)
    (hg : DGood d) (hr : DRefines d m clock)
    (hd : (dcfg d).disk = .pickle) -- added: default Disk, see above
    (hm : DMonotone clock (ops ++ [.set E now k v .forever ver tag] ++ ops' ++ [.get E now' k ver']))
    (hver : ver'.getD (conf d).version = ver.getD (conf d).version)
    (hset : ((d.run ops).step (.set E now k v .forever ver tag)).2 = .bool true)
    (hw : ∀ op ∈ ops', writesTo (conf d) k (ver.getD (conf d).version) op = false) :
    ((d.run (ops ++ [.set E now k v .forever ver tag] ++ ops')).step (.get E now' k ver')).2 =
      .val v := by
  obtain ⟨p, hp, h⟩ := forever_returned d m clock ops ops' E E now now' k v ver ver' tag hg hr hd hm
    hver hset hw
  rw [h]
  exact djrf_out_value E hE _ hd v p none tag hp

/-! ### non-vacuity: a DjangoCache over three shards -/

/-- KEY_PREFIX "p", VERSION 1, TIMEOUT 300, three shards without size limit -/
def exDj : Django := { fan := Fanout.init 3 { policy := .none } false, keyPrefix := [112] }

/-- set under versions 1 and 2, read back, an already expired set, add on a live item, incr / decr,
incr on a missing key (ValueError), the default timeout running out, touch, pop, has_key, delete,
clear -/
def exDjOps : List DOp :=
  [ .set toyV 10 [97] (.int 7) .forever none .null,
    .set toyV 10 [97] (.int 70) .dflt (some 2) .null,
    .get toyV 11 [97] none,
    .get toyV 11 [97] (some 2),
    .set toyV 12 [98] (.int 1) (.secs 0) none .null,
    .get toyV 12 [98] none,
    .add toyV 13 [97] (.int 8) (.secs 5) none .null,
    .add toyV 13 [98] (.int 8) (.secs 5) none .null,
    .incr toyV 14 [97] 3 none,
    .decr toyV 14 [97] 1 (some 1),
    .incr toyV 14 [99] 1 none,
    .get toyV 18 [98] none,
    .incr toyV 19 [98] 1 none,
    .get toyV 400 [97] (some 2),
    .touch toyV 401 [97] (.secs 10) none,
    .pop toyV 405 [97] none,
    .hasKey toyV 405 [97] none,
    .delete toyV 406 [97] (some 2),
    .clear ]

example : outs exDj exDjOps = DjSpec.outs [] (conf exDj) (dcfg exDj) exDjOps ∧
    ∃ clock', DRefines (exDj.run exDjOps) (DjSpec.run [] (conf exDj) (dcfg exDj) exDjOps) clock' :=
  djrun_refines exDj [] 0 exDjOps
    (django_init 3 _ false _ _ _ (by decide) rfl (by decide) 0).1
    (django_init 3 _ false _ _ _ (by decide) rfl (by decide) 0).2 (by decide +kernel)

/-- what the DjangoCache (and the specification) returns along that history -/
example : outs exDj exDjOps =
    [.bool true, .bool true, .val (.int 7), .val (.int 70), .bool true, .default, .bool false,
     .bool true, .int 10, .int 9, .exc "ValueError", .default, .exc "ValueError", .default,
     .bool true, .val (.int 9), .bool false, .bool false, .none] :=
  (djrun_refines exDj [] 0 exDjOps
    (django_init 3 _ false _ _ _ (by decide) rfl (by decide) 0).1
    (django_init 3 _ false _ _ _ (by decide) rfl (by decide) 0).2 (by decide +kernel)).1.trans (by rfl)

end DC.Django
