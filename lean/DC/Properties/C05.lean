/-
C05 / C06 / C07 / C08 / C14 — the locking protocol, for every number of clients,
every program, every operation body and EVERY schedule (no bound on anything).

`run s sched` interleaves micro-steps of the clients of `s` as `sched` dictates.
The ghost `log` records each call at its linearization point (COMMIT, ROLLBACK,
or the single SELECT of a lock-free look-up), which is one of the call's own
steps — hence between its invocation and its return, so the log order respects
real-time precedence.
-/
import DC.Proofs.ConcLemmas

namespace DC.Conc

variable {DB Res : Type}

/-- initial system: nobody holds the lock, every client is between calls -/
structure Init (s : Sys DB Res) : Prop where
  lock : s.lock = none
  idle : ∀ c ∈ s.clients, c.pc = Pc.idle ∧ c.results = []
  log : s.log = []
  fresh : ∀ f ∈ s.files, f < s.nextFile

/-- the client inside a transaction (holding a private copy) -/
def inTxn (c : Client DB Res) : Bool :=
  match c.pc with
  | .begun _ _ => true
  | .ran _ _ _ _ _ => true
  | _ => false

/-- C05 `lock_excl`: at any instant at most one client holds a private working copy, and it
is the lock holder; when the lock is free nobody is inside a transaction -/
theorem lock_excl (s0 : Sys DB Res) (h : Init s0) (sched : List Nat) :
    let s := run s0 sched
    (∀ (i j : Nat) (ci cj : Client DB Res), s.clients[i]? = some ci → s.clients[j]? = some cj →
        inTxn ci = true → inTxn cj = true → i = j) ∧
    (∀ (i : Nat) (ci : Client DB Res), s.clients[i]? = some ci → inTxn ci = true → s.lock = some i) := by
  sorry

/-- C05 `linearizable` (state): at any instant the committed database is exactly what executing
the logged calls ONE AT A TIME, in log order, produces -/
theorem serializable_db (s0 : Sys DB Res) (h : Init s0) (sched : List Nat) :
    (run s0 sched).db = replay s0.db (run s0 sched).log := by
  sorry

/-- C05 `linearizable` (results): the result every logged call returned is the result it has
in that sequential execution — so concurrent add succeeds for exactly one caller, incr loses no
update, pop/delete succeeds once, whatever the bodies are -/
theorem serializable_results (s0 : Sys DB Res) (h : Init s0) (sched : List Nat) :
    (run s0 sched).log.map (·.res) = replayRes s0.db (run s0 sched).log := by
  sorry

/-- every result a client has received (other than Timeout) is the result of one of its logged
calls, in program order -/
theorem results_logged (s0 : Sys DB Res) (h : Init s0) (sched : List Nat) (cid : Nat)
    (c : Client DB Res) (hc : (run s0 sched).clients[cid]? = some c) :
    (c.results.filterMap id).IsPrefix
      (((run s0 sched).log.filter (fun e => e.cid == cid)).map (·.res)) := by
  sorry

/-- C06 `isolated`: between a client's BEGIN and its COMMIT no other client's write takes
effect: while a client holds a private copy, that copy started from the committed database,
and the committed database has not changed since -/
theorem isolated (s0 : Sys DB Res) (h : Init s0) (sched : List Nat) (cid : Nat) (c : Client DB Res)
    (hc : (run s0 sched).clients[cid]? = some c) :
    (∀ f w, c.pc = .begun f w → w = (run s0 sched).db) ∧
    (∀ f w r ok cl fr rt b rest, c.pc = .ran f w r ok cl → c.prog = .txn fr rt b :: rest →
        b.run (run s0 sched).db f = (w, r, ok, cl)) := by
  sorry

/-- C14 `timeout_no_effect`: a call that cannot get the lock and does not retry returns Timeout
and changes nothing: not the database, not the log, not the lock -/
theorem timeout_no_effect (s : Sys DB Res) (cid other : Nat) (c : Client DB Res) (b : Body DB Res)
    (rest : List (Op DB Res)) (hc : s.clients[cid]? = some c) (hpc : c.pc = .idle)
    (hp : c.prog = .txn false false b :: rest) (hl : s.lock = some other) :
    (step s cid).db = s.db ∧ (step s cid).log = s.log ∧ (step s cid).lock = s.lock ∧
    (step s cid).files = s.files ∧
    (step s cid).clients[cid]? = some (finish c none) := by
  sorry

/-- C14: ... and when it had written a value file first, the file is removed again before the
call returns Timeout (three steps: BEGIN fails, FREMOVE, return) -/
theorem timeout_removes_file (s : Sys DB Res) (cid other : Nat) (c : Client DB Res) (f : FName)
    (fr : Bool) (b : Body DB Res) (rest : List (Op DB Res)) (hc : s.clients[cid]? = some c)
    (hpc : c.pc = .wrote f) (hp : c.prog = .txn fr false b :: rest) (hl : s.lock = some other)
    (hne : other ≠ cid) :
    let s3 := step (step (step s cid) cid) cid
    s3.db = s.db ∧ s3.log = s.log ∧ s3.lock = s.lock ∧ s3.files = s.files.filter (· != f) ∧
    s3.clients[cid]? = some (finish c none) := by
  sorry

/-- C14 `retry_waits`: with retry, a call that finds the lock held changes nothing at all and
will try again -/
theorem retry_waits (s : Sys DB Res) (cid other : Nat) (c : Client DB Res) (fr : Bool) (b : Body DB Res)
    (rest : List (Op DB Res)) (hc : s.clients[cid]? = some c)
    (hpc : c.pc = .idle ∧ fr = false ∨ ∃ f, c.pc = .wrote f)
    (hp : c.prog = .txn fr true b :: rest) (hl : s.lock = some other) :
    step s cid = s := by
  sorry

/-- C14 `reads_need_no_lock`: a lock-free look-up completes in one step whoever holds the lock,
and sees the committed database -/
theorem reads_need_no_lock (s : Sys DB Res) (cid : Nat) (c : Client DB Res) (g : DB → Res)
    (rest : List (Op DB Res)) (hc : s.clients[cid]? = some c) (hpc : c.pc = .idle)
    (hp : c.prog = .read g :: rest) :
    (step s cid).clients[cid]? = some (finish c (some (g s.db))) ∧ (step s cid).db = s.db ∧
    (step s cid).lock = s.lock := by
  sorry

/-! ### value files: every referenced file exists at every instant, also after a crash -/

/-- a body is file-safe w.r.t. `refs` (the files a database state names) when the new state
names only files the old one named or the fresh file, never a file it hands to cleanup, and
hands to cleanup only files the old state named or its own fresh file -/
def BodyOk (refs : DB → List FName) (b : Body DB Res) : Prop :=
  ∀ db f w r ok cl, b.run db f = (w, r, ok, cl) → ok = true →
    (∀ x ∈ refs w, x ∈ refs db ∨ some x = f) ∧ (∀ x ∈ cl, x ∉ refs w) ∧
    (∀ x ∈ cl, x ∈ refs db ∨ some x = f)

def OpOk (refs : DB → List FName) : Op DB Res → Prop
  | .txn _ _ b => BodyOk refs b
  | .read _ => True

def ProgsOk (refs : DB → List FName) (s : Sys DB Res) : Prop :=
  ∀ c ∈ s.clients, ∀ op ∈ c.prog, OpOk refs op

/-- C05/C07 `ref_complete`: at EVERY instant of EVERY schedule every value file the committed
database names exists (files are written before BEGIN and removed only after COMMIT, fresh
names never repeat) — so a reader never finds a key whose file is gone except through the
tolerated overlap, and a process killed at any instant leaves no listed key without its value -/
theorem ref_complete (refs : DB → List FName) (s0 : Sys DB Res) (h : Init s0)
    (hp : ProgsOk refs s0) (h0 : ∀ x ∈ refs s0.db, x ∈ s0.files) (sched : List Nat) :
    ∀ x ∈ refs (run s0 sched).db, x ∈ (run s0 sched).files := by
  sorry

/-- C07 `crash_safe`: killing any client at any instant keeps the committed database (every
completed call is reflected, the interrupted one is all-or-nothing: the database is still the
replay of the log), keeps every referenced file, and frees the lock if the victim held it -/
theorem crash_safe (refs : DB → List FName) (s0 : Sys DB Res) (h : Init s0)
    (hp : ProgsOk refs s0) (h0 : ∀ x ∈ refs s0.db, x ∈ s0.files) (sched : List Nat) (victim : Nat) :
    let s := crash (run s0 sched) victim
    s.db = replay s0.db s.log ∧ (∀ x ∈ refs s.db, x ∈ s.files) ∧ s.lock ≠ some victim := by
  sorry

/-- C07: the survivors carry on: after a crash the protocol invariants still hold for every
further schedule (the lock is free or held by a live client inside its transaction) -/
theorem crash_then_run (refs : DB → List FName) (s0 : Sys DB Res) (h : Init s0)
    (hp : ProgsOk refs s0) (h0 : ∀ x ∈ refs s0.db, x ∈ s0.files) (sched sched' : List Nat) (victim : Nat) :
    let s := run (crash (run s0 sched) victim) sched'
    s.db = replay s0.db s.log ∧ (∀ x ∈ refs s.db, x ∈ s.files) := by
  sorry

/-- non-vacuity: two clients incrementing one counter under an adversarial schedule lose no
update (database = Nat, incr body) -/
def incrBody (d : Nat) : Body Nat Nat := ⟨fun db _ => (db + d, db + d, true, [])⟩

def exSys : Sys Nat Nat :=
  { db := 5, clients := [{ prog := [.txn false true (incrBody 1)] }, { prog := [.txn false true (incrBody 10)] }] }

example : (run exSys [0, 1, 1, 0, 1, 0, 0, 1, 1, 1, 1]).db = 16 ∧
    ((run exSys [0, 1, 1, 0, 1, 0, 0, 1, 1, 1, 1]).log.map (·.res)) = [6, 16] := by decide

end DC.Conc
