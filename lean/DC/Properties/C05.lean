/-
C05 / C06 / C07 / C08 / C14 — the locking protocol, for every number of clients,
every program, every operation body and EVERY schedule (no bound on anything).

`run s sched` interleaves micro-steps of the clients of `s` as `sched` dictates.
The ghost `log` records each call at its linearization point (COMMIT, ROLLBACK,
or the single SELECT of a lock-free look-up), which is one of the call's own
steps — hence between its invocation and its return, so the log order respects
real-time precedence.
-/
import DC.Proofs.ConcLemmas

namespace DC.Conc

variable {DB Res : Type}

/-- initial system: nobody holds the lock, every client is between calls -/
structure Init (s : Sys DB Res) : Prop where
  lock : s.lock = none
  idle : ∀ c ∈ s.clients, c.pc = Pc.idle ∧ c.results = []
  log : s.log = []
  fresh : ∀ f ∈ s.files, f < s.nextFile

/-- the client inside a transaction (holding a private copy) -/
def inTxn (c : Client DB Res) : Bool :=
  match c.pc with
  | .begun _ _ => true
  | .ran _ _ _ _ _ => true
  | _ => false

theorem Init.inv {s0 : Sys DB Res} (h : Init s0) : Inv s0.db s0 := Inv_init h.lock h.log h.idle

theorem Init.resInv {s0 : Sys DB Res} (h : Init s0) : ResInv s0 := ResInv_init h.log h.idle

/-- C05 `lock_excl`: at any instant at most one client holds a private working copy, and it
is the lock holder; when the lock is free nobody is inside a transaction -/
theorem lock_excl (s0 : Sys DB Res) (h : Init s0) (sched : List Nat) :
    let s := run s0 sched
    (∀ (i j : Nat) (ci cj : Client DB Res), s.clients[i]? = some ci → s.clients[j]? = some cj →
        inTxn ci = true → inTxn cj = true → i = j) ∧
    (∀ (i : Nat) (ci : Client DB Res), s.clients[i]? = some ci → inTxn ci = true → s.lock = some i) := by
  intro s
  have hI : Inv s0.db s := Inv_run h.inv sched
  have key : ∀ (i : Nat) (ci : Client DB Res), s.clients[i]? = some ci → inTxn ci = true →
      s.lock = some i := by
    intro i ci hi ht
    unfold inTxn at ht
    split at ht
    · rename_i f w hpc
      exact (hI.begun i ci f w hi hpc).1
    · rename_i f w r ok cl hpc
      exact (hI.ran i ci f w r ok cl hi hpc).1
    · simp at ht
  refine ⟨?_, key⟩
  intro i j ci cj hi hj hti htj
  have h1 := key i ci hi hti
  have h2 := key j cj hj htj
  rw [h1] at h2
  exact Option.some.inj h2

/-- C05 `linearizable` (state): at any instant the committed database is exactly what executing
the logged calls ONE AT A TIME, in log order, produces -/
theorem serializable_db (s0 : Sys DB Res) (h : Init s0) (sched : List Nat) :
    (run s0 sched).db = replay s0.db (run s0 sched).log := by
  exact (Inv_run h.inv sched).hdb

/-- C05 `linearizable` (results): the result every logged call returned is the result it has
in that sequential execution — so concurrent add succeeds for exactly one caller, incr loses no
update, pop/delete succeeds once, whatever the bodies are -/
theorem serializable_results (s0 : Sys DB Res) (h : Init s0) (sched : List Nat) :
    (run s0 sched).log.map (·.res) = replayRes s0.db (run s0 sched).log := by
  exact (Inv_run h.inv sched).hres

/-- every result a client has received (other than Timeout) is the result of one of its logged
calls, in program order -/
theorem results_logged (s0 : Sys DB Res) (h : Init s0) (sched : List Nat) (cid : Nat)
    (c : Client DB Res) (hc : (run s0 sched).clients[cid]? = some c) :
    (c.results.filterMap id).IsPrefix
      (((run s0 sched).log.filter (fun e => e.cid == cid)).map (·.res)) := by
  have := ResInv_run h.resInv sched cid c hc
  rw [← this]
  exact List.prefix_append _ _

/-- C06 `isolated`: between a client's BEGIN and its COMMIT no other client's write takes
effect: while a client holds a private copy, that copy started from the committed database,
and the committed database has not changed since -/
theorem isolated (s0 : Sys DB Res) (h : Init s0) (sched : List Nat) (cid : Nat) (c : Client DB Res)
    (hc : (run s0 sched).clients[cid]? = some c) :
    (∀ f w, c.pc = .begun f w → w = (run s0 sched).db) ∧
    (∀ f w r ok cl fr rt b rest, c.pc = .ran f w r ok cl → c.prog = .txn fr rt b :: rest →
        b.run (run s0 sched).db f = (w, r, ok, cl)) := by
  have hI := Inv_run h.inv sched
  refine ⟨?_, ?_⟩
  · intro f w hpc
    exact (hI.begun cid c f w hc hpc).2.1
  · intro f w r ok cl fr rt b rest hpc hprog
    obtain ⟨_, fr', rt', b', rest', hp', hb⟩ := hI.ran cid c f w r ok cl hc hpc
    rw [hprog] at hp'
    injection hp' with h1 h2
    injection h1 with _ _ hb'
    subst hb'
    exact hb

/-- C14 `timeout_no_effect`: a call that cannot get the lock and does not retry returns Timeout
and changes nothing: not the database, not the log, not the lock -/
theorem timeout_no_effect (s : Sys DB Res) (cid other : Nat) (c : Client DB Res) (b : Body DB Res)
    (rest : List (Op DB Res)) (hc : s.clients[cid]? = some c) (hpc : c.pc = .idle)
    (hp : c.prog = .txn false false b :: rest) (hl : s.lock = some other) :
    (step s cid).db = s.db ∧ (step s cid).log = s.log ∧ (step s cid).lock = s.lock ∧
    (step s cid).files = s.files ∧
    (step s cid).clients[cid]? = some (finish c none) := by
  have hlen : cid < s.clients.length := (List.getElem?_eq_some_iff.1 hc).1
  have hs : step s cid = setClient s cid (finish c none) := by simp [step, hc, hpc, hp, hl]
  rw [hs]
  simp [setClient, List.getElem?_set_self hlen]

/-- C14: ... and when it had written a value file first, the file is removed again before the
call returns Timeout (three steps: BEGIN fails, FREMOVE, return) -/
theorem timeout_removes_file (s : Sys DB Res) (cid other : Nat) (c : Client DB Res) (f : FName)
    (fr : Bool) (b : Body DB Res) (rest : List (Op DB Res)) (hc : s.clients[cid]? = some c)
    (hpc : c.pc = .wrote f) (hp : c.prog = .txn fr false b :: rest) (hl : s.lock = some other)
    (hne : other ≠ cid) :
    let s3 := step (step (step s cid) cid) cid
    s3.db = s.db ∧ s3.log = s.log ∧ s3.lock = s.lock ∧ s3.files = s.files.filter (· != f) ∧
    s3.clients[cid]? = some (finish c none) := by
  have _ := hne
  have hlen : cid < s.clients.length := (List.getElem?_eq_some_iff.1 hc).1
  have h1 : step s cid = setClient s cid { c with pc := .undo none (some f) } := by
    simp [step, hc, hpc, hp, hl]
  have hc1 : (step s cid).clients[cid]? = some { c with pc := .undo none (some f) } := by
    rw [h1]; exact List.getElem?_set_self hlen
  have h2 : step (step s cid) cid = { (setClient (step s cid) cid { c with pc := .undo none none })
      with files := (step s cid).files.filter (· != f) } := by
    have := step_unlink hc1 rfl
    exact this
  have hlen1 : cid < (step s cid).clients.length := (List.getElem?_eq_some_iff.1 hc1).1
  have hc2 : (step (step s cid) cid).clients[cid]? = some { c with pc := .undo none none } := by
    rw [h2]; exact List.getElem?_set_self hlen1
  have h3 : step (step (step s cid) cid) cid =
      setClient (step (step s cid) cid) cid (finish { c with pc := .undo none none } none) := by
    have := step_undone hc2 rfl
    exact this
  have hlen2 : cid < (step (step s cid) cid).clients.length := (List.getElem?_eq_some_iff.1 hc2).1
  intro s3
  refine ⟨?_, ?_, ?_, ?_, ?_⟩
  · simp only [s3, h3, setClient]; simp only [h2, setClient]; simp only [h1, setClient]
  · simp only [s3, h3, setClient]; simp only [h2, setClient]; simp only [h1, setClient]
  · simp only [s3, h3, setClient]; simp only [h2, setClient]; simp only [h1, setClient]
  · simp only [s3, h3, setClient]; simp only [h2, setClient]; simp only [h1, setClient]
  · simp only [s3, h3, setClient]
    rw [List.getElem?_set_self hlen2]
    simp [finish]

/-- C14 `retry_waits`: with retry, a call that finds the lock held changes nothing at all and
will try again -/
theorem retry_waits (s : Sys DB Res) (cid other : Nat) (c : Client DB Res) (fr : Bool) (b : Body DB Res)
    (rest : List (Op DB Res)) (hc : s.clients[cid]? = some c)
    (hpc : c.pc = .idle ∧ fr = false ∨ ∃ f, c.pc = .wrote f)
    (hp : c.prog = .txn fr true b :: rest) (hl : s.lock = some other) :
    step s cid = s := by
  rcases hpc with ⟨hpc, rfl⟩ | ⟨f, hpc⟩ <;> simp [step, hc, hpc, hp, hl]

/-- C14 `reads_need_no_lock`: a lock-free look-up completes in one step whoever holds the lock,
and sees the committed database -/
theorem reads_need_no_lock (s : Sys DB Res) (cid : Nat) (c : Client DB Res) (g : DB → Res)
    (rest : List (Op DB Res)) (hc : s.clients[cid]? = some c) (hpc : c.pc = .idle)
    (hp : c.prog = .read g :: rest) :
    (step s cid).clients[cid]? = some (finish c (some (g s.db))) ∧ (step s cid).db = s.db ∧
    (step s cid).lock = s.lock := by
  have hlen : cid < s.clients.length := (List.getElem?_eq_some_iff.1 hc).1
  have hs : step s cid = { (setClient s cid (finish c (some (g s.db)))) with
      log := s.log ++ [⟨cid, .read g, none, g s.db⟩] } := by simp [step, hc, hpc, hp]
  rw [hs]
  simp [setClient, List.getElem?_set_self hlen]

/-! ### value files: every referenced file exists at every instant, also after a crash -/

/-- a body is file-safe w.r.t. `refs` (the files a database state names) when the new state
names only files the old one named or the fresh file, never a file it hands to cleanup, and
hands to cleanup only files the old state named or its own fresh file -/
def BodyOk (refs : DB → List FName) (b : Body DB Res) : Prop :=
  ∀ db f w r ok cl, b.run db f = (w, r, ok, cl) → ok = true →
    (∀ x ∈ refs w, x ∈ refs db ∨ some x = f) ∧ (∀ x ∈ cl, x ∉ refs w) ∧
    (∀ x ∈ cl, x ∈ refs db ∨ some x = f)

def OpOk (refs : DB → List FName) : Op DB Res → Prop
  | .txn _ _ b => BodyOk refs b
  | .read _ => True

def ProgsOk (refs : DB → List FName) (s : Sys DB Res) : Prop :=
  ∀ c ∈ s.clients, ∀ op ∈ c.prog, OpOk refs op

theorem ProgsOk.safe {refs : DB → List FName} {s : Sys DB Res} (hp : ProgsOk refs s) :
    ProgsSafe refs s := fun c hc _ _ _ hm => hp c hc _ hm

theorem Init.finv {refs : DB → List FName} {s0 : Sys DB Res} (h : Init s0) (hp : ProgsOk refs s0)
    (h0 : ∀ x ∈ refs s0.db, x ∈ s0.files) : FInv refs s0 :=
  FInv_init hp.safe h.idle h.fresh h0

/-- C05/C07 `ref_complete`: at EVERY instant of EVERY schedule every value file the committed
database names exists (files are written before BEGIN and removed only after COMMIT, fresh
names never repeat) — so a reader never finds a key whose file is gone except through the
tolerated overlap, and a process killed at any instant leaves no listed key without its value -/
theorem ref_complete (refs : DB → List FName) (s0 : Sys DB Res) (h : Init s0)
    (hp : ProgsOk refs s0) (h0 : ∀ x ∈ refs s0.db, x ∈ s0.files) (sched : List Nat) :
    ∀ x ∈ refs (run s0 sched).db, x ∈ (run s0 sched).files := by
  exact (FInv_run h.inv (h.finv hp h0) sched).refd

/-- C07 `crash_safe`: killing any client at any instant keeps the committed database (every
completed call is reflected, the interrupted one is all-or-nothing: the database is still the
replay of the log), keeps every referenced file, and frees the lock if the victim held it -/
theorem crash_safe (refs : DB → List FName) (s0 : Sys DB Res) (h : Init s0)
    (hp : ProgsOk refs s0) (h0 : ∀ x ∈ refs s0.db, x ∈ s0.files) (sched : List Nat) (victim : Nat) :
    let s := crash (run s0 sched) victim
    s.db = replay s0.db s.log ∧ (∀ x ∈ refs s.db, x ∈ s.files) ∧ s.lock ≠ some victim := by
  have hI := Inv_run h.inv sched
  have hF := FInv_run h.inv (h.finv hp h0) sched
  exact ⟨(Inv_crash hI victim).hdb, (FInv_crash hF victim).refd, crash_lock hI victim⟩

/-- C07: the survivors carry on: after a crash the protocol invariants still hold for every
further schedule (the lock is free or held by a live client inside its transaction) -/
theorem crash_then_run (refs : DB → List FName) (s0 : Sys DB Res) (h : Init s0)
    (hp : ProgsOk refs s0) (h0 : ∀ x ∈ refs s0.db, x ∈ s0.files) (sched sched' : List Nat) (victim : Nat) :
    let s := run (crash (run s0 sched) victim) sched'
    s.db = replay s0.db s.log ∧ (∀ x ∈ refs s.db, x ∈ s.files) := by
  have hI := Inv_crash (Inv_run h.inv sched) victim
  have hF := FInv_crash (FInv_run h.inv (h.finv hp h0) sched) victim
  exact ⟨(Inv_run hI sched').hdb, (FInv_run hI hF sched').refd⟩

/-- non-vacuity: two clients incrementing one counter under an adversarial schedule lose no
update (database = Nat, incr body) -/
def incrBody (d : Nat) : Body Nat Nat := ⟨fun db _ => (db + d, db + d, true, [])⟩

def exSys : Sys Nat Nat :=
  { db := 5, clients := [{ prog := [.txn false true (incrBody 1)] }, { prog := [.txn false true (incrBody 10)] }] }

example : (run exSys [0, 1, 1, 0, 1, 0, 0, 1, 1, 1, 1]).db = 16 ∧
    ((run exSys [0, 1, 1, 0, 1, 0, 0, 1, 1, 1, 1]).log.map (·.res)) = [6, 16] := by decide

end DC.Conc
