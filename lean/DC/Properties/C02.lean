/-
C02 — keys address entries by documented equality and never alias.

`docEq` is written from the documentation: text, bytes and native numbers
compare by value (1 and 1.0 are one key; 0.0 and -0.0 too), everything else
(None, bool, tuples, ints outside int64, ...) by type and structure.
`dbKeyEq` is what SQLite's `key = ? AND raw = ?` decides.
-/
import DC.Proofs.Keys

namespace DC

/-- keys stored natively (not pickled) -/
def nativeKey : PyVal → Bool
  | .int i => inI64 i
  | .float _ => true
  | .str _ => true
  | .bytes _ => true
  | _ => false

/-- numeric value of a native numeric key -/
def keyNum : PyVal → Option Num
  | .int i => some (intNum i)
  | .float f => some (floatNum f)
  | _ => none

/-- NaN is outside the key domain; float bit patterns are 64-bit -/
def ValidKey : PyVal → Prop
  | .float f => floatIsNaN f = false ∧ f < 2^64
  | _ => True

/-- documented key equality -/
def docEq (a b : PyVal) : Prop :=
  match a, b with
  | .str x, .str y => x = y
  | .bytes x, .bytes y => x = y
  | .str _, _ => False
  | _, .str _ => False
  | .bytes _, _ => False
  | _, .bytes _ => False
  | a, b =>
    if nativeKey a && nativeKey b then keyNum a = keyNum b
    else if !nativeKey a && !nativeKey b then a = b
    else False

/-- equality as the database decides it -/
def dbKeyEq (x y : SqlVal × Bool) : Prop := x.1.eqv y.1 = true ∧ x.2 = y.2

instance (x y : SqlVal × Bool) : Decidable (dbKeyEq x y) := by unfold dbKeyEq; infer_instance

/-- Two keys address the same row exactly when they are equal under the documented
rule (pickle disk, any protocol: `dumpsK` only has to be injective). -/
theorem put_eq_iff (E : Externals) (hinj : ∀ a b, E.dumpsK a = E.dumpsK b → a = b)
    (a b : PyVal) (ha : ValidKey a) (hb : ValidKey b) :
    dbKeyEq (Disk.put E a) (Disk.put E b) ↔ docEq a b := by
  cases a <;> cases b <;>
    simp only [Disk.put, dbKeyEq, docEq, nativeKey, keyNum] <;>
    (try split) <;> (try split) <;>
    simp_all [SqlVal.eqv, SqlVal.num] <;>
    (first
      | exact ⟨fun h => by simpa using hinj _ _ h, fun h => by rw [h]⟩
      | (intro h; have := hinj _ _ h; simp_all)
      | skip)

/-- the numeric comparison is exact on integers -/
theorem intNum_inj (i j : Int) : intNum i = intNum j ↔ i = j := by
  exact intNum_inj' i j

/-- an int64 and a double are one key only if the double is finite, and the scaled
integer values coincide exactly (no rounding at 2^53 or 2^63) -/
theorem intNum_eq_floatNum (i : Int) (f : Nat) :
    intNum i = floatNum f ↔
      (floatExp f ≠ 2047 ∧ i * 2^1074 = (if floatSign f then -(floatMag f : Int) else floatMag f)) := by
  exact intNum_eq_floatNum' i f

/-- two doubles are one key only when they are the same number: identical bit patterns,
or the two zeros -/
theorem floatNum_eq_iff (f g : Nat) (hf : f < 2^64) (hg : g < 2^64)
    (hnf : floatIsNaN f = false) (hng : floatIsNaN g = false) :
    floatNum f = floatNum g ↔ (f = g ∨ (floatMag f = 0 ∧ floatMag g = 0 ∧ floatExp f ≠ 2047 ∧ floatExp g ≠ 2047)) := by
  exact floatNum_eq_iff' f g hf hg hnf hng

/-- `Disk.get` inverts `Disk.put`: iteration returns the stored key, with its type -/
theorem get_put (E : Externals) (hE : Lawful E) (k : PyVal) :
    Disk.get E (Disk.put E k).1 (Disk.put E k).2 = k := by
  cases k <;> simp [Disk.put, Disk.get, column, hE.loads_dumpsK]
  split <;> simp [hE.loads_dumpsK]

/-- `put` never produces NULL -/
theorem put_ne_null (E : Externals) (d : DiskKind) (k : PyVal) : (put E d k).1 ≠ .null := by
  cases d <;> cases k <;> simp [put, JSONDisk.put, Disk.put] <;> split <;> simp

/-- JSONDisk: keys are identified by their JSON text -/
theorem json_put_eq_iff (E : Externals) (hinj : ∀ a b, E.jsonz a = E.jsonz b → a = b) (a b : PyVal) :
    dbKeyEq (JSONDisk.put E a) (JSONDisk.put E b) ↔ a = b := by
  simp only [JSONDisk.put, Disk.put, dbKeyEq, SqlVal.eqv]
  constructor
  · intro h
    exact hinj _ _ (by simpa using h.1)
  · intro h
    simp [h]

/-- ... so under JSONDisk the documented equality of 1 and 1.0 does NOT hold (known
finding D13): the full-strength statement fails, with this witness -/
theorem json_docEq_fails (E : Externals) (hinj : ∀ a b, E.jsonz a = E.jsonz b → a = b) :
    ¬ (∀ a b, ValidKey a → ValidKey b → (dbKeyEq (JSONDisk.put E a) (JSONDisk.put E b) ↔ docEq a b)) := by
  intro h
  have hv : ValidKey (.float 0x3ff0000000000000) := by unfold ValidKey; decide
  have hd : docEq (.int 1) (.float 0x3ff0000000000000) := by
    have : intNum 1 = floatNum 0x3ff0000000000000 := by decide +kernel
    simp [docEq, nativeKey, keyNum, inI64, this]
  have h1 := (h (.int 1) (.float 0x3ff0000000000000) trivial hv).2 hd
  have h2 := (json_put_eq_iff E hinj _ _).1 h1
  exact absurd h2 (by decide)

/-! ### the key order used by `iterkeys` and by the queues -/

theorem keyRawLt_irrefl (a : SqlVal × Bool) : keyRawLt a a = false := by
  exact keyRawLt_irrefl' a

theorem keyRawLt_trans (a b c : SqlVal × Bool) (hab : keyRawLt a b = true) (hbc : keyRawLt b c = true) :
    keyRawLt a c = true := by
  exact keyRawLt_trans' a b c hab hbc

theorem keyRawLt_total (a b : SqlVal × Bool) (ha : a.1 ≠ .null) (hb : b.1 ≠ .null) :
    keyRawLt a b = true ∨ keyRawLt b a = true ∨ dbKeyEq a b := by
  exact keyRawLt_total' a b ha hb

namespace Cache

/-- `isort` is a sorting function: a permutation of its input, ordered -/
theorem isort_perm {α} (lt : α → α → Bool) (l : List α) : (isort lt l).Perm l := by
  exact isort_perm' lt l

theorem isort_sorted_keys (rows : List Row) (hn : ∀ r ∈ rows, r.key ≠ .null) :
    (isort keyRawLtRow rows).Pairwise (fun a b => keyRawLtRow b a = false) := by
  exact isort_sorted_keys' rows hn

/-- `iterkeys()` yields every key exactly once in database sort order, for every table size
and page size ≥ 1 -/
theorem iterkeys_all (s : Cache) (E : Externals) (hu : KeysUnique s.rows)
    (hn : ∀ r ∈ s.rows, r.key ≠ .null) (hp : 0 < s.cfg.page) :
    (s.iterkeys E false).2 =
      .list ((isort keyRawLtRow s.rows).map (fun r => keyOut E s.cfg.disk r.key r.raw)) := by
  have h := iterkeys_all' s E false hu hn hp
  exact h

/-- `iterkeys(reverse=True)` yields every key exactly once in reverse sort order -/
theorem riterkeys_all (s : Cache) (E : Externals) (hu : KeysUnique s.rows)
    (hn : ∀ r ∈ s.rows, r.key ≠ .null) (hp : 0 < s.cfg.page) :
    (s.iterkeys E true).2 =
      .list ((isort (fun a b => keyRawLtRow b a) s.rows).map (fun r => keyOut E s.cfg.disk r.key r.raw)) := by
  have h := iterkeys_all' s E true hu hn hp
  exact h

end Cache

/-- non-vacuity and the boundary cases the statement names: 1 / 1.0 one key, 2^53+1 vs
2.0^53 distinct, text vs bytes distinct, a bytes key equal to another key's pickle distinct -/
def toyE : Externals :=
  { dumpsK := fun k => match k with
      | .none => [0] | .int i => 1 :: i.toNat :: (-i).toNat :: [] | .float f => [2, f]
      | .str s => 3 :: s | .bytes b => 4 :: b | .obj o => 5 :: o,
    dumpsV := fun _ => [], loads := fun _ => .none, jsonz := fun _ => [], unjsonz := fun _ => .none }

example : dbKeyEq (Disk.put toyE (.int 1)) (Disk.put toyE (.float 0x3ff0000000000000)) := by decide +kernel
example : ¬ dbKeyEq (Disk.put toyE (.int 9007199254740993)) (Disk.put toyE (.float 0x4340000000000000)) := by decide +kernel
example : dbKeyEq (Disk.put toyE (.int 9007199254740992)) (Disk.put toyE (.float 0x4340000000000000)) := by decide +kernel
example : ¬ dbKeyEq (Disk.put toyE (.str [97])) (Disk.put toyE (.bytes [97])) := by decide +kernel
example : ¬ dbKeyEq (Disk.put toyE (.bytes (toyE.dumpsK .none))) (Disk.put toyE .none) := by decide +kernel
example : dbKeyEq (Disk.put toyE (.float 0)) (Disk.put toyE (.float 0x8000000000000000)) := by decide +kernel

end DC

/-! ### axiom audit -/
