/-
C12 — Index is a persistent insertion-ordered dictionary (sequential part).

An Index is a Cache with eviction policy 'none' whose items never expire.  Its
abstraction is the row list in rowid (= insertion) order.  Each mapping
operation is shown to act on that list as an insertion-ordered dictionary does:
assignment to a new key appends, assignment to an existing key replaces the
value in place, deletion removes exactly that entry, popitem takes an end.
Concurrency: every method is one Cache call or one transaction block (C05/C06).
-/
import DC.Proofs.IndexLemmas

namespace DC.Index

/-- what makes a Cache an Index: policy 'none', nothing expires, no open block -/
structure Ok (x : Index) : Prop where
  inv : Cache.TableInv x.cache
  pol : x.cache.cfg.policy = .none
  noexp : ∀ r ∈ x.cache.rows, r.expT = none
  depth : x.cache.depth = 0
  disk : x.cache.cfg.disk = .pickle

/-- the stored key of a Python key -/
def dbk (x : Index) (E : Externals) (k : PyVal) : SqlVal × Bool := put E x.cache.cfg.disk k

def hasKey (x : Index) (E : Externals) (k : PyVal) : Bool :=
  x.cache.rows.any (Cache.keyMatch (dbk x E k).1 (dbk x E k).2)

/-- the keys in iteration order, as stored -/
def keys (x : Index) : List (SqlVal × Bool) := x.cache.rows.map (fun r => (r.key, r.raw))

/-- `len(index)` is the number of entries -/
theorem len_exact (x : Index) (h : Ok x) : (x.len).2 = .int x.cache.rows.length := by
  exact Cache.len_exact x.cache h.inv

/-- iteration yields every key once, in insertion order; reversed iteration the reverse -/
theorem iter_order (x : Index) (E : Externals) (h : Ok x) (hp : 0 < x.cache.cfg.page) :
    (x.iter E true).2 = .list (x.cache.rows.map (fun r => Cache.keyOut E x.cache.cfg.disk r.key r.raw)) ∧
    (x.iter E false).2 = .list (x.cache.rows.reverse.map (fun r => Cache.keyOut E x.cache.cfg.disk r.key r.raw)) := by
  exact ⟨Cache.iter_all x.cache E h.inv.tbl.asc h.inv.tbl.pos hp,
    Cache.riter_all x.cache E h.inv.tbl.asc h.inv.tbl.pos hp⟩

/-- assignment to a NEW key appends it at the end; every other entry is untouched -/
theorem setitem_new (x : Index) (E : Externals) (now : Int) (k v : PyVal) (h : Ok x)
    (hnew : hasKey x E k = false) (hb : Cache.bindable (dbk x E k).1 = true)
    (s1 : Cache) (c : Cache.Cols) (hst : x.cache.store E v false = .ok (s1, c)) (hcb : c.bindable = true) :
    ∃ r : Row, (x.setitem E now k v).1.cache.rows = x.cache.rows ++ [r] ∧
      r.key = (dbk x E k).1 ∧ r.raw = (dbk x E k).2 ∧ r.mode = c.mode ∧ r.val = c.val ∧ r.file = c.file ∧
      r.expT = none := by
  have hcb' : Cache.Cols.bindable { c with expT := none, tag := .null } = true := by
    simp only [Cache.Cols.bindable, Bool.and_eq_true] at hcb ⊢
    exact ⟨rfl, hcb.2⟩
  have hrows := Cache.set_rows_noexp x.cache E now k v .null h.depth h.pol h.noexp s1 c hst hb hcb'
  have hst' : (x.setitem E now k v).1.cache = (x.cache.set E now k v none false .null).1 := rfl
  have hsel : x.cache.selKey (dbk x E k).1 (dbk x E k).2 = none := Cache.selKey_none_iff.2 hnew
  rw [hst', hrows]
  unfold Cache.setRows
  rw [show DC.put E x.cache.cfg.disk k = dbk x E k from rfl, hsel]
  exact ⟨_, rfl, rfl, rfl, rfl, rfl, rfl, rfl⟩

/-- assignment to an EXISTING key keeps its position (and every other entry) and replaces the value -/
theorem setitem_existing (x : Index) (E : Externals) (now : Int) (k v : PyVal) (h : Ok x)
    (hold : hasKey x E k = true) (hb : Cache.bindable (dbk x E k).1 = true)
    (s1 : Cache) (c : Cache.Cols) (hst : x.cache.store E v false = .ok (s1, c)) (hcb : c.bindable = true) :
    keys (x.setitem E now k v).1 = keys x ∧
    (∀ r ∈ (x.setitem E now k v).1.cache.rows,
        (Cache.keyMatch (dbk x E k).1 (dbk x E k).2 r = true → r.mode = c.mode ∧ r.val = c.val ∧ r.file = c.file) ∧
        (Cache.keyMatch (dbk x E k).1 (dbk x E k).2 r = false → r ∈ x.cache.rows)) := by
  have hcb' : Cache.Cols.bindable { c with expT := none, tag := .null } = true := by
    simp only [Cache.Cols.bindable, Bool.and_eq_true] at hcb ⊢
    exact ⟨rfl, hcb.2⟩
  have hrows := Cache.set_rows_noexp x.cache E now k v .null h.depth h.pol h.noexp s1 c hst hb hcb'
  have hst' : (x.setitem E now k v).1.cache = (x.cache.set E now k v none false .null).1 := rfl
  rw [show DC.put E x.cache.cfg.disk k = dbk x E k from rfl] at hrows
  obtain ⟨r0, hsel, -, -⟩ := Cache.selKey_some_of_any (s := x.cache) hold
  refine ⟨?_, ?_⟩
  · unfold keys
    rw [hst', hrows]
    unfold Cache.setRows
    rw [hsel]
    simp only [List.map_map]
    apply List.map_congr_left
    intro r _
    simp only [Function.comp, Cache.updF]
    split <;> rfl
  · intro r hr
    rw [hst'] at hr
    refine ⟨fun hk => ?_, fun hk => ?_⟩
    · rw [hrows] at hr
      obtain ⟨h1, h2, h3⟩ := Cache.setRows_match h.inv.tbl.uniq hr hk
      exact ⟨h1, h3, h2⟩
    · exact Cache.set_other_rows x.cache E now k v none false .null h.inv r hr hk

/-- the invariant is kept by assignment (so the theorems compose over histories) -/
theorem setitem_ok (x : Index) (E : Externals) (now : Int) (k v : PyVal) (h : Ok x) :
    Ok (x.setitem E now k v).1 := by
  have hst : (x.setitem E now k v).1 = { cache := (x.cache.set E now k v none false .null).1 } := rfl
  rw [hst]
  obtain ⟨h1, h2, h3⟩ := Cache.set_keeps x.cache E now k v .null h.depth h.noexp
  exact ⟨Cache.set_inv x.cache E now k v none false .null h.inv, by rw [h2]; exact h.pol, h3, h1,
    by rw [h2]; exact h.disk⟩

/-- `del index[key]` removes exactly that entry, keeping the order of the others; a missing key
raises KeyError and changes nothing -/
theorem delitem_exact (x : Index) (E : Externals) (now : Int) (k : PyVal) (h : Ok x) :
    (hasKey x E k = true →
      (x.delitem E now k).2 = .none ∧
      (x.delitem E now k).1.cache.rows = x.cache.rows.filter (fun r => !Cache.keyMatch (dbk x E k).1 (dbk x E k).2 r)) ∧
    (hasKey x E k = false →
      (x.delitem E now k).2 = .exc "KeyError" ∧ (x.delitem E now k).1.cache.rows = x.cache.rows) := by
  have hsel := Cache.selLive_eq_selKey h.noexp (DC.put E x.cache.cfg.disk k).1 (DC.put E x.cache.cfg.disk k).2 now
  have hout : (x.delitem E now k).2 =
      (match (x.cache.delitem E now k).2 with | .bool true => .none | o => o) := rfl
  have hst : (x.delitem E now k).1.cache = (x.cache.delitem E now k).1 := rfl
  refine ⟨fun hhas => ?_, fun hno => ?_⟩
  · obtain ⟨r, hr, hmem, hk⟩ := Cache.selKey_some_of_any (s := x.cache) hhas
    obtain ⟨h1, h2, -⟩ := Cache.delitem_some x.cache E now k r (hsel.trans hr)
    rw [hout, hst, h1, h2]
    exact ⟨rfl, Cache.filter_rowid_eq_filter_key h.inv.tbl.asc h.inv.tbl.uniq hmem hk⟩
  · have hr : x.cache.selKey (DC.put E x.cache.cfg.disk k).1 (DC.put E x.cache.cfg.disk k).2 = none :=
      Cache.selKey_none_iff.2 hno
    obtain ⟨h1, h2, -⟩ := Cache.delitem_none x.cache E now k (hsel.trans hr)
    rw [hout, hst, h1, h2]
    exact ⟨rfl, rfl⟩

theorem delitem_ok (x : Index) (E : Externals) (now : Int) (k : PyVal) (h : Ok x) :
    Ok (x.delitem E now k).1 := by
  have hst : (x.delitem E now k).1 = { cache := (x.cache.delitem E now k).1 } := rfl
  rw [hst]
  have hinv := Cache.delitem_inv x.cache E now k h.inv
  cases hsel : x.cache.selLive (DC.put E x.cache.cfg.disk k).1 (DC.put E x.cache.cfg.disk k).2 now with
  | none =>
    obtain ⟨-, h2, h3, h4⟩ := Cache.delitem_none x.cache E now k hsel
    exact ⟨hinv, by rw [h3]; exact h.pol, by rw [h2]; exact h.noexp, by rw [h4]; exact h.depth,
      by rw [h3]; exact h.disk⟩
  | some r =>
    obtain ⟨-, h2, h3, h4, -⟩ := Cache.delitem_some x.cache E now k r hsel
    refine ⟨hinv, by rw [h3]; exact h.pol, ?_, by rw [h4]; exact h.depth, by rw [h3]; exact h.disk⟩
    rw [h2]
    intro y hy
    exact h.noexp y (List.mem_filter.1 hy).1

/-- a present key is always found: look-up returns the value of its entry (C01 says that is the
value stored), a missing key raises KeyError -/
theorem getitem_found (x : Index) (E : Externals) (now : Int) (k : PyVal) (h : Ok x)
    (hfast : x.cache.statistics = false) :
    (hasKey x E k = false → (x.getitem E now k).2 = .exc "KeyError") ∧
    (∀ r ∈ x.cache.rows, Cache.keyMatch (dbk x E k).1 (dbk x E k).2 r = true →
      (x.cache.fetchRow E r false).2 ≠ .ioerror →
      (x.getitem E now k).2 = Cache.fetchedOut (x.cache.fetchRow E r false).2) := by
  have hget := Cache.get_fast x.cache E now k hfast h.pol
  have hout : (x.getitem E now k).2 = keyErr (x.cache.get E now k false false false).2 := rfl
  rw [hout, hget, Cache.selLive_eq_selKey h.noexp]
  refine ⟨fun hno => ?_, fun r hr hk hf => ?_⟩
  · have : x.cache.selKey (DC.put E x.cache.cfg.disk k).1 (DC.put E x.cache.cfg.disk k).2 = none :=
      Cache.selKey_none_iff.2 hno
    rw [this]; rfl
  · have : x.cache.selKey (DC.put E x.cache.cfg.disk k).1 (DC.put E x.cache.cfg.disk k).2 = some r :=
      Cache.selKey_eq_of_mem h.inv.tbl.uniq hr hk
    rw [this]
    simp only
    cases hc : (x.cache.fetchRow E r false).2 with
    | ioerror => exact absurd hc hf
    | val v => rfl
    | handle b => rfl

/- STATEMENT AS GIVEN — FALSE without a law of the key codec (see `popitem_end_needs_codec` below):

theorem popitem_end (x : Index) (E : Externals) (now : Int) (last : Bool) (h : Ok x) : <same conclusion>

`popitem` finds the row to delete again through the Python key it decoded from the edge row
(`del self[key]`), so the stored key must survive decode-then-encode.  Added hypothesis `hcodec`;
it holds for every row written through `put` under lawful codecs (`codec_of_put`). -/

/-- `popitem()` removes and returns the LAST entry, `popitem(last=False)` the FIRST; on an empty
index it raises KeyError -/
theorem popitem_end (x : Index) (E : Externals) (now : Int) (last : Bool) (h : Ok x)
    (hcodec : ∀ r ∈ x.cache.rows,
      DC.put E x.cache.cfg.disk (DC.get E x.cache.cfg.disk r.key r.raw) = (r.key, r.raw)) :
    (x.cache.rows = [] → (x.popitem E now last).2 = .exc "KeyError" ∧ (x.popitem E now last).1.cache.rows = []) ∧
    (∀ r, (if last then x.cache.rows.getLast? else x.cache.rows.head?) = some r →
      (x.cache.fetchRow E r false).2 ≠ .ioerror →
      (x.popitem E now last).1.cache.rows = x.cache.rows.filter (fun y => y.rowid != r.rowid) ∧
      (x.popitem E now last).2 = .tup [Cache.keyOut E x.cache.cfg.disk r.key r.raw,
                                       Cache.fetchedOut (x.cache.fetchRow E r false).2]) := by
  obtain ⟨b1, b2, b3, b4, b5⟩ := Cache.tbegin_zero x.cache h.depth
  have hpos : x.cache.tbegin.depth > 0 := by rw [b3]; omega
  refine ⟨fun hempty => ?_, fun r hedge hf => ?_⟩
  · have hpeek := Cache.peekitem_block_empty x.cache.tbegin E now last hpos (b1.trans hempty)
    unfold popitem
    simp only [hpeek]
    refine ⟨trivial, ?_⟩
    rw [Cache.traise_one_rows (x.cache.tbegin.logSql "selEdge") x.cache.takeSnap b3 b4]
    exact hempty
  · have hr : r ∈ x.cache.rows := by
      cases last
      · exact List.mem_of_mem_head? hedge
      · exact List.mem_of_getLast? hedge
    have hedge' : (if last then x.cache.tbegin.rows.getLast? else x.cache.tbegin.rows.head?) = some r := by
      rw [b1]; exact hedge
    have hfe : (x.cache.tbegin.fetchRow E r false).2 = (x.cache.fetchRow E r false).2 :=
      Cache.fetchRow_snd_congr_q _ _ E r false b5 b2
    obtain ⟨c, hpeek, c1, c2, c3, c4⟩ := Cache.peekitem_block_edge x.cache.tbegin E now last hpos r
      hedge' (h.noexp r hr) (by rw [hfe]; exact hf)
    unfold popitem
    simp only [hpeek, Cache.keyOut]
    have hput : DC.put E c.cfg.disk (DC.get E x.cache.tbegin.cfg.disk r.key r.raw) = (r.key, r.raw) := by
      rw [c2, b2]; exact hcodec r hr
    have hsel : c.selLive (DC.put E c.cfg.disk (DC.get E x.cache.tbegin.cfg.disk r.key r.raw)).1
        (DC.put E c.cfg.disk (DC.get E x.cache.tbegin.cfg.disk r.key r.raw)).2 now = some r := by
      rw [hput]
      exact Cache.live_visible_partial c (by rw [c1, b1]; exact h.inv.tbl.uniq) r
        (by rw [c1, b1]; exact hr) (h.inv.tbl.nonnull r hr) now (Cache.live_of_noexp (h.noexp r hr) now)
    obtain ⟨d1, d2, -⟩ := Cache.delitem_some c E now _ r hsel
    cases hdd : c.delitem E now (DC.get E x.cache.tbegin.cfg.disk r.key r.raw) with
    | mk c2 o2 =>
      rw [hdd] at d1 d2
      simp only at d1 d2
      subst d1
      simp only
      refine ⟨?_, ?_⟩
      · rw [Cache.tend_rows, d2, c1, b1]
      · rw [hfe, b2]

/-- `hcodec` holds for every row whose stored key is the encoding of some Python key, when the
codecs are lawful — that is, for every row an Index ever writes -/
theorem codec_of_put (x : Index) (E : Externals) (hE : Lawful E) (h : Ok x) (r : Row) (k : PyVal)
    (hk : (r.key, r.raw) = dbk x E k) :
    DC.put E x.cache.cfg.disk (DC.get E x.cache.cfg.disk r.key r.raw) = (r.key, r.raw) := by
  have h1 : r.key = (dbk x E k).1 := congrArg Prod.fst hk
  have h2 : r.raw = (dbk x E k).2 := congrArg Prod.snd hk
  rw [hk, h1, h2]
  unfold dbk
  rw [h.disk]
  exact Cache.put_get_put E hE k

/-- why `popitem_end` needs `hcodec`: a well-formed Index whose only row has a key that is not the
encoding of any Python key (an integer outside int64 stored raw).  `popitem` reads the item but
`del self[key]` looks for the pickled key, finds nothing and raises KeyError; the block is rolled
back and the row stays. -/
def exBigRow : Row :=
  { rowid := 1, key := .int 18446744073709551616, raw := true, storeT := 0, expT := none, accT := 0,
    accN := 0, tag := .null, size := 0, mode := 1, file := none, val := .int 0 }

def exIx : Index := { cache := { rows := [exBigRow], count := 1, cfg := { policy := .none } } }

theorem exIx_ok : Ok exIx := by
  refine ⟨⟨⟨?_, ?_, ?_, ?_, rfl, rfl⟩, nofun⟩, rfl, ?_, rfl, rfl⟩
  · simp [exIx, Cache.RowidsAsc]
  · simp [exIx, exBigRow]
  · simp [exIx, Cache.KeysUnique]
  · simp [exIx, exBigRow]
  · simp [exIx, exBigRow]

theorem popitem_end_needs_codec :
    Ok exIx ∧ exIx.cache.rows.getLast? = some exBigRow ∧
    (exIx.cache.fetchRow Cache.exE exBigRow false).2 ≠ .ioerror ∧
    (exIx.popitem Cache.exE 0 true).1.cache.rows ≠
      exIx.cache.rows.filter (fun y => y.rowid != exBigRow.rowid) := by
  refine ⟨exIx_ok, rfl, ?_, ?_⟩
  · decide
  · decide +kernel

/-- nothing is ever lost to eviction or expiry: a write's lazy cull removes nothing -/
theorem never_loses (x : Index) (now : Int) (h : Ok x) : (x.cache.cullW now).1.rows = x.cache.rows := by
  exact Cache.cullW_noexp x.cache now h.pol h.noexp

end DC.Index
