/-
C12 — Index is a persistent insertion-ordered dictionary (sequential part).

An Index is a Cache with eviction policy 'none' whose items never expire.  Its
abstraction is the row list in rowid (= insertion) order.  Each mapping
operation is shown to act on that list as an insertion-ordered dictionary does:
assignment to a new key appends, assignment to an existing key replaces the
value in place, deletion removes exactly that entry, popitem takes an end.
Concurrency: every method is one Cache call or one transaction block (C05/C06).
-/
import DC.Proofs.IndexLemmas

namespace DC.Index

/-- what makes a Cache an Index: policy 'none', nothing expires, no open block -/
structure Ok (x : Index) : Prop where
  inv : Cache.TableInv x.cache
  pol : x.cache.cfg.policy = .none
  noexp : ∀ r ∈ x.cache.rows, r.expT = none
  depth : x.cache.depth = 0
  disk : x.cache.cfg.disk = .pickle

/-- the stored key of a Python key -/
def dbk (x : Index) (E : Externals) (k : PyVal) : SqlVal × Bool := put E x.cache.cfg.disk k

def hasKey (x : Index) (E : Externals) (k : PyVal) : Bool :=
  x.cache.rows.any (Cache.keyMatch (dbk x E k).1 (dbk x E k).2)

/-- the keys in iteration order, as stored -/
def keys (x : Index) : List (SqlVal × Bool) := x.cache.rows.map (fun r => (r.key, r.raw))

/-- `len(index)` is the number of entries -/
theorem len_exact (x : Index) (h : Ok x) : (x.len).2 = .int x.cache.rows.length := by
  sorry

/-- iteration yields every key once, in insertion order; reversed iteration the reverse -/
theorem iter_order (x : Index) (E : Externals) (h : Ok x) (hp : 0 < x.cache.cfg.page) :
    (x.iter E true).2 = .list (x.cache.rows.map (fun r => Cache.keyOut E x.cache.cfg.disk r.key r.raw)) ∧
    (x.iter E false).2 = .list (x.cache.rows.reverse.map (fun r => Cache.keyOut E x.cache.cfg.disk r.key r.raw)) := by
  sorry

/-- assignment to a NEW key appends it at the end; every other entry is untouched -/
theorem setitem_new (x : Index) (E : Externals) (now : Int) (k v : PyVal) (h : Ok x)
    (hnew : hasKey x E k = false) (hb : Cache.bindable (dbk x E k).1 = true)
    (s1 : Cache) (c : Cache.Cols) (hst : x.cache.store E v false = .ok (s1, c)) (hcb : c.bindable = true) :
    ∃ r : Row, (x.setitem E now k v).1.cache.rows = x.cache.rows ++ [r] ∧
      r.key = (dbk x E k).1 ∧ r.raw = (dbk x E k).2 ∧ r.mode = c.mode ∧ r.val = c.val ∧ r.file = c.file ∧
      r.expT = none := by
  sorry

/-- assignment to an EXISTING key keeps its position (and every other entry) and replaces the value -/
theorem setitem_existing (x : Index) (E : Externals) (now : Int) (k v : PyVal) (h : Ok x)
    (hold : hasKey x E k = true) (hb : Cache.bindable (dbk x E k).1 = true)
    (s1 : Cache) (c : Cache.Cols) (hst : x.cache.store E v false = .ok (s1, c)) (hcb : c.bindable = true) :
    keys (x.setitem E now k v).1 = keys x ∧
    (∀ r ∈ (x.setitem E now k v).1.cache.rows,
        (Cache.keyMatch (dbk x E k).1 (dbk x E k).2 r = true → r.mode = c.mode ∧ r.val = c.val ∧ r.file = c.file) ∧
        (Cache.keyMatch (dbk x E k).1 (dbk x E k).2 r = false → r ∈ x.cache.rows)) := by
  sorry

/-- the invariant is kept by assignment (so the theorems compose over histories) -/
theorem setitem_ok (x : Index) (E : Externals) (now : Int) (k v : PyVal) (h : Ok x) :
    Ok (x.setitem E now k v).1 := by
  sorry

/-- `del index[key]` removes exactly that entry, keeping the order of the others; a missing key
raises KeyError and changes nothing -/
theorem delitem_exact (x : Index) (E : Externals) (now : Int) (k : PyVal) (h : Ok x) :
    (hasKey x E k = true →
      (x.delitem E now k).2 = .none ∧
      (x.delitem E now k).1.cache.rows = x.cache.rows.filter (fun r => !Cache.keyMatch (dbk x E k).1 (dbk x E k).2 r)) ∧
    (hasKey x E k = false →
      (x.delitem E now k).2 = .exc "KeyError" ∧ (x.delitem E now k).1.cache.rows = x.cache.rows) := by
  sorry

theorem delitem_ok (x : Index) (E : Externals) (now : Int) (k : PyVal) (h : Ok x) :
    Ok (x.delitem E now k).1 := by
  sorry

/-- a present key is always found: look-up returns the value of its entry (C01 says that is the
value stored), a missing key raises KeyError -/
theorem getitem_found (x : Index) (E : Externals) (now : Int) (k : PyVal) (h : Ok x)
    (hfast : x.cache.statistics = false) :
    (hasKey x E k = false → (x.getitem E now k).2 = .exc "KeyError") ∧
    (∀ r ∈ x.cache.rows, Cache.keyMatch (dbk x E k).1 (dbk x E k).2 r = true →
      (x.cache.fetchRow E r false).2 ≠ .ioerror →
      (x.getitem E now k).2 = Cache.fetchedOut (x.cache.fetchRow E r false).2) := by
  sorry

/-- `popitem()` removes and returns the LAST entry, `popitem(last=False)` the FIRST; on an empty
index it raises KeyError -/
theorem popitem_end (x : Index) (E : Externals) (now : Int) (last : Bool) (h : Ok x) :
    (x.cache.rows = [] → (x.popitem E now last).2 = .exc "KeyError" ∧ (x.popitem E now last).1.cache.rows = []) ∧
    (∀ r, (if last then x.cache.rows.getLast? else x.cache.rows.head?) = some r →
      (x.cache.fetchRow E r false).2 ≠ .ioerror →
      (x.popitem E now last).1.cache.rows = x.cache.rows.filter (fun y => y.rowid != r.rowid) ∧
      (x.popitem E now last).2 = .tup [Cache.keyOut E x.cache.cfg.disk r.key r.raw,
                                       Cache.fetchedOut (x.cache.fetchRow E r false).2]) := by
  sorry

/-- nothing is ever lost to eviction or expiry: a write's lazy cull removes nothing -/
theorem never_loses (x : Index) (now : Int) (h : Ok x) : (x.cache.cullW now).1.rows = x.cache.rows := by
  sorry

end DC.Index
