/-
C11 (refinement, continued) — deques that are longer than their bound.  `Deque(directory=…,
maxlen=k)` and `Deque.fromcache(cache, maxlen=k)` (persistent.py:78-117) do not trim what the
directory already holds, so `len > maxlen` is a reachable state of the real class (never of a
`collections.deque`).  `OkU` is the invariant `OkN` without its clause `len ≤ maxlen`.  From such a
state `append` / `appendleft` discard exactly ONE item at the other end (the length stays what it
was, it never comes down to the bound); one assignment `deque.maxlen = k` restores the bound
(`setMaxlen_bounds`), after which the refinement theorems apply.
-/
import DC.Properties.C11_Refine

namespace DC.Deque
open DC.Cache DC.Spec DC.DSpec

/-- the budgeted invariant without the clause "at most `maxlen` items": `OkN` of the same directory
seen through an unbounded handle -/
def OkU (d : Deque) (n : Nat) : Prop := OkN { d with maxlen := none } n

theorem OkN.toU {d : Deque} {n : Nat} (h : OkN d n) : OkU d n :=
  { h with bounded := fun m hm => by cases hm }

/-- opening the directory of a deque with any `maxlen` (or changing the attribute behind the
model's back) keeps everything but the bound -/
theorem okU_reopen {d : Deque} {n : Nat} (h : OkN d n) (ml : Option Nat) : OkU { d with maxlen := ml } n :=
  h.toU

theorem OkU.toN {d : Deque} {n : Nat} (h : OkU d n) (hb : ∀ m, d.maxlen = some m → (items d).length ≤ m) :
    OkN d n :=
  { h with bounded := hb }

theorem OkU.mono {d : Deque} {n : Nat} (h : OkU d (n + 1)) : OkU d n := OkN.mono h

theorem OkU.items_length {d : Deque} {n : Nat} (h : OkU d n) : (items d).length = d.cache.rows.length :=
  OkN.items_length (d := { d with maxlen := none }) h

theorem append_state_u (d : Deque) (n : Nat) (E : Externals) (now : Int) (v : PyVal) (left : Bool)
    (hok : OkU d (n + 1)) :
    (entryFor E d.cache.cfg v = none ∧ (d.append E now v left).2 = .exc "UnicodeEncodeError" ∧
      Cache.Good (d.append E now v left).1.cache ∧
      core (d.append E now v left).1.cache = core d.cache) ∨
    (∃ (e : Spec.Entry) (r : Row) (num : Int), entryFor E d.cache.cfg v = some e ∧
      (d.append E now v left).2 = .none ∧ Readable e ∧
      Cache.Good (d.append E now v left).1.cache ∧
      (d.append E now v left).1.cache.cfg = d.cache.cfg ∧
      (d.append E now v left).1.cache.statistics = d.cache.statistics ∧
      items (d.append E now v left).1 =
        trimTo d.maxlen left (if left then r :: items d else items d ++ [r]) ∧
      r ∉ d.cache.rows ∧ r.expT = none ∧ r.key = .int num ∧ qfilter none r = true ∧
      1 + (n : Int) ≤ num ∧ num + (n : Int) ≤ 999999999999998 ∧
      (∀ a ∈ (d.append E now v left).1.cache.rows,
        (a = r ∧ rf_ent (d.append E now v left).1.cache a = e) ∨
        (a ∈ d.cache.rows ∧ rf_ent (d.append E now v left).1.cache a = rf_ent d.cache a))) := by
  have hg := hok.good
  have hx : pushed d E now v left = (d.cache.tbegin.push E now v none (!left) none false .null).1 := rfl
  rcases entryFor_cases E d.cache.cfg v with ⟨hef, hfail⟩ | ⟨p, hpl, hbind, hef⟩
  · -- the value cannot be stored: the push raises, the block is rolled back
    left
    obtain ⟨hg', hc', hout⟩ := drf_append_fail d.cache E now v left hg hok.qok hok.origin
      (fun r hr k hk => by have := hok.room r hr k hk; constructor <;> omega) hfail
    obtain ⟨h1, h2⟩ := append_exc d E now v left _ hout
    rw [h1]
    exact ⟨hef, h2, hg', hc'⟩
  · -- the value is stored
    right
    obtain ⟨r, num, hBI, -, hR, hQ, hcfg, hst, hrexp, hrkey, hb1, hb2, hfsub, hrent, hout⟩ :=
      drf_stage_push d.cache E now v left n hg hok.pol hok.noexp hok.qok hok.origin hok.room hok.originN
        hpl hbind
    have hk : pushOut d E now v left = .val (.int num) := hout
    have hnone := append_out d E now v left _ hk
    rw [items_def (d.append E now v left).1, append_cache d E now v left _ hk]
    have hre : Readable (entryOf p none .null) := drf_place_readable E _ _ v p hpl none .null
    rw [← hx] at hBI hR hQ hcfg hst hfsub hrent
    have hrnot : r ∉ d.cache.rows := by
      intro hr
      have hasc := hBI.tinv.tbl.asc
      unfold RowidsAsc at hasc
      rw [hR, List.pairwise_append] at hasc
      have := hasc.2.2 r hr r (by simp)
      omega
    have hrq : r ∈ (pushed d E now v left).queueRows none := by
      rw [hQ]; cases left <;> simp
    have hrqf : qfilter none r = true := (mem_qrows.1 (by rw [← queueRows_eq]; exact hrq)).2
    have hcount : (pushed d E now v left).count =
        (((if left then r :: items d else items d ++ [r]).length : Nat) : Int) := by
      rw [hBI.tinv.tbl.count, hR]
      have := hok.items_length
      cases left <;> simp [this]
    have htl := tooLong_eq d (pushed d E now v left) _ hcount
    generalize pushed d E now v left = X at hBI hR hQ hcfg hst hfsub hrent hrq htl ⊢
    have hentx : ∀ a ∈ X.rows,
        (a = r ∧ rf_ent X a = entryOf p none .null) ∨ (a ∈ d.cache.rows ∧ rf_ent X a = rf_ent d.cache a) := by
      intro a ha
      rw [hR] at ha
      rcases List.mem_append.1 ha with ha | ha
      · right
        exact ⟨ha, (rf_ent_mono hfsub (drf_BI_nodup hBI) (rf_good_ref hg ha)).symm⟩
      · left
        simp only [List.mem_singleton] at ha
        subst ha
        exact ⟨rfl, hrent⟩
    have hrdx : ∀ a ∈ X.rows, drf_Readable (rf_ent X a) := by
      intro a ha
      rcases hentx a ha with ⟨-, h2⟩ | ⟨h1, h2⟩
      · rw [h2]; exact hre
      · rw [h2]; exact hok.readable a h1
    have hexpx : ∀ a ∈ X.rows, a.expT = none := by
      intro a ha
      rw [hR] at ha
      rcases List.mem_append.1 ha with ha | ha
      · exact hok.noexp a ha
      · simp only [List.mem_singleton] at ha; subst ha; exact hrexp
    have hne : d.tooLong X = true → X.queueRows none ≠ [] := by
      intro _; rw [hQ]; cases left <;> simp
    obtain ⟨hg', hc', hs', hq', he'⟩ := drf_stage_finish X E now (d.tooLong X) (!left) hBI hrdx hexpx hne
    refine ⟨entryOf p none .null, r, num, hef, hnone, hre, hg', hc'.trans hcfg, hs'.trans hst, ?_, hrnot, hrexp,
      hrkey, hrqf, hb1, hb2, ?_⟩
    · rw [hq', hQ]
      unfold trimTo
      rw [← htl]
      cases d.tooLong X <;> cases left <;> rfl
    · intro a ha
      obtain ⟨hax, hent⟩ := he' a ha
      rcases hentx a hax with ⟨h1, h2⟩ | ⟨h1, h2⟩
      · exact .inl ⟨h1, hent.trans h2⟩
      · exact .inr ⟨h1, hent.trans h2⟩

/-- `append` / `appendleft` keep the unbounded invariant, one unit of the budget -/
theorem append_okU (d : Deque) (n : Nat) (E : Externals) (now : Int) (v : PyVal) (left : Bool)
    (hok : OkU d (n + 1)) : OkU (d.append E now v left).1 n := by
  rcases append_state_u d n E now v left hok with ⟨-, -, hg', hc⟩ |
    ⟨e, r, num, -, -, hre, hg', hcfg, hst, hitems, hrnot, hrexp, hrkey, hrqf, hb1, hb2, hent⟩
  · have h := hok.mono.of_core hg' hc
    have hd : (d.append E now v left).1 = { d with cache := (d.append E now v left).1.cache } := by
      show _ = ({ cache := (d.append E now v left).1.cache, maxlen := d.maxlen } : Deque)
      rw [← append_maxlen d E now v left]
    rw [hd]
    exact h
  · have hrows : ∀ a ∈ (d.append E now v left).1.cache.rows, a = r ∨ a ∈ d.cache.rows := by
      intro a ha
      rcases hent a ha with ⟨h1, -⟩ | ⟨h1, -⟩
      · exact .inl h1
      · exact .inr h1
    have hqf : ∀ a ∈ (d.append E now v left).1.cache.rows, qfilter none a = true := by
      intro a ha
      rcases hrows a ha with h | h
      · rw [h]; exact hrqf
      · exact (mem_qrows.1 (hok.allq' a h)).2
    have hqmem : ∀ a ∈ (d.append E now v left).1.cache.queueRows none, a = r ∨ a ∈ d.cache.queueRows none := by
      intro a ha
      rw [queueRows_eq] at ha
      obtain ⟨h1, h2⟩ := mem_qrows.1 ha
      rcases hrows a h1 with h | h
      · exact .inl h
      · exact .inr (by rw [queueRows_eq]; exact mem_qrows.2 ⟨h, h2⟩)
    refine ⟨hg', by rw [hcfg]; exact hok.pol, ?_, ?_, ?_, ?_, ?_, ?_, by rw [hst]; exact hok.stats, ?_, ?_⟩
    · intro a ha
      rcases hrows a ha with h | h
      · rw [h]; exact hrexp
      · exact hok.noexp a h
    · intro a ha
      rw [queueRows_eq]
      exact mem_qrows.2 ⟨ha, hqf a ha⟩
    · intro a ha
      rcases hqmem a ha with h | h
      · rw [h, hrkey]
        exact ⟨num, rfl, rfl, by omega, by omega⟩
      · exact hok.qok a h
    · intro a ha k hk
      rcases hqmem a ha with h | h
      · rw [h, hrkey] at hk
        have : num = k := by simpa [queueNum] using hk
        subst this
        exact ⟨hb1, hb2⟩
      · have := hok.room a h k hk
        constructor <;> omega
    · unfold OriginOk; rw [hcfg]; exact hok.origin
    · show n ≤ (d.append E now v left).1.cache.cfg.qorigin ∧ _
      rw [hcfg]
      have : n + 1 ≤ d.cache.cfg.qorigin ∧ d.cache.cfg.qorigin + (n + 1) ≤ 999999999999999 := hok.originN
      constructor <;> omega
    · intro m hm
      cases hm
    · intro a ha
      rcases hent a ha with ⟨-, h2⟩ | ⟨h1, h2⟩
      · rw [entryOfRow_eq, h2]; exact hre
      · rw [entryOfRow_eq, h2]; exact hok.readable a h1

/-- **from a deque that is longer than its bound `append` / `appendleft` discard exactly one item**:
after a successful call the length is `len + 1` if that fits the bound and `len` otherwise — on a
deque with `len ≥ maxlen` it stays `len`, it does not come down to `maxlen` -/
theorem append_trims_one (d : Deque) (n : Nat) (E : Externals) (now : Int) (v : PyVal) (left : Bool)
    (hok : OkU d (n + 1)) (hs : storable E d.cache.cfg v = true) :
    (d.append E now v left).2 = .none ∧
    (items (d.append E now v left).1).length =
      (if overLen d.maxlen ((items d).length + 1) then (items d).length else (items d).length + 1) := by
  rcases append_state_u d n E now v left hok with ⟨hef, -⟩ |
    ⟨e, r, num, -, hout, -, -, -, -, hitems, -⟩
  · unfold storable at hs; rw [hef] at hs; cases hs
  · refine ⟨hout, ?_⟩
    rw [hitems]
    unfold trimTo
    have hl : (if left then r :: items d else items d ++ [r]).length = (items d).length + 1 := by
      cases left <;> simp
    rw [hl]
    split
    · cases left <;> simp
    · exact hl

theorem append_overlong (d : Deque) (n : Nat) (E : Externals) (now : Int) (v : PyVal) (left : Bool) (k : Nat)
    (hok : OkU d (n + 1)) (hs : storable E d.cache.cfg v = true) (hk : d.maxlen = some k)
    (hlong : k ≤ (items d).length) :
    (items (d.append E now v left).1).length = (items d).length := by
  rw [(append_trims_one d n E now v left hok hs).2]
  unfold overLen
  rw [hk]
  simp only [decide_eq_true_eq]
  rw [if_pos (by omega)]

/-! ### the `maxlen` setter restores the bound -/

theorem setMaxlen_indep (d : Deque) (E : Externals) (now : Int) (k : Nat) (ml : Option Nat) :
    ({ d with maxlen := ml } : Deque).setMaxlen E now k = d.setMaxlen E now k := rfl

/-- **after `deque.maxlen = k` the deque has at most `k` items, whatever it held before**, the full
invariant `OkN` holds (same budget), and the items are the last `k` of the old ones -/
theorem setMaxlen_bounds (d : Deque) (n : Nat) (E : Externals) (now : Int) (k : Nat) (hok : OkU d n) :
    OkN (d.setMaxlen E now k).1 n ∧ (items (d.setMaxlen E now k).1).length ≤ k ∧
    (d.setMaxlen E now k).1.maxlen = some k ∧
    items (d.setMaxlen E now k).1 = (items d).drop ((items d).length - k) := by
  have h1 := setMaxlen_okN { d with maxlen := none } n E now k hok
  obtain ⟨-, -, -, hml, hitems, -⟩ := setMaxlen_state { d with maxlen := none } n E now k hok
  rw [setMaxlen_indep] at h1 hml hitems
  refine ⟨h1, h1.bounded k hml, hml, hitems⟩

/-- … and it represents the last `k` entries of the list the directory held -/
theorem setMaxlen_drefines_u (d : Deque) (n : Nat) (E : Externals) (now : Int) (k : Nat) (hok : OkU d n) :
    DRefines (d.setMaxlen E now k).1
      (DSpec.setMaxlen { items := (items d).map (entryOfRow d.cache), maxlen := d.maxlen } k).1 := by
  have := (setMaxlen_drefines { d with maxlen := none } { items := (items d).map (entryOfRow d.cache), maxlen := none }
    n E now k hok ⟨rfl, rfl⟩).2
  rw [setMaxlen_indep] at this
  exact this

/-- **histories from any persisted deque**: open the directory with whatever `maxlen`, assign
`deque.maxlen = k` once, and every history that fits the budget refines the bounded list that
starts with the last `k` persisted entries -/
theorem drun_refines_after_setMaxlen (d : Deque) (n : Nat) (E : Externals) (now : Int) (k : Nat) (ops : List DOp)
    (hok : OkU d n)
    (hcost : DSpec.costs (DSpec.setMaxlen (absList d) k).1 d.cache.cfg ops ≤ n)
    (hpg : 0 < d.cache.cfg.page)
    (hdisk : ∀ op ∈ ops, op.byKey = true → d.cache.cfg.disk = .pickle)
    (hrt : DSpec.restorable (DSpec.setMaxlen (absList d) k).1 d.cache.cfg ops = true) :
    Deque.outs (d.setMaxlen E now k).1 ops = DSpec.outs (DSpec.setMaxlen (absList d) k).1 d.cache.cfg ops ∧
    DRefines (Deque.run (d.setMaxlen E now k).1 ops)
      (DSpec.run (DSpec.setMaxlen (absList d) k).1 d.cache.cfg ops) := by
  have hcfg : (d.setMaxlen E now k).1.cache.cfg = d.cache.cfg := by
    have := setMaxlen_cfg { d with maxlen := none } n E now k hok
    rw [setMaxlen_indep] at this
    exact this
  have := drun_refines (d.setMaxlen E now k).1 (DSpec.setMaxlen (absList d) k).1 ops n
    (setMaxlen_bounds d n E now k hok).1 (by rw [hcfg]; exact hcost) (setMaxlen_drefines_u d n E now k hok)
    (by rw [hcfg]; exact hpg) (fun op ho hb => by rw [hcfg]; exact hdisk op ho hb) (by rw [hcfg]; exact hrt)
  rw [hcfg] at this
  exact this

/-! ### a concrete over-long deque

Three items persisted without a bound, the directory opened again with `maxlen = 1`: `append` keeps
the length 3 (one item goes at the other end), `rotate(1)` loses an item (its `appendleft` trims at
the back), `reverse()` keeps one item, `maxlen = 1` brings the length down to the bound. -/

def exLong : Deque := { ((fresh none).extend toyV 0 [.int 1, .int 2, .int 3] false).1 with maxlen := some 1 }

theorem exLong_okU : OkU exLong 5 :=
  okU_reopen (extend_okN (fresh none) 5 toyV 0 [.int 1, .int 2, .int 3] false
    (OkN.weaken (k := 499999999999991) (okN_empty none))) (some 1)

theorem overlong_examples :
    (items exLong).length = 3 ∧ ¬ OkN exLong 5 ∧
    (match (exLong.append toyV 1 (.int 4) false).1.iterVals toyV 2 false with
      | (_, .list [.val (.int 2), .val (.int 3), .val (.int 4)]) => true | _ => false) = true ∧
    (match (exLong.rotate toyV 1 1).1.iterVals toyV 2 false with
      | (_, .list [.val (.int 3), .val (.int 1)]) => true | _ => false) = true ∧
    (match (exLong.reverse toyV 1).1.iterVals toyV 2 false with
      | (_, .list [.val (.int 1)]) => true | _ => false) = true ∧
    (match (exLong.setMaxlen toyV 1 1).1.iterVals toyV 2 false with
      | (_, .list [.val (.int 3)]) => true | _ => false) = true := by
  refine ⟨by decide +kernel, ?_, by decide +kernel, by decide +kernel, by decide +kernel, by decide +kernel⟩
  intro h
  have h1 := h.bounded 1 rfl
  have h2 : (items exLong).length = 3 := by decide +kernel
  omega

end DC.Deque
