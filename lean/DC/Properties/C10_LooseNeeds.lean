/-
C10 (loose refinement) — `PushTtlOk` (no negative ttl on a push) is NEEDED by `qrun_loose`
as it is stated: `qrun_loose_needs_ttl`.

`cull_limit = 1`.  `set(k, 0)` at time 0; at time 10 `push(1, expire=-5)` — the item is born
expired and the push's own lazy cull removes it at once —; `touch(k, expire=-20)` makes `k` an
expired row with an earlier expiry time (`touch` does not cull); a second `push(1, expire=-5)`
finds the queue physically empty, hands out the first number AGAIN, and its lazy cull removes `k`
instead of the new item.  The cache's queue now holds ONE item; every reference run that agrees
on the results holds TWO items that are EQUAL (same number after the key reuse, same stored value,
same expiry time 5, same tag), one of which the cache no longer has.  `Thinned` selects by value
and cannot keep one of two equal items: `QLoose` fails.  (This is a limit of the relation, not of
the code: the live content agrees — both items are expired.  With `PushTtlOk` an item pushed is
not expired at its push, so it is never equal to a removed one.)
-/
import DC.Properties.C10_LooseRefine

namespace DC.Cache
open DC.Spec DC.QSpec

def exTtlCache : Cache := { cfg := { policy := .none, cullLimit := 1 } }

def exTtlOps : List Op :=
  [ .set toyV 0 (.str [107]) (.int 0) none false .null,
    .push toyV 10 (.int 1) none true (some (-5)) false .null,
    .touch toyV 10 (.str [107]) (some (-20)),
    .push toyV 10 (.int 1) none true (some (-5)) false .null ]

/-- the entry both pushes store -/
def exTtlEntry : Spec.Entry := { mode := 1, val := .int 1, content := none, expT := some 5, tag := .null }

theorem exTtl_cache_queue :
    absQueue (exTtlCache.run exTtlOps) none = [⟨500000000000000, exTtlEntry⟩] := by decide +kernel

theorem exTtl_cache_outs : (match outs exTtlCache exTtlOps with
    | [.bool true, .val (.int 500000000000000), .bool true, .val (.int 500000000000000)] => true
    | _ => false) = true := by decide +kernel

/-- the reference's push of this example, the number given -/
theorem exTtl_pushAt (q : QSpec.State) (b : Int) :
    QSpec.pushAt q toyV exTtlCache.cfg 10 (.int 1) none true (some (-5)) false .null b =
      if inI64 b then
        ({ q with queues := q.queues.put none (q.queues.get none ++ [⟨b, exTtlEntry⟩]) }, .val (.int b))
      else (q, .exc "UnicodeEncodeError") := rfl

theorem exTtl_ref_outs (a b c d : Int) :
    QSpec.outsAt {} exTtlCache.cfg (exTtlOps.zip [a, b, c, d]) =
      [.bool true, (if inI64 b then .val (.int b) else .exc "UnicodeEncodeError"), .bool true,
       (if inI64 d then .val (.int d) else .exc "UnicodeEncodeError")] ∧
    (QSpec.runAt {} exTtlCache.cfg (exTtlOps.zip [a, b, c, d])).queues.get none =
      (if inI64 b then [⟨b, exTtlEntry⟩] else []) ++ (if inI64 d then [⟨d, exTtlEntry⟩] else []) := by
  cases hb : inI64 b <;> cases hd : inI64 d <;>
    simp only [exTtlOps, List.zip_cons_cons, List.zip_nil_right, QSpec.outsAt, QSpec.runAt, List.foldl_cons,
      List.foldl_nil, QSpec.stepAt, exTtl_pushAt, hb, hd, if_true, Bool.false_eq_true, if_false] <;>
    exact ⟨rfl, rfl⟩

theorem exTtl_num {b : Int} {N : Int}
    (he : Out.val (.int N) = (if inI64 b then Out.val (.int b) else .exc "UnicodeEncodeError")) :
    b = N ∧ inI64 b = true := by
  cases hb : inI64 b with
  | false => rw [hb] at he; simp at he
  | true =>
    rw [hb] at he
    simp only [if_true] at he
    injection he with he
    injection he with he
    exact ⟨he.symm, rfl⟩

/-- **`PushTtlOk` is needed** by `qrun_loose` as stated: every other hypothesis holds for this
history (with two pushes of ttl `-5`), and its conclusion is false -/
theorem qrun_loose_needs_ttl :
    ∃ (c : Cache) (q : QSpec.State) (ops : List Op),
      QOkL c (0 + pushCosts ops) ∧ QLoose c q 0 ∧
      (∀ op ∈ ops, QSpec.Covered op = true) ∧ (∀ op ∈ ops, QSpec.Ordinary c.cfg op = true) ∧
      Monotone 0 ops ∧
      ¬ ∃ ns : List Int, ns.length = ops.length ∧
        outs c ops = QSpec.outsAt q c.cfg (ops.zip ns) ∧
        (∃ clock', QLoose (c.run ops) (QSpec.runAt q c.cfg (ops.zip ns)) clock') ∧
        QSpec.FreshRun q c.cfg (ops.zip ns) := by
  refine ⟨exTtlCache, {}, exTtlOps, (qok_init _ _ _ rfl (by decide) (by decide) (by decide)).toL,
    (qrefines_init _ _ 0).loose, by decide, by decide +kernel, by decide +kernel, ?_⟩
  rintro ⟨ns, hlen, houts, ⟨clock', hL⟩, -⟩
  -- the four numbers
  obtain ⟨a, b, c, d, rfl⟩ : ∃ a b c d, ns = [a, b, c, d] := by
    match ns, hlen with
    | [a, b, c, d], _ => exact ⟨a, b, c, d, rfl⟩
  obtain ⟨r1, r2⟩ := exTtl_ref_outs a b c d
  rw [r1] at houts
  have hc := exTtl_cache_outs
  split at hc
  · rename_i heq
    rw [heq] at houts
    simp only [List.cons.injEq, and_true, true_and] at houts
    -- both pushes were given the first number
    have hb := exTtl_num houts.1
    have hd := exTtl_num houts.2
    -- so the reference's queue holds two equal items, the cache's one of them
    have hq := hL.queues none
    rw [r2, exTtl_cache_queue, hb.2, hd.2, hb.1, hd.1] at hq
    obtain ⟨keep, e, -⟩ := hq
    simp only [if_true, List.cons_append, List.nil_append, List.filter_cons, List.filter_nil] at e
    cases hk : keep ⟨500000000000000, exTtlEntry⟩ <;> rw [hk] at e <;> simp at e
  · cases hc

end DC.Cache
