/-
C13 (refinement) — a sharded cache is observably ONE cache: FanoutCache refines the same
reference dictionary (DC/Model/Spec.lean) as the plain Cache, for every history of
key-addressed calls and bulk removals, whatever the number of shards.

Built from C03_Refine: a key-addressed call of the fanout IS the Cache call on the shard the
key is routed to (`keyed_is_shard_op`), the Cache call refines the dictionary
(`Cache.step_refines`), and the specification's call is *local* at its key
(`frf_step_local`): so the fanout call refines the dictionary as soon as keys the table
treats as equal are routed to one shard — which is exactly what finding D11 denies for
`1` / `1.0` (`RouteOK`, `frun_refines_needs_route`).

Statement notes.
 * The relation is `FRefinesOn V f m clock`, "for every key `k` in `V` the shard `routeK f k`
   represents `m` at `k` as in `Cache.Refines`"; `FRefines` is the relation on all keys.  The
   set `V` is needed because of D11: after `cache[1] = 7` on 8 shards the dictionary binds the
   key `1.0` as well (it IS the key `1`), but the shard of `1.0` holds nothing — so the relation
   on ALL keys cannot be kept under a hypothesis that only speaks about the keys that occur
   (`frun_refines_literal_fails`).  Two true forms:
     - `frun_refines`: the relation on all keys, under `RouteOK f (histKeys …) (fun _ => True)`
       (every key equal to a key of the history is routed like it) — holds for histories
       without numeric keys (`frun_refines_nonnumeric`) and for `JSONDisk` (`routeOK_of_json`);
     - `frun_refines_on` / `frun_refines_hist` / `frun_refines_no_float`: the relation on a set
       `V` of keys containing those of the history, under `RouteOK f (histKeys …) V` (equal keys
       AMONG those considered share their shard) — holds e.g. for histories whose keys are
       integers, text, bytes and objects but no floats.
   In both the results of ALL calls of the history are those of the one dictionary.
 * -- added: `hroute : RouteOK …` in the history theorem; without it the statement is false:
   `frun_refines_needs_route` (set 1, get 1.0 on 8 shards — D11 as a history from the empty cache).
 * `FGood`: ≥ 1 shard, every shard `Cache.Good`, all shards the configuration `fcfg f` (what
   `Fanout.init` creates), eviction policy `none`, page size > 0 (as in C03_Refine).
 * As in C03_Refine the integer results of clear / evict / expire / cull (sums of row counts)
   are masked by `.none` in `outs`.
-/
import DC.Proofs.FRefineLemmas
import DC.Properties.C13_Agg

namespace DC.Fanout
open DC.Cache DC.Spec

/-! ### histories on a fanout -/

/-- one call of a history on the sharded cache: key-addressed calls go to the shard of the key,
the four bulk removals to every shard; the calls outside the specification are not modelled here -/
def step (f : Fanout) : Cache.Op → Fanout × Out
  | .set E now k v ttl read tag => f.keyed E k (fun s => s.set E now k v ttl read tag)
  | .add E now k v ttl read tag => f.keyed E k (fun s => s.add E now k v ttl read tag)
  | .touch E now k ttl => f.keyed E k (fun s => s.touch E now k ttl)
  | .incr E now k delta dflt => f.keyed E k (fun s => s.incr E now k delta dflt)
  | .get E now k read et tg => f.keyed E k (fun s => s.get E now k read et tg)
  | .contains E now k => f.keyed E k (fun s => s.contains E now k)
  | .pop E now k et tg => f.keyed E k (fun s => s.pop E now k et tg)
  | .delitem E now k => f.keyed E k (fun s => s.delitem E now k)
  | .delete E now k => f.keyed E k (fun s => s.delete E now k)
  | .clear => f.clear
  | .evict tag => f.evict tag
  | .expire now => f.expire now
  | .cull now => f.cull now
  | _ => (f, .none)

def run (f : Fanout) (ops : List Cache.Op) : Fanout := ops.foldl (fun f op => (f.step op).1) f

/-- the results of a history; the integer results of the four bulk removals are masked by
`.none` as in `Cache.outs` -/
def outs (f : Fanout) : List Cache.Op → List Out
  | [] => []
  | op :: ops => (if Determined op then (f.step op).2 else .none) :: outs (f.step op).1 ops

/-- the configuration of the shards (that of the first one; `FGood` says they all agree) -/
def fcfg (f : Fanout) : Cfg :=
  match f.shards.head? with
  | some s => s.cfg
  | none => {}

/-- the shard of a DATABASE key: `hash(key) % shards` -/
def routeK (f : Fanout) (k : Spec.Key) : Nat := hashDb k.1 % f.shards.length

/-- `route` is `routeK` of the stored form of the key -/
theorem route_eq (f : Fanout) (E : Externals) (k : PyVal) (hne : f.shards ≠ []) :
    f.route E k = routeK f (keyOf E (fcfg f) k) := by
  unfold route routeK fcfg keyOf diskHash
  cases hs : f.shards with
  | nil => exact absurd hs hne
  | cons a t => rfl

/-! ### the relation and the invariant -/

/-- `f` represents `m` at clock `clock` on the keys in `V`: for every such key the shard the key
is routed to represents `m` at that key exactly as in `Cache.Refines`.  Rows sitting in another
shard than their key's are not excluded and do not matter. -/
def FRefinesOn (V : Spec.Key → Prop) (f : Fanout) (m : Spec.Dict) (clock : Int) : Prop :=
  m.WF ∧ ∀ k, V k → ∃ s, f.shards[routeK f k]? = some s ∧ frf_RefinesAt s m clock k

/-- the relation on all keys -/
def FRefines (f : Fanout) (m : Spec.Dict) (clock : Int) : Prop := FRefinesOn (fun _ => True) f m clock

/-- spelled out -/
theorem frefines_def (f : Fanout) (m : Spec.Dict) (clock : Int) :
    FRefines f m clock ↔ m.WF ∧ ∀ k : Spec.Key, ∃ s, f.shards[routeK f k]? = some s ∧
      match m.get k with
      | some e => (∃ r, s.selKey k.1 k.2 = some r ∧ entryOfRow s r = e) ∨
                  (s.selKey k.1 k.2 = none ∧ e.expired clock = true)
      | none => s.selKey k.1 k.2 = none := by
  exact ⟨fun h => ⟨h.1, fun k => h.2 k trivial⟩, fun h => ⟨h.1, fun k _ => h.2 k⟩⟩

theorem FRefinesOn.mono {V W : Spec.Key → Prop} {f : Fanout} {m : Spec.Dict} {clock : Int}
    (h : FRefinesOn V f m clock) (hW : ∀ k, W k → V k) : FRefinesOn W f m clock :=
  ⟨h.1, fun k hk => h.2 k (hW k hk)⟩

/-- at least one shard; every shard quiescent and consistent; one configuration, without size
limit (eviction policy `none`) and with a positive page size -/
structure FGood (f : Fanout) : Prop where
  nonempty : f.shards ≠ []
  good : ∀ s ∈ f.shards, Cache.Good s
  cfg : ∀ s ∈ f.shards, s.cfg = fcfg f
  policy : (fcfg f).policy = .none
  page : 0 < (fcfg f).page

/-! ### the state a shard is in when a call runs on it -/

theorem frf_prep_good {s : Cache} (hg : Good s) (env : List Nat) : Good (prep s env) :=
  ⟨⟨hg.tinv.tbl, hg.tinv.snap⟩, ⟨hg.finv.ref, hg.finv.inj, hg.finv.fresh, hg.finv.nodup⟩,
    hg.noOrphan, hg.depth, hg.snap, hg.pending, hg.created⟩

theorem frf_prep_view (s : Cache) (env : List Nat) (k : Spec.Key) :
    rf_view (prep s env) k = rf_view s k := rfl

theorem frf_mem_of_getElem? {f : Fanout} {i : Nat} {s : Cache} (h : f.shards[i]? = some s) :
    s ∈ f.shards := List.mem_of_getElem? h

theorem frf_routeK_length {f g : Fanout} (h : g.shards.length = f.shards.length) (k : Spec.Key) :
    routeK g k = routeK f k := by
  unfold routeK; rw [h]

/-- the configuration of a fanout all of whose shards have configuration `C` -/
theorem frf_fcfg_of_all {f : Fanout} {C : Cfg} (hne : f.shards ≠ []) (h : ∀ s ∈ f.shards, s.cfg = C) :
    fcfg f = C := by
  unfold fcfg
  cases hs : f.shards with
  | nil => exact absurd hs hne
  | cons a t =>
    simp only [List.head?_cons]
    exact h a (by rw [hs]; exact List.mem_cons_self)

/-! ### one key-addressed call -/

/-- **generic per-call theorem**: a key-addressed call of the fanout whose Cache version refines
the dictionary (`hop`: result and state, as in the `*_refines` theorems of C03_Refine) and whose
specification is local at the key (`hloc`) refines the dictionary — provided the keys of `V` that
the table treats as equal to the call's key are routed to the same shard (`hroute`). -/
theorem keyed_frefines (V : Spec.Key → Prop) (f : Fanout) (m : Spec.Dict) (clock now : Int)
    (E : Externals) (k : PyVal) (op : Cache → Cache × Out) (sop : Spec.Dict → Spec.Dict × Out)
    (hg : FGood f) (hr : FRefinesOn V f m clock) (hmono : clock ≤ now)
    (hV : V (keyOf E (fcfg f) k))
    (hroute : ∀ b, V b → sameKey (keyOf E (fcfg f) k) b = true →
      routeK f b = routeK f (keyOf E (fcfg f) k))
    (hop : ∀ (c : Cache) (m' : Spec.Dict), Good c → c.cfg = fcfg f → Refines c m' clock →
      (op c).2 = (sop m').2 ∧ Refines (op c).1 (sop m').1 now)
    (hloc : frf_Local sop (keyOf E (fcfg f) k)) :
    (f.keyed E k op).2 = (sop m).2 ∧ FRefinesOn V (f.keyed E k op).1 (sop m).1 now := by
  have hrt := route_eq f E k hg.nonempty
  obtain ⟨s, hs, hsK⟩ := hr.2 _ hV
  rw [← hrt] at hs
  obtain ⟨ho, hsh⟩ := keyed_is_shard_op f E k op s hs
  have hmem := frf_mem_of_getElem? hs
  have hgc : Good (prep s f.env) := frf_prep_good (hg.good s hmem) _
  have hcc : (prep s f.env).cfg = fcfg f := hg.cfg s hmem
  have hlen : (f.keyed E k op).1.shards.length = f.shards.length := onShard_length f _ op
  rw [frf_refinesAt_iff] at hsK
  have hlocal : ∀ k2, rf_VRel (rf_view s k2) (m.get k2) clock →
      Refines (prep s f.env) (frf_localDict (prep s f.env) m (keyOf E (fcfg f) k) k2) clock :=
    fun k2 h2 => frf_localDict_refines _ m _ k2 clock hgc.tinv.tbl.uniq hsK h2
  refine ⟨?_, frf_local_wf hloc hr.1, ?_⟩
  · have h1 := hop _ _ hgc hcc (hlocal _ hsK)
    rw [ho]
    show (op (prep s f.env)).2 = _
    rw [h1.1]
    exact frf_local_out hloc _ _ (frf_localDict_at_K _ m _ _)
  · intro k2 hk2
    obtain ⟨s2, hs2, hs2k⟩ := hr.2 k2 hk2
    rw [frf_refinesAt_iff] at hs2k
    rw [frf_routeK_length hlen]
    by_cases hj : routeK f k2 = f.route E k
    · rw [hj] at hs2 ⊢
      have hss : s2 = s := by rw [hs] at hs2; exact (Option.some.inj hs2).symm
      subst hss
      refine ⟨_, hsh, ?_⟩
      have h1 := (hop _ _ hgc hcc (hlocal k2 hs2k)).2
      have h2 := ((frf_refines_def _ _ _).1 h1).2 k2
      rw [frf_refinesAt_iff] at h2 ⊢
      rw [frf_local_get hloc m (frf_localDict (prep s2 f.env) m (keyOf E (fcfg f) k) k2)
        (frf_localDict_at_K _ m _ _).symm k2 (frf_localDict_at_k _ m _ _).symm]
      exact h2
    · refine ⟨s2, ?_, ?_⟩
      · rw [keyed_only_route f E k op _ hj]; exact hs2
      · have hne : sameKey (keyOf E (fcfg f) k) k2 = false := by
          cases h : sameKey (keyOf E (fcfg f) k) k2 with
          | false => rfl
          | true => exact absurd ((hroute k2 hk2 h).trans hrt.symm) hj
        rw [frf_refinesAt_iff, frf_local_frame hloc m k2 hne]
        exact rf_VRel_mono hs2k hmono

/-- a key-addressed call keeps the invariant (and the configuration and the number of shards)
when its Cache version keeps `Good` and the configuration -/
theorem keyed_fgood (f : Fanout) (E : Externals) (k : PyVal) (op : Cache → Cache × Out)
    (hg : FGood f)
    (hop : ∀ c : Cache, Good c → c.cfg = fcfg f → Good (op c).1 ∧ (op c).1.cfg = fcfg f) :
    FGood (f.keyed E k op).1 ∧ fcfg (f.keyed E k op).1 = fcfg f ∧
      (f.keyed E k op).1.shards.length = f.shards.length := by
  have hlen : (f.keyed E k op).1.shards.length = f.shards.length := onShard_length f _ op
  have hne : (f.keyed E k op).1.shards ≠ [] := by
    apply List.ne_nil_of_length_pos
    rw [hlen]
    exact List.length_pos_iff.2 hg.nonempty
  have hall : ∀ s' ∈ (f.keyed E k op).1.shards, Good s' ∧ s'.cfg = fcfg f := by
    intro s' hs'
    obtain ⟨j, hj⟩ := List.mem_iff_getElem?.1 hs'
    by_cases hjr : j = f.route E k
    · subst hjr
      have hlt : f.route E k < f.shards.length := route_lt f E k hg.nonempty
      have hs := List.getElem?_eq_getElem hlt
      obtain ⟨-, hsh⟩ := keyed_is_shard_op f E k op _ hs
      rw [hsh] at hj
      rw [← Option.some.inj hj]
      have hmem := List.getElem_mem hlt
      exact hop _ (frf_prep_good (hg.good _ hmem) f.env) (hg.cfg (f.shards[f.route E k]) hmem)
    · rw [keyed_only_route f E k op j hjr] at hj
      have hmem := frf_mem_of_getElem? hj
      exact ⟨hg.good _ hmem, hg.cfg _ hmem⟩
  have hcfg : fcfg (f.keyed E k op).1 = fcfg f := frf_fcfg_of_all hne (fun s hs => (hall s hs).2)
  refine ⟨⟨hne, fun s hs => (hall s hs).1, fun s hs => ?_, ?_, ?_⟩, hcfg, hlen⟩
  · rw [hcfg]; exact (hall s hs).2
  · rw [hcfg]; exact hg.policy
  · rw [hcfg]; exact hg.page

/-! ### one bulk removal -/

/-- **generic aggregate theorem**: a call run on every shard (`each`) whose Cache version refines
the dictionary (state half) and whose specification acts on every binding separately refines the
dictionary.  No routing hypothesis is needed: every shard is treated alike. -/
theorem each_frefines (V : Spec.Key → Prop) (f : Fanout) (m : Spec.Dict) (clock now : Int)
    (op : Cache → Cache × Out) (sop : Spec.Dict → Spec.Dict × Out)
    (hg : FGood f) (hr : FRefinesOn V f m clock)
    (hop : ∀ (c : Cache) (m' : Spec.Dict), Good c → c.cfg = fcfg f → Refines c m' clock →
      Refines (op c).1 (sop m').1 now)
    (hpw : frf_Pointwise sop) :
    FRefinesOn V (f.each op).1 (sop m).1 now := by
  obtain ⟨P, hP⟩ := hpw
  obtain ⟨-, hlen, hpt⟩ := each_pointwise f op
  refine ⟨(hP m hr.1).1, fun k hk => ?_⟩
  obtain ⟨s, hs, hsk⟩ := hr.2 k hk
  rw [frf_refinesAt_iff] at hsk
  rw [frf_routeK_length hlen]
  obtain ⟨hlt, hget⟩ := List.getElem?_eq_some_iff.1 hs
  obtain ⟨env, -, hsh⟩ := hpt _ hlt
  rw [hget] at hsh
  refine ⟨_, hsh, ?_⟩
  have hmem := frf_mem_of_getElem? hs
  have hgc : Good (prep s env) := frf_prep_good (hg.good s hmem) _
  have hloc := frf_localDict_refines (prep s env) m k k clock hgc.tinv.tbl.uniq hsk hsk
  have h1 := hop _ _ hgc (hg.cfg s hmem) hloc
  have h2 := ((frf_refines_def _ _ _).1 h1).2 k
  rw [frf_refinesAt_iff] at h2 ⊢
  rw [(hP m hr.1).2 k]
  rw [(hP _ ((frf_refines_def _ _ _).1 hloc).1).2 k, frf_localDict_at_k] at h2
  exact h2

theorem each_fgood (f : Fanout) (op : Cache → Cache × Out) (hg : FGood f)
    (hop : ∀ c : Cache, Good c → c.cfg = fcfg f → Good (op c).1 ∧ (op c).1.cfg = fcfg f) :
    FGood (f.each op).1 ∧ fcfg (f.each op).1 = fcfg f ∧
      (f.each op).1.shards.length = f.shards.length := by
  obtain ⟨-, hlen, hpt⟩ := each_pointwise f op
  have hne : (f.each op).1.shards ≠ [] := by
    apply List.ne_nil_of_length_pos
    rw [hlen]
    exact List.length_pos_iff.2 hg.nonempty
  have hall : ∀ s' ∈ (f.each op).1.shards, Good s' ∧ s'.cfg = fcfg f := by
    intro s' hs'
    obtain ⟨j, hj⟩ := List.mem_iff_getElem?.1 hs'
    have hlt : j < f.shards.length := by
      rw [← hlen]; exact (List.getElem?_eq_some_iff.1 hj).1
    obtain ⟨env, -, hsh⟩ := hpt j hlt
    rw [hsh] at hj
    rw [← Option.some.inj hj]
    have hmem := List.getElem_mem hlt
    exact hop _ (frf_prep_good (hg.good _ hmem) env) (hg.cfg (f.shards[j]) hmem)
  have hcfg : fcfg (f.each op).1 = fcfg f := frf_fcfg_of_all hne (fun s hs => (hall s hs).2)
  refine ⟨⟨hne, fun s hs => (hall s hs).1, fun s hs => ?_, ?_, ?_⟩, hcfg, hlen⟩
  · rw [hcfg]; exact (hall s hs).2
  · rw [hcfg]; exact hg.policy
  · rw [hcfg]; exact hg.page

/-! ### the four bulk removals, and two key-addressed calls spelled out -/

theorem fclear_frefines (V : Spec.Key → Prop) (f : Fanout) (m : Spec.Dict) (clock : Int)
    (hg : FGood f) (hr : FRefinesOn V f m clock) :
    FRefinesOn V (f.clear).1 (Spec.clear m).1 clock :=
  each_frefines V f m clock clock (fun s => s.clear) Spec.clear hg hr
    (fun c m' hc hcfg hr' => Cache.clear_refines c m' clock hc (by rw [hcfg]; exact hg.page) hr')
    frf_clear_pointwise

theorem fevict_frefines (V : Spec.Key → Prop) (f : Fanout) (m : Spec.Dict) (clock : Int) (tag : SqlVal)
    (hg : FGood f) (hr : FRefinesOn V f m clock) :
    FRefinesOn V (f.evict tag).1 (Spec.evict m tag).1 clock :=
  each_frefines V f m clock clock (fun s => s.evict tag) (fun m => Spec.evict m tag) hg hr
    (fun c m' hc hcfg hr' => Cache.evict_refines c m' clock tag hc (by rw [hcfg]; exact hg.page) hr')
    (frf_filter_pointwise (fun e => !e.tag.eqv tag))

theorem fexpire_frefines (V : Spec.Key → Prop) (f : Fanout) (m : Spec.Dict) (clock now : Int)
    (hg : FGood f) (hr : FRefinesOn V f m clock) (hn : clock ≤ now) :
    FRefinesOn V (f.expire now).1 (Spec.expire m now).1 now :=
  each_frefines V f m clock now (fun s => s.expire now) (fun m => Spec.expire m now) hg hr
    (fun c m' hc hcfg hr' => Cache.expire_refines c m' clock now hc (by rw [hcfg]; exact hg.page) hr' hn)
    (frf_filter_pointwise (fun e => !e.expired now))

theorem fcull_frefines (V : Spec.Key → Prop) (f : Fanout) (m : Spec.Dict) (clock now : Int)
    (hg : FGood f) (hr : FRefinesOn V f m clock) (hn : clock ≤ now) :
    FRefinesOn V (f.cull now).1 (Spec.cull m now).1 now :=
  each_frefines V f m clock now (fun s => s.cull now) (fun m => Spec.cull m now) hg hr
    (fun c m' hc hcfg hr' => Cache.cull_refines c m' clock now hc (by rw [hcfg]; exact hg.policy)
      (by rw [hcfg]; exact hg.page) hr' hn)
    (frf_filter_pointwise (fun e => !e.expired now))

/-- `set` on the fanout, from `Cache.set_refines` -/
theorem fset_frefines (V : Spec.Key → Prop) (f : Fanout) (m : Spec.Dict) (clock now : Int)
    (E : Externals) (k v : PyVal) (ttl : Option Int) (read : Bool) (tag : SqlVal)
    (hg : FGood f) (hr : FRefinesOn V f m clock) (hn : clock ≤ now)
    (hV : V (keyOf E (fcfg f) k))
    (hroute : ∀ b, V b → sameKey (keyOf E (fcfg f) k) b = true →
      routeK f b = routeK f (keyOf E (fcfg f) k)) :
    (f.keyed E k (fun s => s.set E now k v ttl read tag)).2 =
      (Spec.set m E (fcfg f) now k v ttl read tag).2 ∧
    FRefinesOn V (f.keyed E k (fun s => s.set E now k v ttl read tag)).1
      (Spec.set m E (fcfg f) now k v ttl read tag).1 now :=
  keyed_frefines V f m clock now E k _ (fun m => Spec.set m E (fcfg f) now k v ttl read tag)
    hg hr hn hV hroute
    (fun c m' hc hcfg hr' => by
      have := Cache.set_refines c m' clock now E k v ttl read tag hc
        (by rw [hcfg]; exact hg.policy) hr' hn
      rw [hcfg] at this
      exact this)
    (frf_set_local E (fcfg f) now k v ttl read tag)

/-- `get` on the fanout, from `Cache.get_refines` -/
theorem fget_frefines (V : Spec.Key → Prop) (f : Fanout) (m : Spec.Dict) (clock now : Int)
    (E : Externals) (k : PyVal) (read et tg : Bool)
    (hg : FGood f) (hr : FRefinesOn V f m clock) (hn : clock ≤ now)
    (hV : V (keyOf E (fcfg f) k))
    (hroute : ∀ b, V b → sameKey (keyOf E (fcfg f) k) b = true →
      routeK f b = routeK f (keyOf E (fcfg f) k)) :
    (f.keyed E k (fun s => s.get E now k read et tg)).2 =
      (Spec.get m E (fcfg f) now k read et tg).2 ∧
    FRefinesOn V (f.keyed E k (fun s => s.get E now k read et tg)).1
      (Spec.get m E (fcfg f) now k read et tg).1 now :=
  keyed_frefines V f m clock now E k _ (fun m => Spec.get m E (fcfg f) now k read et tg)
    hg hr hn hV hroute
    (fun c m' hc hcfg hr' => by
      have := Cache.get_refines c m' clock now E k read et tg hc
        (by rw [hcfg]; exact hg.policy) hr' hn
      rw [hcfg] at this
      exact this)
    (frf_get_local E (fcfg f) now k read et tg)

/-! ### one call of a history -/

theorem frf_step_keyed (f : Fanout) (op : Cache.Op) (E : Externals) (k : PyVal)
    (h : frf_opKey op = some (E, k)) :
    f.step op = f.keyed E k (fun s => s.step op) ∧ Determined op = true := by
  cases op <;> simp only [frf_opKey, Option.some.injEq, Prod.mk.injEq, reduceCtorEq] at h <;>
    obtain ⟨rfl, rfl⟩ := h <;> exact ⟨rfl, rfl⟩

theorem frf_step_bulk (f : Fanout) (op : Cache.Op) (h : frf_isBulk op = true) :
    (f.step op).1 = (f.each (fun s => s.step op)).1 ∧ Determined op = false ∧
      ∀ (m : Spec.Dict) (cfg : Cfg), (Spec.step m cfg op).2 = .none := by
  cases op <;> simp only [frf_isBulk, Bool.false_eq_true] at h <;>
    exact ⟨rfl, rfl, fun _ _ => rfl⟩

theorem frf_clock_le (clock : Int) (op : Cache.Op) (hm : ∀ n, opClock op = some n → clock ≤ n) :
    clock ≤ (opClock op).getD clock := by
  cases h : opClock op with
  | none => exact Int.le_refl _
  | some n => exact hm n h

/-- the Cache call of a history step, as the per-call hypothesis of the generic theorems -/
theorem frf_cache_step (f : Fanout) (clock : Int) (op : Cache.Op) (hg : FGood f)
    (hk : Keyed op = true) (hm : ∀ n, opClock op = some n → clock ≤ n)
    (c : Cache) (m' : Spec.Dict) (hc : Good c) (hcfg : c.cfg = fcfg f) (hr : Refines c m' clock) :
    (if Determined op then (c.step op).2 else .none) = (Spec.step m' (fcfg f) op).2 ∧
    Refines (c.step op).1 (Spec.step m' (fcfg f) op).1 ((opClock op).getD clock) := by
  have := Cache.step_refines c m' clock op hc (by rw [hcfg]; exact hg.policy)
    (by rw [hcfg]; exact hg.page) hr hk hm
  rw [hcfg] at this
  exact this

theorem frf_cache_step_good (f : Fanout) (op : Cache.Op) (hg : FGood f) (hk : Keyed op = true)
    (c : Cache) (hc : Good c) (hcfg : c.cfg = fcfg f) :
    Good (c.step op).1 ∧ (c.step op).1.cfg = fcfg f :=
  ⟨Cache.step_good c op hk hc,
    (Cache.step_cfg c op hk (by rw [hcfg]; exact hg.policy)).trans hcfg⟩

/-- one call: its result is the dictionary's result, the states correspond at the call's clock,
the invariant, the configuration and the number of shards are kept -/
theorem fstep_refines (V : Spec.Key → Prop) (f : Fanout) (m : Spec.Dict) (clock : Int) (op : Cache.Op)
    (hg : FGood f) (hr : FRefinesOn V f m clock) (hk : Keyed op = true)
    (hm : ∀ n, opClock op = some n → clock ≤ n)
    (hV : ∀ E k, frf_opKey op = some (E, k) → V (keyOf E (fcfg f) k))
    (hroute : ∀ E k, frf_opKey op = some (E, k) → ∀ b, V b →
      sameKey (keyOf E (fcfg f) k) b = true → routeK f b = routeK f (keyOf E (fcfg f) k)) :
    (if Determined op then (f.step op).2 else .none) = (Spec.step m (fcfg f) op).2 ∧
    FRefinesOn V (f.step op).1 (Spec.step m (fcfg f) op).1 ((opClock op).getD clock) ∧
    FGood (f.step op).1 ∧ fcfg (f.step op).1 = fcfg f ∧
      (f.step op).1.shards.length = f.shards.length := by
  rcases frf_keyed_cases op hk with ⟨E, k, hkey⟩ | hb
  · obtain ⟨hst, hdet⟩ := frf_step_keyed f op E k hkey
    have h1 := keyed_frefines V f m clock ((opClock op).getD clock) E k (fun s => s.step op)
      (fun m => Spec.step m (fcfg f) op) hg hr (frf_clock_le clock op hm) (hV E k hkey)
      (hroute E k hkey)
      (fun c m' hc hcfg hr' => by
        have := frf_cache_step f clock op hg hk hm c m' hc hcfg hr'
        rw [hdet, if_pos rfl] at this
        exact this)
      (frf_step_local (fcfg f) op E k hkey)
    have h2 := keyed_fgood f E k (fun s => s.step op) hg (frf_cache_step_good f op hg hk)
    rw [hst, hdet, if_pos rfl]
    exact ⟨h1.1, h1.2, h2⟩
  · obtain ⟨hst, hdet, hout⟩ := frf_step_bulk f op hb
    have h1 := each_frefines V f m clock ((opClock op).getD clock) (fun s => s.step op)
      (fun m => Spec.step m (fcfg f) op) hg hr
      (fun c m' hc hcfg hr' => (frf_cache_step f clock op hg hk hm c m' hc hcfg hr').2)
      (frf_step_pointwise (fcfg f) op hb)
    have h2 := each_fgood f (fun s => s.step op) hg (frf_cache_step_good f op hg hk)
    rw [hst, hdet, hout]
    exact ⟨by simp, h1, h2⟩

/-! ### histories -/

/-- the database keys a history addresses -/
def histKeys (cfg : Cfg) (ops : List Cache.Op) (K : Spec.Key) : Prop :=
  ∃ op ∈ ops, ∃ E k, frf_opKey op = some (E, k) ∧ K = keyOf E cfg k

/-- the keys bound in a dictionary -/
def dictKeys (m : Spec.Dict) (K : Spec.Key) : Prop := ∃ p ∈ m, p.1 = K

/-- **the routing hypothesis that D11 forces**: a key `a` of the history (`H`) and a key `b` the
relation speaks about (`V`) that the table treats as equal go to the same shard -/
def RouteOK (f : Fanout) (H V : Spec.Key → Prop) : Prop :=
  ∀ a b, H a → V b → sameKey a b = true → routeK f a = routeK f b

theorem frf_run_cons (f : Fanout) (op : Cache.Op) (ops : List Cache.Op) :
    f.run (op :: ops) = (f.step op).1.run ops := rfl

theorem frf_histKeys_cons {cfg : Cfg} {op : Cache.Op} {ops : List Cache.Op} {K : Spec.Key}
    (h : histKeys cfg ops K) : histKeys cfg (op :: ops) K := by
  obtain ⟨o, ho, r⟩ := h
  exact ⟨o, List.mem_cons_of_mem _ ho, r⟩

/-- the history theorem on a set of keys `V` containing the keys of the history, with everything
the induction carries -/
theorem frun_refines_on_strong (V : Spec.Key → Prop) (f : Fanout) (m : Spec.Dict) (clock : Int)
    (ops : List Cache.Op)
    (hg : FGood f) (hr : FRefinesOn V f m clock) (hk : ∀ op ∈ ops, Keyed op = true)
    (hm : Monotone clock ops)
    (hV : ∀ K, histKeys (fcfg f) ops K → V K)
    (hroute : RouteOK f (histKeys (fcfg f) ops) V) :
    outs f ops = Spec.outs m (fcfg f) ops ∧
    FRefinesOn V (f.run ops) (Spec.run m (fcfg f) ops) (lastClock clock ops) ∧
    FGood (f.run ops) ∧ fcfg (f.run ops) = fcfg f ∧ (f.run ops).shards.length = f.shards.length := by
  induction ops generalizing f m clock with
  | nil => exact ⟨rfl, hr, hg, rfl, rfl⟩
  | cons op ops ih =>
    have hkop := hk op List.mem_cons_self
    obtain ⟨hm1, hm'⟩ := (monotone_cons clock op ops).1 hm
    have hHop : ∀ E k, frf_opKey op = some (E, k) → histKeys (fcfg f) (op :: ops) (keyOf E (fcfg f) k) :=
      fun E k h => ⟨op, List.mem_cons_self, E, k, h, rfl⟩
    obtain ⟨h1, h2, h3, h4, h5⟩ := fstep_refines V f m clock op hg hr hkop hm1
      (fun E k h => hV _ (hHop E k h))
      (fun E k h b hb hs => (hroute _ b (hHop E k h) hb hs).symm)
    obtain ⟨i1, i2, i3, i4, i5⟩ := ih (f.step op).1 (Spec.step m (fcfg f) op).1
      ((opClock op).getD clock) h3 h2 (fun o ho => hk o (List.mem_cons_of_mem _ ho)) hm'
      (by rw [h4]; exact fun K hK => hV K (frf_histKeys_cons hK))
      (by
        rw [h4]
        intro a b ha hb hs
        rw [frf_routeK_length h5, frf_routeK_length h5]
        exact hroute a b (frf_histKeys_cons ha) hb hs)
    rw [h4] at i1 i2
    refine ⟨?_, ?_, i3, i4.trans h4, i5.trans h5⟩
    · show _ :: _ = _ :: _
      rw [h1, i1]
    · rw [frf_run_cons, spec_run_cons]; exact i2

/-- **the history theorem, relative to a set of keys**: `V` is any set of database keys containing
the keys of the history; if keys of the history and keys of `V` that the table treats as equal
share their shard, every call returns what the ONE reference dictionary returns and the final
states correspond on `V` — whatever the number of shards. -/
theorem frun_refines_on (V : Spec.Key → Prop) (f : Fanout) (m : Spec.Dict) (clock : Int)
    (ops : List Cache.Op)
    (hg : FGood f) (hr : FRefinesOn V f m clock) (hk : ∀ op ∈ ops, Keyed op = true)
    (hm : Monotone clock ops)
    (hV : ∀ K, histKeys (fcfg f) ops K → V K)
    (hroute : RouteOK f (histKeys (fcfg f) ops) V) :
    outs f ops = Spec.outs m (fcfg f) ops ∧
    ∃ clock', FRefinesOn V (f.run ops) (Spec.run m (fcfg f) ops) clock' := by
  obtain ⟨h1, h2, -⟩ := frun_refines_on_strong V f m clock ops hg hr hk hm hV hroute
  exact ⟨h1, _, h2⟩

/-- **the history theorem** (the relation on all keys): "a sharded cache is observably ONE cache" —
the same dictionary, the same results, whatever the number of shards.
`hroute`: every database key the table treats as equal to a key of the history is routed like it. -/
theorem frun_refines (f : Fanout) (m : Spec.Dict) (clock : Int) (ops : List Cache.Op)
    (hg : FGood f) (hr : FRefines f m clock) (hk : ∀ op ∈ ops, Keyed op = true)
    (hm : Monotone clock ops)
    (hroute : RouteOK f (histKeys (fcfg f) ops) (fun _ => True)) :
    outs f ops = Spec.outs m (fcfg f) ops ∧
    ∃ clock', FRefines (f.run ops) (Spec.run m (fcfg f) ops) clock' :=
  frun_refines_on (fun _ => True) f m clock ops hg hr hk hm (fun _ _ => trivial) hroute

/-- the brief's reading of the routing hypothesis: among the keys of the history and of the
dictionary, equal keys share their shard; the relation then holds on those keys -/
def keysOf (f : Fanout) (m : Spec.Dict) (ops : List Cache.Op) (K : Spec.Key) : Prop :=
  histKeys (fcfg f) ops K ∨ dictKeys m K

theorem frun_refines_hist (f : Fanout) (m : Spec.Dict) (clock : Int) (ops : List Cache.Op)
    (hg : FGood f) (hr : FRefinesOn (keysOf f m ops) f m clock) (hk : ∀ op ∈ ops, Keyed op = true)
    (hm : Monotone clock ops)
    (hroute : RouteOK f (keysOf f m ops) (keysOf f m ops)) :
    outs f ops = Spec.outs m (fcfg f) ops ∧
    ∃ clock', FRefinesOn (keysOf f m ops) (f.run ops) (Spec.run m (fcfg f) ops) clock' :=
  frun_refines_on _ f m clock ops hg hr hk hm (fun _ h => .inl h)
    (fun a b ha hb hs => hroute a b (.inl ha) hb hs)

/-! ### the routing hypothesis is satisfiable -/

/-- equal keys are identical cells: nothing to prove -/
theorem routeOK_of_identical (f : Fanout) (H V : Spec.Key → Prop)
    (h : ∀ a b, H a → V b → sameKey a b = true → a.1 = b.1) : RouteOK f H V := by
  intro a b ha hb hs
  unfold routeK
  rw [h a b ha hb hs]

theorem frf_eqv_text {x : Str} {b : SqlVal} (h : (SqlVal.text x).eqv b = true) : b = .text x := by
  cases b <;> simp [SqlVal.eqv] at h
  rw [h]

theorem frf_eqv_blob {x : Bytes} {b : SqlVal} (h : (SqlVal.blob x).eqv b = true) : b = .blob x := by
  cases b <;> simp [SqlVal.eqv] at h
  rw [h]

/-- no numeric key in the history: text and bytes are equal only to themselves, so the hypothesis
holds against ALL keys -/
theorem routeOK_of_text_blob (f : Fanout) (H V : Spec.Key → Prop)
    (h : ∀ a, H a → (∃ x, a.1 = .text x) ∨ (∃ x, a.1 = .blob x)) : RouteOK f H V := by
  apply routeOK_of_identical
  intro a b ha _ hs
  simp only [sameKey, Bool.and_eq_true] at hs
  rcases h a ha with ⟨x, hx⟩ | ⟨x, hx⟩
  · rw [hx] at hs ⊢; exact (frf_eqv_text hs.1).symm
  · rw [hx] at hs ⊢; exact (frf_eqv_blob hs.1).symm

/-- the stored form of a non-numeric Python key is text or a blob -/
theorem frf_keyOf_nonnumeric (E : Externals) (cfg : Cfg) (k : PyVal) (hk : pyIsNumber k = false) :
    (∃ x, (keyOf E cfg k).1 = .text x) ∨ (∃ x, (keyOf E cfg k).1 = .blob x) := by
  unfold keyOf put
  cases cfg.disk with
  | json => exact .inr ⟨_, rfl⟩
  | pickle =>
    cases k with
    | int i => cases hk
    | float b => cases hk
    | str s => exact .inl ⟨_, rfl⟩
    | bytes b => exact .inr ⟨_, rfl⟩
    | none => exact .inr ⟨_, rfl⟩
    | obj o => exact .inr ⟨_, rfl⟩

/-- with the JSON disk every stored key is a blob -/
theorem frf_keyOf_json (E : Externals) (cfg : Cfg) (k : PyVal) (hd : cfg.disk = .json) :
    ∃ x, (keyOf E cfg k).1 = .blob x := by
  unfold keyOf put
  rw [hd]
  exact ⟨_, rfl⟩

/-- **no key of the history is a number** (int or float): the routing hypothesis holds -/
theorem routeOK_of_nonnumeric (f : Fanout) (ops : List Cache.Op) (V : Spec.Key → Prop)
    (h : ∀ op ∈ ops, ∀ E k, frf_opKey op = some (E, k) → pyIsNumber k = false) :
    RouteOK f (histKeys (fcfg f) ops) V := by
  apply routeOK_of_text_blob
  rintro a ⟨op, hop, E, k, hkey, rfl⟩
  exact frf_keyOf_nonnumeric E _ k (h op hop E k hkey)

/-- with `JSONDisk` the routing hypothesis holds for every history -/
theorem routeOK_of_json (f : Fanout) (ops : List Cache.Op) (V : Spec.Key → Prop)
    (hd : (fcfg f).disk = .json) : RouteOK f (histKeys (fcfg f) ops) V := by
  apply routeOK_of_text_blob
  rintro a ⟨op, hop, E, k, hkey, rfl⟩
  exact .inr (frf_keyOf_json E _ k hd)

/-- no float among the keys considered (integers, text, bytes, pickled objects only): equal
keys are identical, the hypothesis holds -/
theorem routeOK_of_no_real (f : Fanout) (H V : Spec.Key → Prop)
    (hH : ∀ a, H a → ∀ x, a.1 ≠ .real x) (hV : ∀ b, V b → ∀ x, b.1 ≠ .real x) : RouteOK f H V := by
  apply routeOK_of_identical
  intro a b ha hb hs
  simp only [sameKey, Bool.and_eq_true] at hs
  have hs := hs.1
  obtain ⟨a1, a2⟩ := a
  obtain ⟨b1, b2⟩ := b
  have hH' := hH _ ha
  have hV' := hV _ hb
  simp only at hs hH' hV' ⊢
  cases a1 with
  | null => simp [SqlVal.eqv] at hs
  | text x => exact (frf_eqv_text hs).symm
  | blob x => exact (frf_eqv_blob hs).symm
  | real x => exact absurd rfl (hH' x)
  | int i =>
    cases b1 with
    | null => simp [SqlVal.eqv] at hs
    | text x => simp [SqlVal.eqv] at hs
    | blob x => simp [SqlVal.eqv] at hs
    | real x => exact absurd rfl (hV' x)
    | int j =>
      have : intNum i = intNum j := by simpa [SqlVal.eqv, SqlVal.num] using hs
      rw [(intNum_inj' i j).1 this]

/-! ### the empty fanout -/

theorem frf_init_mem {n : Nat} {cf : Cfg} {st : Bool} {s : Cache} (hs : s ∈ (Fanout.init n cf st).shards) :
    s = { cfg := { cf with limD := cf.limD * n }, statistics := st } :=
  (List.mem_replicate.1 hs).2

theorem frf_init_length (n : Nat) (cf : Cfg) (st : Bool) : (Fanout.init n cf st).shards.length = n :=
  List.length_replicate

theorem frf_init_nonempty (n : Nat) (cf : Cfg) (st : Bool) (hn : 1 ≤ n) :
    (Fanout.init n cf st).shards ≠ [] := by
  apply List.ne_nil_of_length_pos
  rw [frf_init_length]
  exact hn

theorem fcfg_init (n : Nat) (cf : Cfg) (st : Bool) (hn : 1 ≤ n) :
    fcfg (Fanout.init n cf st) = { cf with limD := cf.limD * n } := by
  apply frf_fcfg_of_all (frf_init_nonempty n cf st hn)
  intro s hs
  rw [frf_init_mem hs]

theorem fgood_init (n : Nat) (cf : Cfg) (st : Bool) (hn : 1 ≤ n) (hp : cf.policy = .none)
    (hpg : 0 < cf.page) : FGood (Fanout.init n cf st) := by
  refine ⟨frf_init_nonempty n cf st hn, ?_, ?_, ?_, ?_⟩
  · intro s hs
    rw [frf_init_mem hs]
    exact good_init _ _
  · intro s hs
    rw [fcfg_init n cf st hn, frf_init_mem hs]
  · rw [fcfg_init n cf st hn]; exact hp
  · rw [fcfg_init n cf st hn]; exact hpg

/-- a fresh `FanoutCache` with at least one shard represents the empty dictionary (on all keys,
at every clock) -/
theorem frefines_init (n : Nat) (cf : Cfg) (st : Bool) (hn : 1 ≤ n) (clock : Int) :
    FRefines (Fanout.init n cf st) [] clock := by
  refine ⟨rf_wf_nil, fun k _ => ?_⟩
  have hlt : routeK (Fanout.init n cf st) k < (Fanout.init n cf st).shards.length := by
    unfold routeK
    rw [frf_init_length]
    exact Nat.mod_lt _ (by omega)
  refine ⟨_, List.getElem?_eq_getElem hlt, ?_⟩
  rw [frf_init_mem (List.getElem_mem hlt)]
  rfl

/-! ### decidable forms of the side conditions, for concrete histories -/

/-- every key of the history satisfies `P` (as Python value) -/
def histPyAll (P : PyVal → Bool) (ops : List Cache.Op) : Bool :=
  ops.all (fun op => match frf_opKey op with | some (_, k) => P k | none => true)

/-- every key of the history satisfies `P` (in stored form) -/
def histKeyAll (cfg : Cfg) (P : Spec.Key → Bool) (ops : List Cache.Op) : Bool :=
  ops.all (fun op => match frf_opKey op with | some (E, k) => P (keyOf E cfg k) | none => true)

theorem frf_histPyAll {P : PyVal → Bool} {ops : List Cache.Op} (h : histPyAll P ops = true) :
    ∀ op ∈ ops, ∀ E k, frf_opKey op = some (E, k) → P k = true := by
  intro op hop E k hkey
  have := List.all_eq_true.1 h op hop
  rw [hkey] at this
  exact this

theorem frf_histKeyAll {cfg : Cfg} {P : Spec.Key → Bool} {ops : List Cache.Op}
    (h : histKeyAll cfg P ops = true) : ∀ K, histKeys cfg ops K → P K = true := by
  rintro K ⟨op, hop, E, k, hkey, rfl⟩
  have := List.all_eq_true.1 h op hop
  rw [hkey] at this
  exact this

/-- the stored key is not a float -/
def notReal (k : Spec.Key) : Bool :=
  match k.1 with
  | .real _ => false
  | _ => true

theorem frf_notReal {k : Spec.Key} (h : notReal k = true) : ∀ x, k.1 ≠ .real x := by
  intro x hx
  unfold notReal at h
  rw [hx] at h
  cases h

/-- **histories without numeric keys**: no routing hypothesis is left -/
theorem frun_refines_nonnumeric (f : Fanout) (m : Spec.Dict) (clock : Int) (ops : List Cache.Op)
    (hg : FGood f) (hr : FRefines f m clock) (hk : ∀ op ∈ ops, Keyed op = true)
    (hm : Monotone clock ops) (hkeys : histPyAll (fun k => !pyIsNumber k) ops = true) :
    outs f ops = Spec.outs m (fcfg f) ops ∧
    ∃ clock', FRefines (f.run ops) (Spec.run m (fcfg f) ops) clock' :=
  frun_refines f m clock ops hg hr hk hm
    (routeOK_of_nonnumeric f ops _ (fun op hop E k hkey => by
      simpa using frf_histPyAll hkeys op hop E k hkey))

/-- **histories without float keys** (integers, text, bytes, other objects): the relation on the
keys that are not floats is kept, no routing hypothesis is left -/
theorem frun_refines_no_float (f : Fanout) (m : Spec.Dict) (clock : Int) (ops : List Cache.Op)
    (hg : FGood f) (hr : FRefinesOn (fun k => notReal k = true) f m clock)
    (hk : ∀ op ∈ ops, Keyed op = true) (hm : Monotone clock ops)
    (hkeys : histKeyAll (fcfg f) notReal ops = true) :
    outs f ops = Spec.outs m (fcfg f) ops ∧
    ∃ clock', FRefinesOn (fun k => notReal k = true) (f.run ops) (Spec.run m (fcfg f) ops) clock' :=
  frun_refines_on _ f m clock ops hg hr hk hm (frf_histKeyAll hkeys)
    (routeOK_of_no_real f _ _ (fun a ha => frf_notReal (frf_histKeyAll hkeys a ha))
      (fun _ hb => frf_notReal hb))

/-! ### the routing hypothesis is necessary: D11 as a history -/

/-- eight shards, no size limit -/
def exF8 : Fanout := Fanout.init 8 { policy := .none } false

/-- `cache[1] = 7`, then `cache.get(1.0)`: one key for the table, two shards for the router -/
def exD11 : List Cache.Op :=
  [ .set toyV 0 (.int 1) (.int 7) none false .null,
    .get toyV 0 (.float 0x3ff0000000000000) false false false ]

/-- **the refinement FAILS without `RouteOK`** (known finding D11, as a history from the empty
cache): on 8 shards `get(1.0)` after `set(1, 7)` returns the default, the dictionary (and a plain
Cache, `Cache.run_refines`) returns 7.  The full statement

    theorem frun_refines (hg : FGood f) (hr : FRefines f m clock) (hk : ∀ op ∈ ops, Keyed op = true)
        (hm : Monotone clock ops) : outs f ops = Spec.outs m (fcfg f) ops ∧ ∃ clock', …

is therefore false; `frun_refines` has the -- added: hypothesis `hroute`. -/
theorem frun_refines_needs_route :
    ∃ (f : Fanout) (ops : List Cache.Op), FGood f ∧ FRefines f [] 0 ∧
      (∀ op ∈ ops, Keyed op = true) ∧ Monotone 0 ops ∧ outs f ops ≠ Spec.outs [] (fcfg f) ops := by
  refine ⟨exF8, exD11, fgood_init 8 _ false (by decide) rfl (by decide),
    frefines_init 8 _ false (by decide) 0, by decide, by decide +kernel, ?_⟩
  intro h
  have h2 := congrArg (fun l => match l with | [_, .default] => true | _ => false) h
  revert h2
  decide +kernel

/-- what the fanout answers, and what the ONE dictionary answers -/
example : (match outs exF8 exD11 with | [.bool true, .default] => true | _ => false) = true ∧
    (match Spec.outs [] (fcfg exF8) exD11 with | [.bool true, .val (.int 7)] => true | _ => false) = true := by
  decide +kernel

/-- `cache[1] = 7` alone -/
def exD11Set : List Cache.Op := [ .set toyV 0 (.int 1) (.int 7) none false .null ]

theorem frf_lit1 :
    (match (exF8.run exD11Set).shards[routeK (exF8.run exD11Set) (.real 0x3ff0000000000000, true)]? with
      | some s => s.selKey (.real 0x3ff0000000000000) true
      | none => none) = none := by decide +kernel

theorem frf_lit2 :
    ((Spec.run [] (fcfg exF8) exD11Set).get (.real 0x3ff0000000000000, true)).map (·.expT) = some none := by
  decide +kernel

set_option maxRecDepth 4000 in
/-- The relation on ALL keys cannot be kept under a routing hypothesis that only speaks about the
keys of the history and of the dictionary (the brief's first reading of `RouteOK`): after
`cache[1] = 7` on 8 shards the dictionary binds the key `1.0` too (it IS the key `1`), but the
shard of `1.0` holds nothing.  Hence the two forms proved above: the relation on all keys under
`RouteOK f (histKeys …) (fun _ => True)` (`frun_refines`), or the relation on a set of keys `V`
under `RouteOK f (histKeys …) V` (`frun_refines_on`, `frun_refines_hist`). -/
theorem frun_refines_literal_fails :
    ∃ (f : Fanout) (ops : List Cache.Op), FGood f ∧ FRefines f [] 0 ∧ (∀ op ∈ ops, Keyed op = true) ∧
      Monotone 0 ops ∧ RouteOK f (keysOf f [] ops) (keysOf f [] ops) ∧
      ¬ ∃ clock', FRefines (f.run ops) (Spec.run [] (fcfg f) ops) clock' := by
  refine ⟨exF8, exD11Set, fgood_init 8 _ false (by decide) rfl (by decide),
    frefines_init 8 _ false (by decide) 0, by decide, by decide +kernel, ?_, ?_⟩
  · have key : ∀ K, keysOf exF8 [] exD11Set K → K = (.int 1, true) := by
      rintro K (⟨op, hop, E, k, hkey, rfl⟩ | ⟨p, hp, -⟩)
      · simp only [exD11Set, List.mem_singleton] at hop
        subst hop
        simp only [frf_opKey, Option.some.injEq, Prod.mk.injEq] at hkey
        obtain ⟨rfl, rfl⟩ := hkey
        rfl
      · cases hp
    intro a b ha hb _
    rw [key a ha, key b hb]
  · rintro ⟨c', h⟩
    obtain ⟨s, hs, hat⟩ := h.2 (.real 0x3ff0000000000000, true) trivial
    have h1 := frf_lit1
    rw [hs] at h1
    have h2 := frf_lit2
    unfold frf_RefinesAt at hat
    cases hd : (Spec.run [] (fcfg exF8) exD11Set).get (.real 0x3ff0000000000000, true) with
    | none => rw [hd] at h2; cases h2
    | some e =>
      rw [hd] at h2 hat
      simp only [Option.map_some, Option.some.injEq] at h2
      rcases hat with ⟨r, hr, -⟩ | ⟨-, hx⟩
      · simp only at h1
        rw [h1] at hr; cases hr
      · simp [Entry.expired, h2] at hx

/-! ### non-vacuity: three shards -/

def exF3 : Fanout := Fanout.init 3 { policy := .none } false

/-- the keys `a`, `b`, `c` live on the shards 1, 0, 2 -/
example : [PyVal.str [97], .str [98], .str [99]].map (fun k => exF3.route toyV k) = [1, 0, 2] := by
  decide +kernel

/-- a history over three keys on three shards: set with ttl, incr, get with expiry time, add on a
live and on an expired item, a missing key, touch, expire, pop with tag, evict, delete, clear -/
def exOps3 : List Cache.Op :=
  [ .set toyV 10 (.str [97]) (.int 7) (some 5) false .null,
    .set toyV 10 (.str [98]) (.int 20) none false (.text [116]),
    .set toyV 11 (.str [99]) (.str [120]) (some 100) false (.text [117]),
    .incr toyV 12 (.str [97]) 1 none,
    .get toyV 14 (.str [97]) false true false,
    .add toyV 14 (.str [97]) (.int 1) none false (.text [116]),
    .add toyV 20 (.str [97]) (.int 1) (some 3) false (.text [116]),
    .get toyV 20 (.str [100]) false false false,
    .touch toyV 21 (.str [97]) none,
    .contains toyV 21 (.str [99]),
    .expire 30,
    .pop toyV 31 (.str [97]) false true,
    .evict (.text [116]),
    .get toyV 32 (.str [98]) false false false,
    .get toyV 32 (.str [99]) false false true,
    .delete toyV 33 (.str [99]),
    .delitem toyV 33 (.str [99]),
    .cull 40,
    .clear ]

example : outs exF3 exOps3 = Spec.outs [] (fcfg exF3) exOps3 ∧
    ∃ clock', FRefines (exF3.run exOps3) (Spec.run [] (fcfg exF3) exOps3) clock' :=
  frun_refines_nonnumeric exF3 [] 0 exOps3 (fgood_init 3 _ false (by decide) rfl (by decide))
    (frefines_init 3 _ false (by decide) 0) (by decide) (by decide +kernel) (by decide +kernel)

/-- what the three shards (and the one dictionary) return along that history -/
example : outs exF3 exOps3 =
    [.bool true, .bool true, .bool true, .int 8, .tup [.val (.int 8), .time (some 15)], .bool false,
     .bool true, .default, .bool true, .bool true, .none,
     .tup [.val (.int 1), .sql (.text [116])], .none, .default,
     .tup [.val (.str [120]), .sql (.text [117])], .bool true, .exc "KeyError", .none, .none] :=
  (frun_refines_nonnumeric exF3 [] 0 exOps3 (fgood_init 3 _ false (by decide) rfl (by decide))
    (frefines_init 3 _ false (by decide) 0) (by decide) (by decide +kernel) (by decide +kernel)).1.trans
    (by rfl)

/-- integer keys on 8 shards (the shards of 1, 2, 9 are 1, 2, 1): histories without float keys -/
def exOpsInt : List Cache.Op :=
  [ .set toyV 0 (.int 1) (.int 7) none false .null,
    .set toyV 0 (.int 2) (.int 8) (some 5) false .null,
    .add toyV 1 (.int 9) (.int 9) none false .null,
    .get toyV 2 (.int 1) false false false,
    .incr toyV 3 (.int 2) 1 none,
    .get toyV 6 (.int 2) false false false,
    .pop toyV 7 (.int 9) false false,
    .expire 8 ]

example : outs exF8 exOpsInt = Spec.outs [] (fcfg exF8) exOpsInt ∧
    ∃ clock', FRefinesOn (fun k => notReal k = true) (exF8.run exOpsInt)
      (Spec.run [] (fcfg exF8) exOpsInt) clock' :=
  frun_refines_no_float exF8 [] 0 exOpsInt (fgood_init 8 _ false (by decide) rfl (by decide))
    ((frefines_init 8 _ false (by decide) 0).mono (fun _ _ => trivial)) (by decide)
    (by decide +kernel) (by decide +kernel)

end DC.Fanout
