/-
C10 — what a user of push / pull / peek sees, as consequences of the history
theorem `qrun_refines` (DC/Properties/C10_Refine.lean) and of pure facts about the
reference (DC/Proofs/QSpecLemmas.lean):

 * `fifo_after_history`       n pushes at the back of one prefix on a fresh cache, then n pulls
                              from the front, return the values in push order; a further pull
                              returns the default
 * `lifo_same_side`           … pulled from the back: in reverse push order
 * `exactly_once_sequential`  … pulled from any sides, at least as many pulls as pushes: every
                              pushed item is returned by exactly one pull (the items returned are a
                              permutation of the items pushed), every other pull returns the default
 * `untouched_history`        calls on other prefixes and key-addressed calls on ordinary keys —
                              a whole history of them — leave the queue of prefix `p` as it is
 * `prefix_isolation_history` the results of the calls on prefix `p` (and of the bulk removals) in
                              a history are their results in the history projected to those calls

The first three are stated for values that can be stored (`DSpec.storable`: `Disk.store` can write
the value and `sqlite3` can bind the cell), a prefix that can be bound (no lone surrogate), no
expiry time, and at most 499999999999999 pushes (the key budget of `qok_init`).  The pushed items
are `mkItems origin entries`: numbered consecutively from the origin (500000000000000); a push
returns `queueKey p number` (the number itself for `prefix=None`, `"<prefix>-<15 digits>"`
otherwise), a pull returns `QSpec.result …` = `(that key, the stored value read back)`.
-/
import DC.Properties.C10_Refine
import DC.Proofs.QSpecLemmas

namespace DC.Cache
open DC.Spec DC.QSpec

/-- `vs` pushed at the back of prefix `p` at time `t1`, then pulls from the sides `fs` (`true` =
front) at time `t2` -/
def pushPulls (E : Externals) (t1 t2 : Int) (p : Option Str) (vs : List PyVal) (fs : List Bool) : List Op :=
  vs.map (fun v => .push E t1 v p true none false .null) ++ fs.map (fun f => .pull E t2 p f false false)

/-! ### the side conditions of `qrun_refines` for such a history -/

theorem monotone_const (ops : List Op) (t T : Int) (h : t ≤ T) (hc : ∀ op ∈ ops, opClock op = some T) :
    Monotone t ops := by
  induction ops generalizing t with
  | nil => rfl
  | cons op ops ih =>
    rw [monotone_cons, hc op List.mem_cons_self]
    exact ⟨fun n hn => by cases hn; exact h,
      ih T (Int.le_refl _) (fun o ho => hc o (List.mem_cons_of_mem _ ho))⟩

theorem monotone_two (a b : List Op) (t T1 T2 : Int) (h1 : t ≤ T1) (h2 : T1 ≤ T2)
    (ha : ∀ op ∈ a, opClock op = some T1) (hb : ∀ op ∈ b, opClock op = some T2) :
    Monotone t (a ++ b) := by
  induction a generalizing t with
  | nil => exact monotone_const b t T2 (Int.le_trans h1 h2) hb
  | cons op a ih =>
    rw [List.cons_append, monotone_cons, ha op List.mem_cons_self]
    exact ⟨fun n hn => by cases hn; exact h1,
      ih T1 (Int.le_refl _) (fun o ho => ha o (List.mem_cons_of_mem _ ho))⟩

theorem pushCosts_append (a b : List Op) : pushCosts (a ++ b) = pushCosts a + pushCosts b := by
  simp [pushCosts]

theorem pushPulls_ok (cf : Cfg) (E : Externals) (t1 t2 : Int) (p : Option Str) (vs : List PyVal)
    (fs : List Bool) (h0 : 0 ≤ t1) (h12 : t1 ≤ t2) :
    (∀ op ∈ pushPulls E t1 t2 p vs fs, QSpec.Covered op = true) ∧
    (∀ op ∈ pushPulls E t1 t2 p vs fs, QSpec.Ordinary cf op = true) ∧
    (∀ op ∈ pushPulls E t1 t2 p vs fs, PushNoTtl op = true) ∧
    Monotone 0 (pushPulls E t1 t2 p vs fs) ∧ pushCosts (pushPulls E t1 t2 p vs fs) = vs.length := by
  have hmem : ∀ op ∈ pushPulls E t1 t2 p vs fs,
      (∃ v, op = .push E t1 v p true none false .null) ∨ (∃ f, op = .pull E t2 p f false false) := by
    intro op hop
    rcases List.mem_append.1 hop with h | h
    · obtain ⟨v, -, rfl⟩ := List.mem_map.1 h; exact .inl ⟨v, rfl⟩
    · obtain ⟨f, -, rfl⟩ := List.mem_map.1 h; exact .inr ⟨f, rfl⟩
  refine ⟨?_, ?_, ?_, ?_, ?_⟩
  · intro op hop; rcases hmem op hop with ⟨v, rfl⟩ | ⟨f, rfl⟩ <;> rfl
  · intro op hop; rcases hmem op hop with ⟨v, rfl⟩ | ⟨f, rfl⟩ <;> rfl
  · intro op hop; rcases hmem op hop with ⟨v, rfl⟩ | ⟨f, rfl⟩ <;> rfl
  · apply monotone_two _ _ 0 t1 t2 h0 h12
    · intro op hop; obtain ⟨v, -, rfl⟩ := List.mem_map.1 hop; rfl
    · intro op hop; obtain ⟨f, -, rfl⟩ := List.mem_map.1 hop; rfl
  · unfold pushPulls
    rw [pushCosts_append]
    have h1 : ∀ l : List PyVal, pushCosts (l.map (fun v => Op.push E t1 v p true none false .null)) = l.length := by
      intro l; induction l with
      | nil => rfl
      | cons a l ih => simp only [pushCosts, List.map_cons, List.sum_cons, List.length_cons] at ih ⊢; rw [ih]; simp [pushCost]; omega
    have h2 : ∀ l : List Bool, pushCosts (l.map (fun f => Op.pull E t2 p f false false)) = 0 := by
      intro l; induction l with
      | nil => rfl
      | cons a l ih => simp only [pushCosts, List.map_cons, List.sum_cons] at ih ⊢; rw [ih]; rfl
    rw [h1, h2]; rfl

/-! ### pushes at the back, then pulls -/

/-- the general form: the pushes return the keys of consecutively numbered items, the pulls
return every item exactly once (`picked` is a permutation of the items pushed) and then the
default; pulled from the front only the order is the push order, from the back only its reverse -/
theorem push_pull_history (cf : Cfg) (st : Bool) (E : Externals) (t1 t2 : Int) (p : Option Str)
    (vs : List PyVal) (fs : List Bool)
    (hp : cf.policy = .none) (hpg : 0 < cf.page) (hor : cf.qorigin = 500000000000000)
    (h0 : 0 ≤ t1) (h12 : t1 ≤ t2) (hn : vs.length ≤ 499999999999999) (hk : vs.length ≤ fs.length)
    (hs : ∀ v ∈ vs, DSpec.storable E cf v = true)
    (hpre : ∀ s, p = some s → (utf8enc s).isSome = true) :
    ∃ picked : List Item, picked.Perm (mkItems cf.qorigin (vs.map (storedAs E cf))) ∧
      outs ({ cfg := cf, statistics := st } : Cache) (pushPulls E t1 t2 p vs fs) =
        (mkItems cf.qorigin (vs.map (storedAs E cf))).map (fun it => .val (column (queueKey p it.num))) ++
        (picked.map (QSpec.result E cf p false false) ++ List.replicate (fs.length - vs.length) .default) ∧
      ((∀ f ∈ fs, f = true) → picked = mkItems cf.qorigin (vs.map (storedAs E cf))) ∧
      ((∀ f ∈ fs, f = false) → picked = (mkItems cf.qorigin (vs.map (storedAs E cf))).reverse) := by
  obtain ⟨c1, c2, c3, c4, c5⟩ := pushPulls_ok cf E t1 t2 p vs fs h0 h12
  have hrun := queues_after_history_covered cf st (pushPulls E t1 t2 p vs fs) hp hpg hor
    (by rw [c5]; exact hn) c1 c2 (.inr c3) c4
  have hbind : ∀ k : Nat, k < ([] : List Spec.Entry).length + vs.length →
      bindable (queueKey p (cf.qorigin + k)) = true := by
    intro k hk'
    simp only [List.length_nil, Nat.zero_add] at hk'
    apply bindable_queueKey p _ _ hpre
    unfold Fits
    rw [hor]
    constructor <;> omega
  obtain ⟨g1, g2⟩ := pushes_spec E cf t1 p vs [] {} hbind hs rfl
  simp only [List.nil_append, List.length_nil] at g1 g2
  have hz : (cf.qorigin : Int) + ((0 : Nat) : Int) = cf.qorigin := by omega
  rw [hz] at g2
  have hne : NoExp (mkItems cf.qorigin (vs.map (storedAs E cf))) := by
    apply mkItems_noExp
    intro e he
    obtain ⟨v, hv, rfl⟩ := List.mem_map.1 he
    exact entryFor_expT (storedAs_spec (hs v hv))
  have hlen : (mkItems (cf.qorigin : Int) (vs.map (storedAs E cf))).length = vs.length := by
    rw [mkItems_length, List.length_map]
  obtain ⟨picked, p1, p2, p3, p4, -⟩ := pulls_spec E cf t2 p false false fs _ _ g1 hne (by rw [hlen]; exact hk)
  refine ⟨picked, p1, ?_, p3, p4⟩
  rw [hrun]
  unfold pushPulls
  rw [outs_append, g2, p2, hlen]
  rfl

/-- **FIFO**: `n` pushes at the back of one prefix on a fresh cache, then `n` pulls from the front,
return the values in push order, and a further pull returns the default -/
theorem fifo_after_history (cf : Cfg) (st : Bool) (E : Externals) (t1 t2 : Int) (p : Option Str)
    (vs : List PyVal)
    (hp : cf.policy = .none) (hpg : 0 < cf.page) (hor : cf.qorigin = 500000000000000)
    (h0 : 0 ≤ t1) (h12 : t1 ≤ t2) (hn : vs.length ≤ 499999999999999)
    (hs : ∀ v ∈ vs, DSpec.storable E cf v = true)
    (hpre : ∀ s, p = some s → (utf8enc s).isSome = true) :
    outs ({ cfg := cf, statistics := st } : Cache)
        (pushPulls E t1 t2 p vs (List.replicate (vs.length + 1) true)) =
      (mkItems cf.qorigin (vs.map (storedAs E cf))).map (fun it => .val (column (queueKey p it.num))) ++
      ((mkItems cf.qorigin (vs.map (storedAs E cf))).map (QSpec.result E cf p false false) ++ [.default]) := by
  obtain ⟨picked, -, h2, h3, -⟩ := push_pull_history cf st E t1 t2 p vs (List.replicate (vs.length + 1) true)
    hp hpg hor h0 h12 hn (by simp) hs hpre
  rw [h2, h3 (fun f hf => (List.mem_replicate.1 hf).2)]
  simp

/-- non-vacuity: three values (an integer, a text, bytes) through the queue of prefix `"u"` -/
example : outs exQCache (pushPulls toyV 1 2 (some [117]) [.int 1, .str [97], .bytes [0, 1]]
      (List.replicate 4 true)) =
    (mkItems 500000000000000 ([.int 1, .str [97], .bytes [0, 1]].map (storedAs toyV exQCache.cfg))).map
      (fun it => .val (column (queueKey (some [117]) it.num))) ++
    ((mkItems 500000000000000 ([.int 1, .str [97], .bytes [0, 1]].map (storedAs toyV exQCache.cfg))).map
      (QSpec.result toyV exQCache.cfg (some [117]) false false) ++ [.default]) :=
  fifo_after_history exQCache.cfg false toyV 1 2 (some [117]) [.int 1, .str [97], .bytes [0, 1]]
    rfl (by decide) rfl (by decide) (by decide) (by decide) (by decide +kernel)
    (by intro s h; cases h; decide)

/-- **LIFO on one side**: pushed at the back and pulled from the back, the values come in reverse
push order; a further pull returns the default -/
theorem lifo_same_side (cf : Cfg) (st : Bool) (E : Externals) (t1 t2 : Int) (p : Option Str)
    (vs : List PyVal)
    (hp : cf.policy = .none) (hpg : 0 < cf.page) (hor : cf.qorigin = 500000000000000)
    (h0 : 0 ≤ t1) (h12 : t1 ≤ t2) (hn : vs.length ≤ 499999999999999)
    (hs : ∀ v ∈ vs, DSpec.storable E cf v = true)
    (hpre : ∀ s, p = some s → (utf8enc s).isSome = true) :
    outs ({ cfg := cf, statistics := st } : Cache)
        (pushPulls E t1 t2 p vs (List.replicate (vs.length + 1) false)) =
      (mkItems cf.qorigin (vs.map (storedAs E cf))).map (fun it => .val (column (queueKey p it.num))) ++
      ((mkItems cf.qorigin (vs.map (storedAs E cf))).reverse.map (QSpec.result E cf p false false) ++
        [.default]) := by
  obtain ⟨picked, -, h2, -, h4⟩ := push_pull_history cf st E t1 t2 p vs (List.replicate (vs.length + 1) false)
    hp hpg hor h0 h12 hn (by simp) hs hpre
  rw [h2, h4 (fun f hf => (List.mem_replicate.1 hf).2)]
  simp

/-- **exactly once** (sequentially): if at least as many pulls as pushes follow on that prefix —
from whichever sides —, every pushed (never-expiring) item is returned by exactly one pull: the
items returned, in pull order, are a permutation of the items pushed, and all remaining pulls
return the default -/
theorem exactly_once_sequential (cf : Cfg) (st : Bool) (E : Externals) (t1 t2 : Int) (p : Option Str)
    (vs : List PyVal) (fs : List Bool)
    (hp : cf.policy = .none) (hpg : 0 < cf.page) (hor : cf.qorigin = 500000000000000)
    (h0 : 0 ≤ t1) (h12 : t1 ≤ t2) (hn : vs.length ≤ 499999999999999) (hk : vs.length ≤ fs.length)
    (hs : ∀ v ∈ vs, DSpec.storable E cf v = true)
    (hpre : ∀ s, p = some s → (utf8enc s).isSome = true) :
    ∃ picked : List Item, picked.Perm (mkItems cf.qorigin (vs.map (storedAs E cf))) ∧
      outs ({ cfg := cf, statistics := st } : Cache) (pushPulls E t1 t2 p vs fs) =
        (mkItems cf.qorigin (vs.map (storedAs E cf))).map (fun it => .val (column (queueKey p it.num))) ++
        (picked.map (QSpec.result E cf p false false) ++ List.replicate (fs.length - vs.length) .default) := by
  obtain ⟨picked, h1, h2, -⟩ := push_pull_history cf st E t1 t2 p vs fs hp hpg hor h0 h12 hn hk hs hpre
  exact ⟨picked, h1, h2⟩

/-- the items pushed have pairwise different numbers (so the keys returned by the pushes identify
them, and "a permutation of the items" is "each item once") -/
theorem mkItems_nums_nodup (a : Int) (es : List Spec.Entry) : ((mkItems a es).map (·.num)).Nodup := by
  have key : ∀ (es : List Spec.Entry) (a : Int), (∀ it ∈ mkItems a es, a ≤ it.num) ∧
      ((mkItems a es).map (·.num)).Nodup := by
    intro es
    induction es with
    | nil => intro a; exact ⟨(fun _ h => by cases h), List.nodup_nil⟩
    | cons e es ih =>
      intro a
      obtain ⟨h1, h2⟩ := ih (a + 1)
      constructor
      · intro it hit
        rcases List.mem_cons.1 hit with rfl | hit
        · exact Int.le_refl _
        · have := h1 it hit; omega
      · simp only [mkItems, List.map_cons, List.nodup_cons]
        refine ⟨?_, h2⟩
        intro hmem
        obtain ⟨it, hit, he⟩ := List.mem_map.1 hmem
        have := h1 it hit
        omega
  exact (key es a).2

/-! ### prefix isolation for histories -/

theorem QOk.le {c : Cache} {a b : Nat} (h : QOk c a) (hab : b ≤ a) : QOk c b := by
  obtain ⟨k, rfl⟩ : ∃ k, a = b + k := ⟨a - b, by omega⟩
  exact h.weaken

/-- a whole history of calls that do not touch prefix `p` — push / pull / peek on other
prefixes, key-addressed calls on ordinary keys — leaves the queue of `p` exactly as it is -/
theorem untouched_history (c : Cache) (q : QSpec.State) (n : Nat) (clock : Int) (ops : List Op)
    (p : Option Str)
    (hok : QOk c (n + pushCosts ops)) (hr : QRefines c q clock)
    (hk : ∀ op ∈ ops, QSpec.Covered op = true) (ho : ∀ op ∈ ops, QSpec.Ordinary c.cfg op = true)
    (hq : c.cfg.cullLimit = 0 ∨ ∀ op ∈ ops, PushNoTtl op = true) (hm : Monotone clock ops)
    (ht : ∀ op ∈ ops, QSpec.touches p op = false) :
    absQueue (c.run ops) p = absQueue c p := by
  obtain ⟨-, h2, -⟩ := qrun_refines_covered_strong c q n clock ops hok hr hk ho hq hm
  rw [h2.queues p, run_untouched c.cfg p ops q ht, hr.queues p]

theorem monotone_le {t t' : Int} (h : t' ≤ t) (ops : List Op) (hm : Monotone t ops) : Monotone t' ops := by
  induction ops generalizing t t' with
  | nil => rfl
  | cons op ops ih =>
    rw [monotone_cons] at hm ⊢
    cases hc : opClock op with
    | none =>
      rw [hc] at hm
      exact ⟨(fun n hn => by cases hn), ih h hm.2⟩
    | some m =>
      rw [hc] at hm
      exact ⟨fun n hn => by cases hn; exact Int.le_trans h (hm.1 m rfl), hm.2⟩

theorem monotone_filter (f : Op → Bool) (t : Int) (ops : List Op) (hm : Monotone t ops) :
    Monotone t (ops.filter f) := by
  induction ops generalizing t with
  | nil => rfl
  | cons op ops ih =>
    rw [monotone_cons] at hm
    rw [List.filter_cons]
    split
    · rw [monotone_cons]
      exact ⟨hm.1, ih _ hm.2⟩
    · cases hc : opClock op with
      | none => rw [hc] at hm; exact ih _ hm.2
      | some m =>
        rw [hc] at hm
        exact monotone_le (hm.1 m rfl) _ (ih _ hm.2)

theorem pushCosts_filter_le (f : Op → Bool) (ops : List Op) : pushCosts (ops.filter f) ≤ pushCosts ops := by
  induction ops with
  | nil => exact Nat.le_refl _
  | cons op ops ih =>
    rw [List.filter_cons]
    split
    · simp only [pushCosts, List.map_cons, List.sum_cons] at ih ⊢; omega
    · simp only [pushCosts, List.map_cons, List.sum_cons] at ih ⊢; omega

/-- **prefix isolation**: in any history covered by `qrun_refines`, the results of the calls on
prefix `p` (push / pull / peek on `p`, and the bulk removals, which act on every queue) are
exactly the results of those calls in the history projected to them — whatever the history does
on other prefixes and on ordinary keys in between -/
theorem prefix_isolation_history (c : Cache) (q : QSpec.State) (n : Nat) (clock : Int) (ops : List Op)
    (p : Option Str)
    (hok : QOk c (n + pushCosts ops)) (hr : QRefines c q clock)
    (hk : ∀ op ∈ ops, QSpec.Covered op = true) (ho : ∀ op ∈ ops, QSpec.Ordinary c.cfg op = true)
    (hq : c.cfg.cullLimit = 0 ∨ ∀ op ∈ ops, PushNoTtl op = true) (hm : Monotone clock ops) :
    QSpec.pick p ops (outs c ops) = outs c (ops.filter (QSpec.touches p)) := by
  have hsub : ∀ op ∈ ops.filter (QSpec.touches p), op ∈ ops := fun op h => (List.mem_filter.1 h).1
  have h1 := (qrun_refines c q n clock ops hok hr hk ho hq hm).1
  have h2 := (qrun_refines c q n clock (ops.filter (QSpec.touches p))
    (hok.le (by have := pushCosts_filter_le (QSpec.touches p) ops; omega)) hr
    (fun op h => hk op (hsub op h)) (fun op h => ho op (hsub op h))
    (by rcases hq with h | h
        · exact .inl h
        · exact .inr (fun op h' => h op (hsub op h')))
    (monotone_filter _ _ _ hm)).1
  rw [h1, h2]
  exact outs_project c.cfg p ops q q rfl

end DC.Cache
