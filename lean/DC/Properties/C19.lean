/-
C19 — DjangoCache honours the Django cache-backend contract.
-/
import DC.Proofs.LayerLemmas

namespace DC.Django

/-- `get_backend_timeout`: None means forever, 0 becomes -1 (already expired), the default
timeout applies for DEFAULT_TIMEOUT, anything else is passed on -/
theorem backend_timeout_cases (d : Django) :
    d.backendTimeout .forever = none ∧ d.backendTimeout .dflt = d.defaultTimeout ∧
    d.backendTimeout (.secs 0) = some (-1) ∧ (∀ t, t ≠ 0 → d.backendTimeout (.secs t) = some t) := by
  refine ⟨rfl, rfl, rfl, ?_⟩
  intro t ht
  simp [backendTimeout, ht]

/-- a zero or negative timeout means already expired: the expiry instant lies strictly before
the store instant, so no look-up at or after the store instant finds the item live -/
theorem nonpositive_timeout_expired (d : Django) (t : Int) (ht : t ≤ 0) (now now' : Int) (hn : now ≤ now')
    (r : Row) (hr : r.expT = (d.backendTimeout (.secs t)).map (now + ·)) :
    Cache.live now' r = false := by
  unfold Cache.live
  rw [hr]
  unfold backendTimeout
  by_cases h0 : t = 0
  · simp [h0]; omega
  · simp [h0]; omega

/-- None means forever -/
theorem forever_never_expires (d : Django) (now now' : Int) (r : Row)
    (hr : r.expT = (d.backendTimeout .forever).map (now + ·)) : Cache.live now' r = true := by
  unfold Cache.live
  rw [hr]
  rfl

/-- keys are namespaced by version: different versions never address the same entry, and
within one version different keys never do -/
theorem makeKey_inj (d : Django) (k₁ k₂ : Str) (v₁ v₂ : Option Int)
    (h : d.makeKey k₁ v₁ = d.makeKey k₂ v₂) :
    v₁.getD d.version = v₂.getD d.version ∧ k₁ = k₂ := by
  rw [makeKey_eq, makeKey_eq] at h
  injection h with h
  have h := List.append_cancel_left h
  have := split_at_sep 58 _ _ _ _ (verStr_no_sep _) (verStr_no_sep _) h
  exact ⟨verStr_inj _ _ this.1, this.2⟩

/-- incr/decr on a key with no live entry raise ValueError (the missing and the expired case) -/
theorem incr_missing_valueerror (d : Django) (E : Externals) (now : Int) (k : Str) (delta : Int)
    (v : Option Int) (s : Cache)
    (hs : d.fan.shards[d.fan.route E (d.makeKey k v)]? = some s)
    (hdead : ∀ r ∈ s.rows, Cache.keyMatch (put E s.cfg.disk (d.makeKey k v)).1 (put E s.cfg.disk (d.makeKey k v)).2 r = true →
      Cache.expired now r = true) (hdepth : s.depth = 0) :
    (d.incr E now k delta v).2 = .exc "ValueError" := by
  have h : (d.fan.keyed E (d.makeKey k v) (fun s => s.incr E now (d.makeKey k v) delta none)).2
      = .exc "KeyError" := by
    unfold Fanout.keyed Fanout.onShard
    rw [hs]
    exact cache_incr_dead { s with env := d.fan.env, envMiss := false, trace := [] } E now _ delta
      hdead hdepth
  unfold Django.incr
  simp only [h]

/-- the methods delegate to the sharded cache under the namespaced key: `get` returns what
the shard's `get` returns for `make_key(key, version)` -/
theorem get_delegates (d : Django) (E : Externals) (now : Int) (k : Str) (v : Option Int) :
    (d.get E now k v).2 =
      (d.fan.keyed E (d.makeKey k v) (fun s => s.get E now (d.makeKey k v) false false false)).2 := by
  rfl

example : (({ fan := { shards := [] }, keyPrefix := [112], version := 2 } : Django).makeKey [107] none) =
    .str [112, 58, 50, 58, 107] := by decide

end DC.Django
