/-
C10 (loose refinement) — the regime outside `qrun_refines`: `cull_limit > 0` AND expiry
times on pushed items (eviction policy `none`).  There the lazy cull of any write may
physically remove expired queue rows, and the key the next `push` hands out (`last physical
key ± 1`) depends on which ones are gone: `qrun_needs_quiet` (C10_Refine.lean) shows a key handed
out twice.  What holds — for EVERY history of the covered calls — is `qrun_loose`:

  there is a run of the reference in which each `push` takes the number of its item from the
  cache's answer (`QSpec.pushAt`; everything else is `QSpec.step`) such that
   * every call returns what that reference run returns (pull, peek, all key-addressed calls;
     the pushes by construction; bulk-removal counts masked as everywhere);
   * at every step `QLoose` holds: for EVERY prefix the cache's queue is the reference's queue
     `Thinned` — the same list without some items that are expired at the clock — and the
     dictionary part is related as in `Refines`;
   * (`QSpec.FreshRun`) the number a push takes is the number of no item of that queue that is
     still live (not expired at the time of the push).  It MAY be the number — hence the key —
     of an item that expired and was physically removed by a lazy cull: that is exactly the
     `qrun_needs_quiet` scenario (`exLoose` below runs it through `qrun_loose`).

Consequences (`QLoose.live_present`, `QLoose.sublist`, `QLoose.live_order`): no live (unexpired)
item is ever lost — every item of the reference's queue that is not expired is in the cache's
queue —; none is duplicated and the order is kept — the cache's queue is a sublist of the
reference's, and its live items are exactly the reference's live items in the same order —; and
since the results of pull / peek are the reference's, live items come out exactly once, in queue
order per side, whatever the lazy cull removed.

Hypotheses: `QOkL` (`QOk` without `quiet`: table and file invariants, policy `none`, page size,
well-formed queue keys, key budget `n` for the pushes, readable items); `QSpec.Covered`,
`QSpec.Ordinary`, `Monotone` as in `qrun_refines`; and
 * `PushTtlOk`: no push carries a NEGATIVE ttl (`expire < 0`, an item born expired).  The
   relation `Thinned` compares items by value; an item born expired can be equal to a removed
   expired one, which a value filter cannot tell apart.  Not a restriction of the code's
   behaviour we know to matter; `TtlOk` is the hypothesis of `push_back` in C10.lean as well.
-/
import DC.Proofs.QLooseKeyed

namespace DC.QSpec
open DC.Cache

/-- along the annotated run, the number given to a push is the number of no live item of that
queue -/
def FreshRun (q : State) (cfg : Cfg) : List (Cache.Op × Int) → Prop
  | [] => True
  | x :: xs =>
    (∀ E now v p back ttl read tag, x.1 = .push E now v p back ttl read tag →
      ∀ it ∈ q.queues.get p, it.ent.expired now = false → it.num ≠ x.2) ∧
    FreshRun (stepAt q cfg x.1 x.2).1 cfg xs

end DC.QSpec

namespace DC.Cache
open DC.Spec DC.QSpec

/-- the call is not a `push` with a negative ttl -/
def PushTtlOk : Op → Prop
  | .push _ _ _ _ _ ttl _ _ => TtlOk ttl
  | _ => True

/-! ### consequences of the loose relation -/

/-- no live item is lost: an item of the reference's queue that is not expired is in the cache -/
theorem QLoose.live_present {c : Cache} {q : QSpec.State} {clock : Int} (h : QLoose c q clock)
    {p : Option Str} {it : Item} (hit : it ∈ q.queues.get p) (hl : it.ent.expired clock = false) :
    it ∈ absQueue c p :=
  (h.queues p).live_mem hit hl

/-- nothing is duplicated or reordered: the cache's queue is a sublist of the reference's -/
theorem QLoose.sublist {c : Cache} {q : QSpec.State} {clock : Int} (h : QLoose c q clock) (p : Option Str) :
    (absQueue c p).Sublist (q.queues.get p) :=
  (h.queues p).sublist

/-- the live items of the cache's queue are the live items of the reference's queue, in order -/
theorem QLoose.live_order {c : Cache} {q : QSpec.State} {clock : Int} (h : QLoose c q clock) (p : Option Str) :
    (absQueue c p).filter (fun it => !it.ent.expired clock) =
      (q.queues.get p).filter (fun it => !it.ent.expired clock) := by
  obtain ⟨keep, e, hk⟩ := h.queues p
  rw [e, List.filter_filter]
  apply List.filter_congr
  intro it hit
  cases h1 : keep it with
  | true => simp
  | false => simp [hk it hit h1]

/-! ### one call -/

theorem qstep_loose (c : Cache) (q : QSpec.State) (n : Nat) (clock : Int) (op : Op)
    (hok : QOkL c (n + pushCost op)) (hr : QLoose c q clock)
    (hk : QSpec.Covered op = true) (ho : QSpec.Ordinary c.cfg op = true) (ht : PushTtlOk op)
    (hm : ∀ t, opClock op = some t → clock ≤ t) :
    ∃ num : Int,
      (if Determined op then (c.step op).2 else .none) = (QSpec.stepAt q c.cfg op num).2 ∧
      QLoose (c.step op).1 (QSpec.stepAt q c.cfg op num).1 ((opClock op).getD clock) ∧
      QOkL (c.step op).1 n ∧ (c.step op).1.cfg = c.cfg ∧
      (∀ E now v p back ttl read tag, op = .push E now v p back ttl read tag →
        ∀ it ∈ q.queues.get p, it.ent.expired now = false → it.num ≠ num) := by
  cases op with
  | push E now v p back ttl read tag =>
    obtain ⟨num, h1, h2, h3, h4, h5⟩ := ql_push_step c q n clock now E v p back ttl read tag hok hr (hm _ rfl) ht
    refine ⟨num, h1, h2, h3, h4, ?_⟩
    intro E' now' v' p' back' ttl' read' tag' he it hit hl
    cases he
    exact h5 it (((hr.queues p).mono (hm _ rfl)).live_mem hit hl)
  | set E now k v ttl read tag =>
    simp only [QSpec.Ordinary, Bool.not_eq_true'] at ho
    have h := ql_set_step c q n clock now E k v ttl read tag hok hr (hm _ rfl) ho
    exact ⟨0, h.1, h.2.1, h.2.2, rf_set_cfg _ _ _ _ _ _ _ _, fun _ _ _ _ _ _ _ _ he => by cases he⟩
  | add E now k v ttl read tag =>
    simp only [QSpec.Ordinary, Bool.not_eq_true'] at ho
    have h := ql_add_step c q n clock now E k v ttl read tag hok hr (hm _ rfl) ho
    exact ⟨0, h.1, h.2.1, h.2.2, rf_add_cfg _ _ _ _ _ _ _ _, fun _ _ _ _ _ _ _ _ he => by cases he⟩
  | touch E now k ttl =>
    simp only [QSpec.Ordinary, Bool.not_eq_true'] at ho
    have h := ql_touch_step c q n clock now E k ttl hok hr (hm _ rfl) ho
    exact ⟨0, h.1, h.2.1, h.2.2, rf_touch_cfg _ _ _ _ _, fun _ _ _ _ _ _ _ _ he => by cases he⟩
  | incr E now k delta dflt =>
    simp only [QSpec.Ordinary, Bool.not_eq_true'] at ho
    have h := ql_incr_step c q n clock now E k delta dflt hok hr (hm _ rfl) ho
    exact ⟨0, h.1, h.2.1, h.2.2, rf_incr_cfg _ _ _ _ _ _, fun _ _ _ _ _ _ _ _ he => by cases he⟩
  | get E now k read et tg =>
    simp only [QSpec.Ordinary, Bool.not_eq_true'] at ho
    have h := ql_get_step c q n clock now E k read et tg hok hr (hm _ rfl) ho
    exact ⟨0, h.1, h.2.1, h.2.2, rf_get_cfg _ _ _ _ _ _ _, fun _ _ _ _ _ _ _ _ he => by cases he⟩
  | contains E now k =>
    simp only [QSpec.Ordinary, Bool.not_eq_true'] at ho
    have h := ql_contains_step c q n clock now E k hok hr (hm _ rfl) ho
    exact ⟨0, h.1, h.2.1, h.2.2, rfl, fun _ _ _ _ _ _ _ _ he => by cases he⟩
  | pop E now k et tg =>
    simp only [QSpec.Ordinary, Bool.not_eq_true'] at ho
    have h := ql_pop_step c q n clock now E k et tg hok hr (hm _ rfl) ho
    exact ⟨0, h.1, h.2.1, h.2.2, rf_pop_cfg _ _ _ _ _ _, fun _ _ _ _ _ _ _ _ he => by cases he⟩
  | delitem E now k =>
    simp only [QSpec.Ordinary, Bool.not_eq_true'] at ho
    have h := ql_delitem_step c q n clock now E k hok hr (hm _ rfl) ho
    exact ⟨0, h.1, h.2.1, h.2.2, rf_delitem_cfg _ _ _ _, fun _ _ _ _ _ _ _ _ he => by cases he⟩
  | delete E now k =>
    simp only [QSpec.Ordinary, Bool.not_eq_true'] at ho
    have h := ql_delete_step c q n clock now E k hok hr (hm _ rfl) ho
    exact ⟨0, h.1, h.2.1, h.2.2, rf_delete_cfg _ _ _ _, fun _ _ _ _ _ _ _ _ he => by cases he⟩
  | pull E now p front et tg =>
    have h := ql_pull_step c q n clock now E p front et tg hok hr (hm _ rfl)
    exact ⟨0, h.1, h.2.1, h.2.2.1, h.2.2.2, fun _ _ _ _ _ _ _ _ he => by cases he⟩
  | peek E now p front et tg =>
    have h := ql_peek_step c q n clock now E p front et tg hok hr (hm _ rfl)
    exact ⟨0, h.1, h.2.1, h.2.2.1, h.2.2.2, fun _ _ _ _ _ _ _ _ he => by cases he⟩
  | clear =>
    have h := ql_clear_step c q n clock hok hr
    exact ⟨0, rfl, h.1, h.2, rf_clear_cfg c, fun _ _ _ _ _ _ _ _ he => by cases he⟩
  | evict tag =>
    have h := ql_evict_step c q n clock tag hok hr
    exact ⟨0, rfl, h.1, h.2, rf_evict_cfg c _, fun _ _ _ _ _ _ _ _ he => by cases he⟩
  | expire now =>
    have h := ql_expire_step c q n clock now hok hr (hm _ rfl)
    exact ⟨0, rfl, h.1, h.2, rf_expire_cfg c _, fun _ _ _ _ _ _ _ _ he => by cases he⟩
  | cull now =>
    have h := ql_cull_step c q n clock now hok hr (hm _ rfl)
    exact ⟨0, rfl, h.1, h.2, rf_cull_cfg c _ hok.pol, fun _ _ _ _ _ _ _ _ he => by cases he⟩
  | _ => cases hk

/-! ### histories -/

theorem QOkL.weaken {c : Cache} {n m : Nat} (h : QOkL c (n + m)) : QOkL c n := by
  induction m with
  | zero => exact h
  | succ m ih => exact ih (QOkL.mono (by rw [← Nat.add_assoc] at h; exact h))

/-- the history theorem with everything the induction carries -/
theorem qrun_loose_strong (c : Cache) (q : QSpec.State) (n : Nat) (clock : Int) (ops : List Op)
    (hok : QOkL c (n + pushCosts ops)) (hr : QLoose c q clock)
    (hk : ∀ op ∈ ops, QSpec.Covered op = true) (ho : ∀ op ∈ ops, QSpec.Ordinary c.cfg op = true)
    (ht : ∀ op ∈ ops, PushTtlOk op) (hm : Monotone clock ops) :
    ∃ ns : List Int, ns.length = ops.length ∧
      outs c ops = QSpec.outsAt q c.cfg (ops.zip ns) ∧
      QLoose (c.run ops) (QSpec.runAt q c.cfg (ops.zip ns)) (lastClock clock ops) ∧
      QOkL (c.run ops) n ∧ (c.run ops).cfg = c.cfg ∧ QSpec.FreshRun q c.cfg (ops.zip ns) := by
  induction ops generalizing c q clock with
  | nil => exact ⟨[], rfl, rfl, hr, hok, rfl, trivial⟩
  | cons op ops ih =>
    have hcost : pushCosts (op :: ops) = pushCost op + pushCosts ops := by
      simp [pushCosts]
    rw [hcost, ← Nat.add_assoc, Nat.add_right_comm] at hok
    obtain ⟨hm1, hm'⟩ := (monotone_cons clock op ops).1 hm
    obtain ⟨num, s1, s2, s3, s4, s5⟩ := qstep_loose c q (n + pushCosts ops) clock op hok hr
      (hk op List.mem_cons_self) (ho op List.mem_cons_self) (ht op List.mem_cons_self) hm1
    obtain ⟨ns, h0, h1, h2, h3, h4, h5⟩ := ih (c.step op).1 (QSpec.stepAt q c.cfg op num).1
      ((opClock op).getD clock) s3 s2
      (fun o h => hk o (List.mem_cons_of_mem _ h))
      (fun o h => by rw [s4]; exact ho o (List.mem_cons_of_mem _ h))
      (fun o h => ht o (List.mem_cons_of_mem _ h)) hm'
    rw [s4] at h1 h2 h4 h5
    refine ⟨num :: ns, by simp [h0], ?_, ?_, h3, h4, ?_⟩
    · show _ :: _ = _ :: _
      rw [s1, h1]; rfl
    · exact h2
    · exact ⟨s5, h5⟩

/-- **the loose history theorem**: for every history of push / pull / peek on any prefixes and
sides — any ttl ≥ 0, any `cull_limit` — mixed with the key-addressed calls on ordinary keys and the
bulk removals, on a cache without size-based eviction, there is a run of the reference taking the
pushed items' numbers from the cache's answers such that all results agree, the final states
correspond loosely, and no push was given the number of a live item -/
theorem qrun_loose (c : Cache) (q : QSpec.State) (n : Nat) (clock : Int) (ops : List Op)
    (hok : QOkL c (n + pushCosts ops)) (hr : QLoose c q clock)
    (hk : ∀ op ∈ ops, QSpec.Covered op = true) (ho : ∀ op ∈ ops, QSpec.Ordinary c.cfg op = true)
    (ht : ∀ op ∈ ops, PushTtlOk op) (hm : Monotone clock ops) :
    ∃ ns : List Int, ns.length = ops.length ∧
      outs c ops = QSpec.outsAt q c.cfg (ops.zip ns) ∧
      (∃ clock', QLoose (c.run ops) (QSpec.runAt q c.cfg (ops.zip ns)) clock') ∧
      QSpec.FreshRun q c.cfg (ops.zip ns) := by
  obtain ⟨ns, h0, h1, h2, -, -, h5⟩ := qrun_loose_strong c q n clock ops hok hr hk ho ht hm
  exact ⟨ns, h0, h1, ⟨_, h2⟩, h5⟩

/-- … on a fresh cache (any `cull_limit`), with the consequences spelled out for the final state:
every live item of every reference queue is in the cache, and the cache's queues are sublists of
the reference's -/
theorem loose_after_history (cf : Cfg) (st : Bool) (ops : List Op)
    (hp : cf.policy = .none) (hpg : 0 < cf.page) (hor : cf.qorigin = 500000000000000)
    (hb : pushCosts ops ≤ 499999999999999)
    (hk : ∀ op ∈ ops, QSpec.Covered op = true) (ho : ∀ op ∈ ops, QSpec.Ordinary cf op = true)
    (ht : ∀ op ∈ ops, PushTtlOk op) (hm : Monotone 0 ops) :
    ∃ ns : List Int, ns.length = ops.length ∧
      outs ({ cfg := cf, statistics := st } : Cache) ops = QSpec.outsAt {} cf (ops.zip ns) ∧
      QSpec.FreshRun {} cf (ops.zip ns) ∧
      ∀ p, (absQueue (({ cfg := cf, statistics := st } : Cache).run ops) p).Sublist
            ((QSpec.runAt {} cf (ops.zip ns)).queues.get p) ∧
        ∀ it ∈ (QSpec.runAt {} cf (ops.zip ns)).queues.get p,
          it.ent.expired (lastClock 0 ops) = false →
          it ∈ absQueue (({ cfg := cf, statistics := st } : Cache).run ops) p := by
  obtain ⟨ns, h0, h1, h2, -, -, h5⟩ := qrun_loose_strong ({ cfg := cf, statistics := st } : Cache) {} 0 0 ops
    (by rw [Nat.zero_add]; exact (qok_init cf st _ hp hpg (by omega) (by omega)).toL)
    (qrefines_init cf st 0).loose hk ho ht hm
  exact ⟨ns, h0, h1, h5, fun p => ⟨h2.sublist p, fun it hit hl => h2.live_present hit hl⟩⟩

/-! ### non-vacuity: the scenario of `qrun_needs_quiet`, run through `qrun_loose` -/

/-- `cull_limit = 10`: push with ttl 1 at time 0, `set` at time 5 (its lazy cull removes the
expired item), push at time 5 (gets the first key AGAIN), pull at time 6 -/
def exLooseCache : Cache := { cfg := { policy := .none, cullLimit := 10 } }

def exLooseOps : List Op :=
  [ .push toyV 0 (.int 1) none true (some 1) false .null,
    .set toyV 5 (.str [120]) (.int 0) none false .null,
    .push toyV 5 (.int 2) none true none false .null,
    .pull toyV 6 none true false false,
    .pull toyV 6 none true false false ]

example : ∃ ns : List Int, ns.length = exLooseOps.length ∧
    outs exLooseCache exLooseOps = QSpec.outsAt {} exLooseCache.cfg (exLooseOps.zip ns) ∧
    (∃ clock', QLoose (exLooseCache.run exLooseOps) (QSpec.runAt {} exLooseCache.cfg (exLooseOps.zip ns)) clock') ∧
    QSpec.FreshRun {} exLooseCache.cfg (exLooseOps.zip ns) :=
  qrun_loose exLooseCache {} 0 0 exLooseOps
    ((qok_init _ _ _ rfl (by decide) (by decide) (by decide)).toL) (qrefines_init _ _ 0).loose
    (by decide) (by decide +kernel)
    (by
      intro op hop
      simp only [exLooseOps, List.mem_cons, List.mem_nil_iff, or_false] at hop
      rcases hop with rfl | rfl | rfl | rfl | rfl
      · intro t ht; cases ht; decide
      · trivial
      · intro t ht; cases ht
      · trivial
      · trivial)
    (by decide +kernel)

/-- the reference run with the numbers the cache gave (500000000000000 twice): the second item
gets the number of the expired, physically removed first one; the pull skips the expired ghost and
returns the live item, as the cache does -/
example : (match outs exLooseCache exLooseOps,
      QSpec.outsAt {} exLooseCache.cfg (exLooseOps.zip [500000000000000, 0, 500000000000000, 0, 0]) with
    | [.val (.int 500000000000000), .bool true, .val (.int 500000000000000),
       .tup [.val (.int 500000000000000), .val (.int 2)], .default],
      [.val (.int 500000000000000), .bool true, .val (.int 500000000000000),
       .tup [.val (.int 500000000000000), .val (.int 2)], .default] => true
    | _, _ => false) = true := by
  decide +kernel

end DC.Cache
