/-
C19 (refinement under an eviction policy) — DjangoCache honours the Django cache contract for
every sequence of calls ALSO WHEN IT EVICTS: for every eviction policy DjangoCache refines the
Django-level specification `DC/Model/DjSpec.lean` run *lossily* (`DjSpec.runLossy`: after each
call the keys of the rows that call evicted are dropped from the ONE reference dictionary).
This is the configuration users run: DjangoCache is a FanoutCache with the default policy
least-recently-stored and the size limit divided among the shards; `djrun_refines` (C19_Refine)
covers policy `none` only.

Built from `Fanout.frun_refines_lossy_strong` (C13_Lossy); the routing hypothesis is automatic
(namespaced keys are text, `djrf_routeOK`).

The contract clauses, restated for a cache that may evict:
 * `get_unaffected_lossy`: calls that do not write to `(key, version)` do not change what
   `get(key, version)` returns — or the item was EVICTED in between (the key is in the drop list
   of one of those calls) and `get` returns the default: never a stale or foreign value.
 * `versions_isolated_lossy`: what is done under another version never changes the VALUE seen
   under this version; it can, however, EVICT this version's item — eviction knows nothing about
   versions (`version_evicts_other_version` is a concrete instance).
 * `forever_returned_lossy` / `forever_returns_value_lossy`: a value stored with timeout None is
   returned by every later `get` unless it was evicted (by the storing `set` itself or by a later
   call), in which case `get` returns the default.
 * `nonpositive_never_returned_lossy`: a value stored with a timeout ≤ 0 is never returned
   (unchanged).
The drop lists are those of `Fanout.FEvictedRun` (C13_Lossy): per shard, only in writes that
found THAT shard at its share of the size limit, at most `cull_limit` rows, unexpired, in the
policy's order within the shard.

 * -- added: `hpl : DPlaced d` (every row sits in the shard of its key; true of a fresh cache,
   kept by every call), see C13_Lossy.
 * -- added: `(dcfg d).disk = .pickle` in the contract clauses, as in C19_Refine.
-/
import DC.Proofs.FLossyDjango

namespace DC.Django
open DC.Cache DC.Spec DC.Fanout DC.DjSpec

/-! ### the invariant for every policy -/

/-- the invariant of the sharded cache without `policy = none` -/
def DGoodAny (d : Django) : Prop := FGoodAny d.fan

/-- every stored row sits in the shard its key is routed to -/
def DPlaced (d : Django) : Prop := FPlaced d.fan

theorem DGood.toAny {d : Django} (h : DGood d) : DGoodAny d := FGood.toAny h

/-! ### the history theorem -/

theorem djlz_keyed (d : Django) (ops : List DOp) : ∀ op ∈ ops.map (toOp (conf d)), Keyed op = true := by
  intro op hop
  obtain ⟨o, -, rfl⟩ := List.mem_map.1 hop
  exact djrf_keyed _ o

/-- the history theorem with everything the induction carries -/
theorem djrun_refines_lossy_strong (d : Django) (m : Spec.Dict) (clock : Int) (ops : List DOp)
    (hg : DGoodAny d) (hpl : DPlaced d) (hr : DRefines d m clock) (hm : DMonotone clock ops) :
    ∃ LLs : List (List (List Row)), FEvictedRun d.fan (ops.map (toOp (conf d))) LLs ∧
      outs d ops = DjSpec.outsLossy m (conf d) (dcfg d) ops (LLs.map fdrops) ∧
      DRefines (d.run ops) (DjSpec.runLossy m (conf d) (dcfg d) ops (LLs.map fdrops))
        (dlastClock clock ops) ∧
      DGoodAny (d.run ops) ∧ DPlaced (d.run ops) ∧ dcfg (d.run ops) = dcfg d ∧
      conf (d.run ops) = conf d := by
  obtain ⟨LLs, h0, h1, h2, h3, hp, h4, -⟩ := frun_refines_lossy_strong (fun _ => True) d.fan m clock
    (ops.map (toOp (conf d))) hg hpl hr (djlz_keyed d ops)
    ((djrf_monotone _ _ _).2 hm) (fun _ _ => trivial) (djrf_routeOK d ops _)
  obtain ⟨r1, r2⟩ := djrf_run d ops
  refine ⟨LLs, h0, ?_, ?_, ?_, ?_, ?_, r2⟩
  · rw [djrf_outs, djlz_spec_outsLossy, h1]; rfl
  · unfold DRefines
    rw [r1, djlz_spec_runLossy, ← djlz_lastClock (conf d)]
    exact h2
  · unfold DGoodAny; rw [r1]; exact h3
  · unfold DPlaced; rw [r1]; exact hp
  · unfold dcfg; rw [r1]; exact h4

/-- **the history theorem for every eviction policy**: for every history of Django cache calls
with a clock that never goes backwards there is, per call, a family of evicted rows — one list per
shard, `Fanout.FEvictedRun`: only where and what C09 allows, shard by shard — such that every call
returns what the Django-level specification over the ONE reference dictionary returns when the
keys of those rows are dropped after each call, and the final states correspond.  No routing
hypothesis: the namespaced keys are text. -/
theorem djrun_refines_lossy (d : Django) (m : Spec.Dict) (clock : Int) (ops : List DOp)
    (hg : DGoodAny d) (hpl : DPlaced d) (hr : DRefines d m clock) (hm : DMonotone clock ops) :
    ∃ LLs : List (List (List Row)), FEvictedRun d.fan (ops.map (toOp (conf d))) LLs ∧
      outs d ops = DjSpec.outsLossy m (conf d) (dcfg d) ops (LLs.map fdrops) ∧
      ∃ clock', DRefines (d.run ops) (DjSpec.runLossy m (conf d) (dcfg d) ops (LLs.map fdrops)) clock' := by
  obtain ⟨LLs, h0, h1, h2, -⟩ := djrun_refines_lossy_strong d m clock ops hg hpl hr hm
  exact ⟨LLs, h0, h1, _, h2⟩

/-- a fresh DjangoCache over `n ≥ 1` shards, ANY eviction policy and size limit, any
database-size observations: the invariant holds, every row sits in its shard (there is none), and
it represents the empty dictionary -/
theorem django_init_any (n : Nat) (cf : Cfg) (st : Bool) (env : List Nat) (pre : Str) (ver : Int)
    (dt : Option Int) (hn : 1 ≤ n) (hpg : 0 < cf.page) (clock : Int) :
    DGoodAny { fan := { Fanout.init n cf st with env := env }, keyPrefix := pre, version := ver,
               defaultTimeout := dt } ∧
    DPlaced { fan := { Fanout.init n cf st with env := env }, keyPrefix := pre, version := ver,
              defaultTimeout := dt } ∧
    DRefines { fan := { Fanout.init n cf st with env := env }, keyPrefix := pre, version := ver,
               defaultTimeout := dt } [] clock :=
  ⟨fgoodAny_env (fgoodAny_init n cf st hn hpg) env, fplaced_env (fplaced_init n cf st _) env,
    frefines_env (frefines_init n cf st hn clock) env⟩

/-- without an eviction policy nothing is dropped: `djrun_refines` (C19_Refine) re-derived for a
cache whose rows sit in their shards -/
theorem djrun_refines_from_lossy (d : Django) (m : Spec.Dict) (clock : Int) (ops : List DOp)
    (hg : DGood d) (hpl : DPlaced d) (hr : DRefines d m clock) (hm : DMonotone clock ops) :
    outs d ops = DjSpec.outs m (conf d) (dcfg d) ops ∧
    ∃ clock', DRefines (d.run ops) (DjSpec.run m (conf d) (dcfg d) ops) clock' := by
  obtain ⟨LLs, h0, h1, clock', h2⟩ := djrun_refines_lossy d m clock ops hg.toAny hpl hr hm
  have hnil : ∀ D ∈ LLs.map fdrops, D = [] := by
    intro D hD
    obtain ⟨LL, hL, rfl⟩ := List.mem_map.1 hD
    exact fevictedRun_policy_none d.fan _ LLs hg.toAny (djlz_keyed d ops) hg.policy h0 LL hL
  obtain ⟨e1, e2⟩ := runLossy_nils m (dcfg d) (ops.map (toOp (conf d))) _ hnil
  rw [djlz_spec_outsLossy, e2, ← djrf_spec_outs] at h1
  rw [djlz_spec_runLossy, e1, ← djrf_spec_run] at h2
  exact ⟨h1, clock', h2⟩

/-! ### what a call returns after a history -/

/-- one call on a state that represents `m`: its result is the specification's -/
theorem djlz_step_out (d : Django) (m : Spec.Dict) (clock : Int) (g : DOp)
    (hg : DGoodAny d) (hpl : DPlaced d) (hr : DRefines d m clock) (hdet : determined g = true)
    (hm : ∀ n, dclock g = some n → clock ≤ n) :
    (d.step g).2 = (DjSpec.step m (conf d) (dcfg d) g).2 := by
  have hro := djrf_routeOK d [g] (fun _ => True)
  have h := (fstep_refines_lossy (fun _ => True) d.fan m clock (toOp (conf d) g) hg hpl hr
    (djrf_keyed _ g) (by rw [djrf_opClock]; exact hm) (fun _ _ _ => trivial)
    (fun E k hkey b hb hs =>
      (hro _ b ⟨_, List.mem_singleton.2 rfl, E, k, hkey, rfl⟩ hb hs).symm)).1
  rw [djrf_determined, hdet, if_pos rfl] at h
  rw [djrf_step_eq, djrf_spec_step]
  show post g _ = post g _
  rw [h]
  rfl

/-- **what a user sees, every policy**: after any history with a non-decreasing clock, a call
returns exactly what the Django-level specification returns on the lossy dictionary built by that
history -/
theorem call_after_history_lossy (d : Django) (m : Spec.Dict) (clock : Int) (ops : List DOp) (g : DOp)
    (hg : DGoodAny d) (hpl : DPlaced d) (hr : DRefines d m clock) (hdet : determined g = true)
    (hm : DMonotone clock (ops ++ [g])) :
    ∃ LLs : List (List (List Row)), FEvictedRun d.fan (ops.map (toOp (conf d))) LLs ∧
      ((d.run ops).step g).2 =
        (DjSpec.step (DjSpec.runLossy m (conf d) (dcfg d) ops (LLs.map fdrops)) (conf d) (dcfg d) g).2 := by
  obtain ⟨hm1, hm2⟩ := (djlz_dmonotone_append clock ops [g]).1 hm
  obtain ⟨LLs, h0, -, h2, h3, hp3, h4, h5⟩ := djrun_refines_lossy_strong d m clock ops hg hpl hr hm1
  refine ⟨LLs, h0, ?_⟩
  have := djlz_step_out (d.run ops) _ _ g h3 hp3 h2 hdet ((djlz_dmonotone_cons _ g []).1 hm2).1
  rw [h4, h5] at this
  exact this

/-! ### the contract clauses for a cache that may evict -/

/-- `get` on a dictionary that does not bind the key returns the default -/
theorem djlz_get_none (m : Spec.Dict) (C : Conf) (cfg : Cfg) (E : Externals) (now : Int) (k : Str)
    (ver : Option Int) (h : m.get (keyOf E cfg (key C k ver)) = none) :
    (DjSpec.step m C cfg (.get E now k ver)).2 = .default := by
  show (Spec.get m E cfg now (key C k ver) false false false).2 = _
  unfold Spec.get
  rw [h]
  rfl

/-- **calls that do not write to `(key, version)` do not change what `get(key, version)` returns,
unless they evict the item**: after reads of any key and set / add / touch / delete / pop / incr /
decr of other keys or of the same key under other versions, `get(key, version)` returns what it
returned before — or the default, the key being in the drop list of one of those calls (an
eviction on the shard of the key, `Fanout.FEvicted`).  Never another value. -/
theorem get_unaffected_lossy (d : Django) (m : Spec.Dict) (clock : Int) (ops ops' : List DOp)
    (E : Externals) (now : Int) (k : Str) (ver : Option Int)
    (hg : DGoodAny d) (hpl : DPlaced d) (hr : DRefines d m clock)
    (hd : (dcfg d).disk = .pickle) -- added: default Disk, see C19_Refine
    (hm : DMonotone clock (ops ++ ops' ++ [.get E now k ver]))
    (hw : ∀ op ∈ ops', writesTo (conf d) k (ver.getD (conf d).version) op = false) :
    ∃ LLs : List (List (List Row)), FEvictedRun (d.run ops).fan (ops'.map (toOp (conf d))) LLs ∧
      (((d.run (ops ++ ops')).step (.get E now k ver)).2 = ((d.run ops).step (.get E now k ver)).2 ∨
       (((d.run (ops ++ ops')).step (.get E now k ver)).2 = .default ∧
        ∃ LL ∈ LLs, (fdrops LL).any
          (fun l => sameKey l (keyOf E (dcfg d) (key (conf d) k ver))) = true)) := by
  rw [List.append_assoc] at hm
  obtain ⟨hm1, hm2⟩ := (djlz_dmonotone_append clock ops _).1 hm
  obtain ⟨hm3, hm4⟩ := (djlz_dmonotone_append _ ops' _).1 hm2
  obtain ⟨-, h2, h3, hp3, h4, h5⟩ := (djrun_refines_lossy_strong d m clock ops hg hpl hr hm1).choose_spec.2
  generalize DjSpec.runLossy m (conf d) (dcfg d) ops _ = m1 at h2
  have hnow : dlastClock clock ops ≤ now :=
    Int.le_trans (djlz_dmonotone_le hm3) (((djlz_dmonotone_cons _ _ []).1 hm4).1 now rfl)
  have hbefore := djlz_step_out (d.run ops) m1 _ (.get E now k ver) h3 hp3 h2 rfl
    (fun n hn => by cases hn; exact hnow)
  obtain ⟨LLs, hE, hafter⟩ := call_after_history_lossy (d.run ops) m1 _ ops' (.get E now k ver)
    h3 hp3 h2 rfl hm2
  rw [h4, h5] at hbefore hafter
  rw [h5] at hE
  rw [djrf_run_append]
  refine ⟨LLs, hE, ?_⟩
  rw [hbefore, hafter]
  rcases djlz_runLossy_frame m1 (conf d) (dcfg d) hd ops' (LLs.map fdrops) E k ver hw with h | ⟨h, D, hD, hany⟩
  · exact .inl (djrf_get_out _ _ _ _ _ _ _ _ h)
  · refine .inr ⟨djlz_get_none _ _ _ _ _ _ _ h, ?_⟩
    obtain ⟨LL, hLL, rfl⟩ := List.mem_map.1 (List.mem_of_mem_take hD)
    exact ⟨LL, hLL, hany⟩

/-- **different versions never see each other's values — but they can evict each other's items**:
whatever is done under the version `v'` (to whatever keys) does not change the value `get` under
another version returns; at most the item is evicted (a write under `v'` found the shard at its
limit) and `get` returns the default.  `version_evicts_other_version` shows that this happens. -/
theorem versions_isolated_lossy (d : Django) (m : Spec.Dict) (clock : Int) (ops ops' : List DOp)
    (E : Externals) (now : Int) (k : Str) (ver : Option Int) (v' : Int)
    (hg : DGoodAny d) (hpl : DPlaced d) (hr : DRefines d m clock)
    (hd : (dcfg d).disk = .pickle) -- added: default Disk, see C19_Refine
    (hm : DMonotone clock (ops ++ ops' ++ [.get E now k ver]))
    (hv : ∀ op ∈ ops', versionOf (conf d) op = some v')
    (hne : v' ≠ ver.getD (conf d).version) :
    ∃ LLs : List (List (List Row)), FEvictedRun (d.run ops).fan (ops'.map (toOp (conf d))) LLs ∧
      (((d.run (ops ++ ops')).step (.get E now k ver)).2 = ((d.run ops).step (.get E now k ver)).2 ∨
       (((d.run (ops ++ ops')).step (.get E now k ver)).2 = .default ∧
        ∃ LL ∈ LLs, (fdrops LL).any
          (fun l => sameKey l (keyOf E (dcfg d) (key (conf d) k ver))) = true)) := by
  refine get_unaffected_lossy d m clock ops ops' E now k ver hg hpl hr hd hm (fun op hop => ?_)
  have h := hv op hop
  unfold versionOf at h
  unfold writesTo
  cases ha : addr op with
  | none => rw [ha] at h; cases h
  | some p =>
    rw [ha] at h
    simp only [Option.map_some, Option.some.injEq] at h
    have : (p.2.getD (conf d).version == ver.getD (conf d).version) = false := by
      rw [h]; simpa using hne
    simp [this]

/-- the state of the specification after a successful `set` and calls that do not write to the
key: the entry `set` stored, or nothing — the key then being in one of the drop lists -/
theorem djlz_after_set (m1 : Spec.Dict) (C : Conf) (cfg : Cfg) (hd : cfg.disk = .pickle)
    (ops' : List DOp) (drops : List (List Spec.Key)) (E E' : Externals) (now : Int) (k : Str)
    (v : PyVal) (t : Timeout) (ver ver' : Option Int) (tag : SqlVal)
    (hver : ver'.getD C.version = ver.getD C.version)
    (hset : (DjSpec.step m1 C cfg (.set E now k v t ver tag)).2 = .bool true)
    (hw : ∀ op ∈ ops', writesTo C k (ver.getD C.version) op = false) :
    ∃ p, place E cfg.disk cfg.minFileSize v false = .ok p ∧
      ((DjSpec.runLossy m1 C cfg (.set E now k v t ver tag :: ops') drops).get
          (keyOf E' cfg (key C k ver')) = some (entryOf p ((ttl C t).map (now + ·)) tag) ∨
       ((DjSpec.runLossy m1 C cfg (.set E now k v t ver tag :: ops') drops).get
          (keyOf E' cfg (key C k ver')) = none ∧
        ∃ D ∈ drops, D.any (fun l => sameKey l (keyOf E' cfg (key C k ver'))) = true)) := by
  obtain ⟨p, hp, hget⟩ := djrf_set_true _ _ _ _ _ _ _ _ _ _ hset
  refine ⟨p, hp, ?_⟩
  have hk : key C k ver' = key C k ver := djrf_key_congr _ k _ _ hver
  rw [hk, djrf_keyOf_indep _ _ hd E' E]
  have hstep : DjSpec.runLossy m1 C cfg (.set E now k v t ver tag :: ops') drops =
      DjSpec.runLossy (dropKeys (DjSpec.step m1 C cfg (.set E now k v t ver tag)).1 (drops.headD []))
        C cfg ops' drops.tail := rfl
  rw [hstep]
  have hmem0 : ∀ D, D = drops.headD [] → D ≠ [] → D ∈ drops := by
    intro D h1 h2
    cases drops with
    | nil => exact absurd h1 h2
    | cons d ds => rw [h1]; exact List.mem_cons_self
  have hmem1 : ∀ D, D ∈ drops.tail.take ops'.length → D ∈ drops :=
    fun D h => List.mem_of_mem_tail (List.mem_of_mem_take h)
  rcases djlz_runLossy_frame _ C cfg hd ops' drops.tail E k ver hw with h | ⟨h, D, hD, hany⟩
  · rw [h, rf_get_dropKeys, hget]
    cases ha : (drops.headD []).any (fun l => sameKey l (keyOf E cfg (key C k ver))) with
    | false => exact .inl rfl
    | true =>
      refine .inr ⟨rfl, _, hmem0 _ rfl ?_, ha⟩
      intro h0
      rw [h0] at ha
      cases ha
  · exact .inr ⟨h, D, hmem1 D hD, hany⟩

/-- the common part of the two clauses about `set`: the state before the `set`, the evicted rows
of the `set` and the calls after it, and what the final `get` returns in terms of the
specification -/
theorem djlz_set_then_get (d : Django) (m : Spec.Dict) (clock : Int) (ops ops' : List DOp)
    (E E' : Externals) (now now' : Int) (k : Str) (v : PyVal) (t : Timeout) (ver ver' : Option Int)
    (tag : SqlVal)
    (hg : DGoodAny d) (hpl : DPlaced d) (hr : DRefines d m clock)
    (hm : DMonotone clock (ops ++ [.set E now k v t ver tag] ++ ops' ++ [.get E' now' k ver']))
    (hset : ((d.run ops).step (.set E now k v t ver tag)).2 = .bool true) :
    now ≤ now' ∧
    ∃ (m1 : Spec.Dict) (LLs : List (List (List Row))),
      FEvictedRun (d.run ops).fan ((.set E now k v t ver tag :: ops').map (toOp (conf d))) LLs ∧
      (DjSpec.step m1 (conf d) (dcfg d) (.set E now k v t ver tag)).2 = .bool true ∧
      ((d.run (ops ++ [.set E now k v t ver tag] ++ ops')).step (.get E' now' k ver')).2 =
        (DjSpec.step (DjSpec.runLossy m1 (conf d) (dcfg d) (.set E now k v t ver tag :: ops')
          (LLs.map fdrops)) (conf d) (dcfg d) (.get E' now' k ver')).2 := by
  rw [List.append_assoc, List.append_assoc] at hm
  obtain ⟨hm1, hm2⟩ := (djlz_dmonotone_append clock ops _).1 hm
  have hm2' : DMonotone (dlastClock clock ops) ((.set E now k v t ver tag :: ops') ++ [.get E' now' k ver']) := hm2
  obtain ⟨hm3, hm4⟩ := (djlz_dmonotone_append _ (.set E now k v t ver tag :: ops') _).1 hm2'
  obtain ⟨hs1, hs2⟩ := (djlz_dmonotone_cons _ _ _).1 hm3
  have hnow : now ≤ now' := by
    have h1 := djlz_dmonotone_le hs2
    have h2 := ((djlz_dmonotone_cons _ _ []).1 hm4).1 now' rfl
    exact Int.le_trans h1 h2
  refine ⟨hnow, ?_⟩
  obtain ⟨-, h2, h3, hp3, h4, h5⟩ := (djrun_refines_lossy_strong d m clock ops hg hpl hr hm1).choose_spec.2
  generalize DjSpec.runLossy m (conf d) (dcfg d) ops _ = m1 at h2
  have hsetS := djlz_step_out (d.run ops) m1 _ (.set E now k v t ver tag) h3 hp3 h2 rfl hs1
  obtain ⟨LLs, hE, hafter⟩ := call_after_history_lossy (d.run ops) m1 _
    (.set E now k v t ver tag :: ops') (.get E' now' k ver') h3 hp3 h2 rfl hm2'
  rw [h4, h5] at hsetS hafter
  rw [h5] at hE
  refine ⟨m1, LLs, hE, by rw [← hsetS]; exact hset, ?_⟩
  rw [List.append_assoc, djrf_run_append]
  exact hafter

/-- **a value set with timeout None is returned by every later get — unless it was evicted**: if
`set(key, value, timeout=None, version)` returned True, then after any calls that do not write to
`(key, version)`, `get(key, version)` — at any later time — returns the stored value read back
(`Entry.out` of the entry `set` stored), or it returns the default and the key is in the drop list
of the `set` itself (`Cache.set_evicts_itself_lrs_tie`) or of one of the calls after it: the item
was evicted on its shard.  Never a stale or foreign value. -/
theorem forever_returned_lossy (d : Django) (m : Spec.Dict) (clock : Int) (ops ops' : List DOp)
    (E E' : Externals) (now now' : Int) (k : Str) (v : PyVal) (ver ver' : Option Int) (tag : SqlVal)
    (hg : DGoodAny d) (hpl : DPlaced d) (hr : DRefines d m clock)
    (hd : (dcfg d).disk = .pickle) -- added: default Disk, see C19_Refine
    (hm : DMonotone clock (ops ++ [.set E now k v .forever ver tag] ++ ops' ++ [.get E' now' k ver']))
    (hver : ver'.getD (conf d).version = ver.getD (conf d).version)
    (hset : ((d.run ops).step (.set E now k v .forever ver tag)).2 = .bool true)
    (hw : ∀ op ∈ ops', writesTo (conf d) k (ver.getD (conf d).version) op = false) :
    ∃ LLs : List (List (List Row)),
      FEvictedRun (d.run ops).fan ((.set E now k v .forever ver tag :: ops').map (toOp (conf d))) LLs ∧
      ∃ p, place E (dcfg d).disk (dcfg d).minFileSize v false = .ok p ∧
        (((d.run (ops ++ [.set E now k v .forever ver tag] ++ ops')).step (.get E' now' k ver')).2 =
            (entryOf p none tag).out E' (dcfg d) false false false ∨
         (((d.run (ops ++ [.set E now k v .forever ver tag] ++ ops')).step (.get E' now' k ver')).2 =
            .default ∧
          ∃ LL ∈ LLs, (fdrops LL).any
            (fun l => sameKey l (keyOf E' (dcfg d) (key (conf d) k ver'))) = true)) := by
  obtain ⟨-, m1, LLs, hE, hsetS, hafter⟩ := djlz_set_then_get d m clock ops ops' E E' now now' k v
    .forever ver ver' tag hg hpl hr hm hset
  obtain ⟨p, hp, hst⟩ := djlz_after_set m1 (conf d) (dcfg d) hd ops' (LLs.map fdrops) E E' now k v
    .forever ver ver' tag hver hsetS hw
  refine ⟨LLs, hE, p, hp, ?_⟩
  rw [hafter]
  rcases hst with h | ⟨h, D, hD, hany⟩
  · left
    show (Spec.get _ E' (dcfg d) now' (key (conf d) k ver') false false false).2 = _
    unfold Spec.get
    rw [h]
    cases p <;> rfl
  · refine .inr ⟨djlz_get_none _ _ _ _ _ _ _ h, ?_⟩
    obtain ⟨LL, hLL, rfl⟩ := List.mem_map.1 hD
    exact ⟨LL, hLL, hany⟩

/-- … and with a lawful codec the later `get` returns the value itself, or the default after an
eviction -/
theorem forever_returns_value_lossy (d : Django) (m : Spec.Dict) (clock : Int) (ops ops' : List DOp)
    (E : Externals) (hE : Lawful E) (now now' : Int) (k : Str) (v : PyVal) (ver ver' : Option Int)
    (tag : SqlVal)
    (hg : DGoodAny d) (hpl : DPlaced d) (hr : DRefines d m clock)
    (hd : (dcfg d).disk = .pickle) -- added: default Disk, see C19_Refine
    (hm : DMonotone clock (ops ++ [.set E now k v .forever ver tag] ++ ops' ++ [.get E now' k ver']))
    (hver : ver'.getD (conf d).version = ver.getD (conf d).version)
    (hset : ((d.run ops).step (.set E now k v .forever ver tag)).2 = .bool true)
    (hw : ∀ op ∈ ops', writesTo (conf d) k (ver.getD (conf d).version) op = false) :
    ∃ LLs : List (List (List Row)),
      FEvictedRun (d.run ops).fan ((.set E now k v .forever ver tag :: ops').map (toOp (conf d))) LLs ∧
      (((d.run (ops ++ [.set E now k v .forever ver tag] ++ ops')).step (.get E now' k ver')).2 = .val v ∨
       (((d.run (ops ++ [.set E now k v .forever ver tag] ++ ops')).step (.get E now' k ver')).2 =
          .default ∧
        ∃ LL ∈ LLs, (fdrops LL).any
          (fun l => sameKey l (keyOf E (dcfg d) (key (conf d) k ver'))) = true)) := by
  obtain ⟨LLs, h0, p, hp, h⟩ := forever_returned_lossy d m clock ops ops' E E now now' k v ver ver' tag
    hg hpl hr hd hm hver hset hw
  refine ⟨LLs, h0, ?_⟩
  rcases h with h | h
  · left; rw [h]; exact djrf_out_value E hE _ hd v p none tag hp
  · exact .inr h

/-- **a value set with a timeout ≤ 0 is never returned** — whatever is evicted: if
`set(key, value, timeout=t, version)` with `t ≤ 0` returned True, then after any calls that do not
write to `(key, version)`, `get(key, version)` returns the default -/
theorem nonpositive_never_returned_lossy (d : Django) (m : Spec.Dict) (clock : Int)
    (ops ops' : List DOp) (E E' : Externals) (now now' : Int) (k : Str) (v : PyVal) (t : Int)
    (ver ver' : Option Int) (tag : SqlVal) (ht : t ≤ 0)
    (hg : DGoodAny d) (hpl : DPlaced d) (hr : DRefines d m clock)
    (hd : (dcfg d).disk = .pickle) -- added: default Disk, see C19_Refine
    (hm : DMonotone clock (ops ++ [.set E now k v (.secs t) ver tag] ++ ops' ++ [.get E' now' k ver']))
    (hver : ver'.getD (conf d).version = ver.getD (conf d).version)
    (hset : ((d.run ops).step (.set E now k v (.secs t) ver tag)).2 = .bool true)
    (hw : ∀ op ∈ ops', writesTo (conf d) k (ver.getD (conf d).version) op = false) :
    ((d.run (ops ++ [.set E now k v (.secs t) ver tag] ++ ops')).step (.get E' now' k ver')).2 =
      .default := by
  obtain ⟨hnow, m1, LLs, -, hsetS, hafter⟩ := djlz_set_then_get d m clock ops ops' E E' now now' k v
    (.secs t) ver ver' tag hg hpl hr hm hset
  obtain ⟨p, -, hst⟩ := djlz_after_set m1 (conf d) (dcfg d) hd ops' (LLs.map fdrops) E E' now k v
    (.secs t) ver ver' tag hver hsetS hw
  rw [hafter]
  rcases hst with h | ⟨h, -⟩
  · show (Spec.get _ E' (dcfg d) now' (key (conf d) k ver') false false false).2 = _
    unfold Spec.get
    rw [h]
    have hdead : (entryOf p ((ttl (conf d) (.secs t)).map (now + ·)) tag).live now' = false := by
      have : (entryOf p ((ttl (conf d) (.secs t)).map (now + ·)) tag).expT =
          some (now + (if t = 0 then -1 else t)) := by cases p <;> rfl
      unfold Entry.live
      rw [this]
      simp only [gt_iff_lt, decide_eq_false_iff_not, Int.not_lt]
      split <;> omega
    simp only [hdead, Bool.false_eq_true, if_false]
    rfl
  · exact djlz_get_none _ _ _ _ _ _ _ h

/-! ### non-vacuity: a DjangoCache that evicts -/

/-- KEY_PREFIX "p", VERSION 1, two shards, least-recently-stored, total size limit 100 bytes (50
per shard), `cull_limit = 1`; the two writes observe the database file of their shard at 30 and
at 60 bytes -/
def exDjL : Django :=
  { fan := { Fanout.init 2 cfgL false with env := [30, 60] }, keyPrefix := [112] }

/-- `a` under version 1 and `b` under version 2 live on the same shard -/
example : [key (conf exDjL) [97] none, key (conf exDjL) [98] (some 2)].map
    (fun k => exDjL.fan.route toyV k) = [1, 1] := by decide +kernel

/-- `a` is stored for ever under version 1 and read; then `b` is stored under version 2 — the
shard is at its limit and evicts its least recently stored row, which is `a` of version 1 -/
def exDjLOps : List DOp :=
  [ .set toyV 1 [97] (.int 7) .forever none .null,
    .get toyV 2 [97] none,
    .set toyV 3 [98] (.int 8) .forever (some 2) .null,
    .get toyV 4 [97] none,
    .get toyV 4 [98] (some 2) ]

theorem exDjL_good : DGoodAny exDjL ∧ DPlaced exDjL ∧ DRefines exDjL [] 0 :=
  django_init_any 2 cfgL false _ _ _ _ (by decide) (by decide) 0

example : ∃ LLs : List (List (List Row)), FEvictedRun exDjL.fan (exDjLOps.map (toOp (conf exDjL))) LLs ∧
    outs exDjL exDjLOps = DjSpec.outsLossy [] (conf exDjL) (dcfg exDjL) exDjLOps (LLs.map fdrops) ∧
    ∃ clock', DRefines (exDjL.run exDjLOps)
      (DjSpec.runLossy [] (conf exDjL) (dcfg exDjL) exDjLOps (LLs.map fdrops)) clock' :=
  djrun_refines_lossy exDjL [] 0 exDjLOps exDjL_good.1 exDjL_good.2.1 exDjL_good.2.2 (by decide +kernel)

/-- **a write under one version can evict another version's item**: the value stored for ever
under version 1 is returned until `set('b', version=2)` evicts it; then `get` returns the
default — which is what the lossy specification returns when the key `p:1:a` is dropped after
the third call, and not what the specification without drops returns.  Eviction is by shard and
store time; versions (and timeouts: the item was to live for ever) play no role. -/
theorem version_evicts_other_version :
    outs exDjL exDjLOps = [.bool true, .val (.int 7), .bool true, .default, .val (.int 8)] ∧
    DjSpec.outsLossy [] (conf exDjL) (dcfg exDjL) exDjLOps
        [[], [], [(.text [112, 58, 49, 58, 97], true)], [], []] =
      [.bool true, .val (.int 7), .bool true, .default, .val (.int 8)] ∧
    DjSpec.outs [] (conf exDjL) (dcfg exDjL) exDjLOps =
      [.bool true, .val (.int 7), .bool true, .val (.int 7), .val (.int 8)] :=
  ⟨by rfl, by rfl, by rfl⟩

/-- `forever_returned_lossy` on that history (second alternative: evicted) -/
example : ∃ LLs : List (List (List Row)),
    FEvictedRun (exDjL.run []).fan
      ((.set toyV 1 [97] (.int 7) .forever none .null :: exDjLOps.tail.take 2).map (toOp (conf exDjL))) LLs ∧
    ∃ p, place toyV (dcfg exDjL).disk (dcfg exDjL).minFileSize (.int 7) false = .ok p ∧
      (((exDjL.run ([] ++ [.set toyV 1 [97] (.int 7) .forever none .null] ++ exDjLOps.tail.take 2)).step
          (.get toyV 4 [97] none)).2 = (entryOf p none .null).out toyV (dcfg exDjL) false false false ∨
       (((exDjL.run ([] ++ [.set toyV 1 [97] (.int 7) .forever none .null] ++ exDjLOps.tail.take 2)).step
          (.get toyV 4 [97] none)).2 = .default ∧
        ∃ LL ∈ LLs, (fdrops LL).any
          (fun l => sameKey l (keyOf toyV (dcfg exDjL) (key (conf exDjL) [97] none))) = true)) :=
  forever_returned_lossy exDjL [] 0 [] (exDjLOps.tail.take 2) toyV toyV 1 4 [97] (.int 7) none none .null
    exDjL_good.1 exDjL_good.2.1 exDjL_good.2.2 rfl (by decide +kernel) rfl (by rfl) (by decide +kernel)

end DC.Django
