/-
C03 (bulk removal and iteration reach every row): the paging loops of
`clear`, `evict`, `__iter__`, `__reversed__` are exact for EVERY table size and
EVERY page size ≥ 1 — not only for the 100-row page the tests cross once.
-/
import DC.Proofs.Paging

namespace DC.Cache

/-- all facts about `clear` from the generic loop -/
private theorem clear_spec (s : Cache) :
    (s.clear).1 = (pageLoop (fun _ => true) "pageRowid" (s.rows.length + 1) s 0 0).1 ∧
    (s.clear).2 = .int ((pageLoop (fun _ => true) "pageRowid" (s.rows.length + 1) s 0 0).2 : Nat) := by
  unfold clear
  rw [clearLoop_eq]
  exact ⟨rfl, rfl⟩

private theorem filter_const_true (l : List Row) : l.filter (fun _ => true) = l := by
  rw [List.filter_eq_self]; intro _ _; rfl

private theorem filter_const_false (l : List Row) : l.filter (fun _ => !true) = [] := by
  rw [List.filter_eq_nil_iff]; intro _ _; simp

/-- `clear()` empties the table and returns the number of rows, whatever the
table size and page size. -/
theorem clear_all (s : Cache) (hasc : RowidsAsc s.rows) (hpos : ∀ r ∈ s.rows, 0 < r.rowid)
    (hp : 0 < s.cfg.page) :
    (s.clear).1.rows = [] ∧ (s.clear).2 = .int s.rows.length := by
  obtain ⟨e1, e2⟩ := clear_spec s
  have h := pageLoop_spec (fun _ => true) "pageRowid" (s.rows.length + 1) s 0 0 hasc
    (fun r hr _ => hpos r hr) hp (by rw [filter_const_true]; omega)
  rw [e1, e2, h.1, h.2.1, filter_const_true, filter_const_false]
  simp

/-- `clear()` keeps the counters exact. -/
theorem clear_counters (s : Cache) (hasc : RowidsAsc s.rows) (hpos : ∀ r ∈ s.rows, 0 < r.rowid)
    (hp : 0 < s.cfg.page) :
    (s.clear).1.count = s.count - s.rows.length ∧ (s.clear).1.size = s.size - sumSizes s.rows := by
  obtain ⟨e1, _⟩ := clear_spec s
  have h := pageLoop_spec (fun _ => true) "pageRowid" (s.rows.length + 1) s 0 0 hasc
    (fun r hr _ => hpos r hr) hp (by rw [filter_const_true]; omega)
  rw [e1, h.2.2.1, h.2.2.2.1, filter_const_true]
  exact ⟨rfl, rfl⟩

/-- outside a transaction block `clear()` removes every file a row referred to -/
theorem clear_files (s : Cache) (hasc : RowidsAsc s.rows) (hpos : ∀ r ∈ s.rows, 0 < r.rowid)
    (hp : 0 < s.cfg.page) (hd : s.depth = 0) :
    ∀ r ∈ s.rows, ∀ f, r.file = some f → (s.clear).1.fileGet f = none := by
  intro r hr f hf
  obtain ⟨e1, _⟩ := clear_spec s
  rw [e1]
  exact pageLoop_files (fun _ => true) "pageRowid" f (s.rows.length + 1) s 0 0 hasc
    (fun r hr _ => hpos r hr) hp (by rw [filter_const_true]; omega) hd
    (Or.inl ⟨r, hr, rfl, hf⟩)

/-- `evict(tag)` removes exactly the rows carrying the tag and returns their number. -/
theorem evict_exact (s : Cache) (tag : SqlVal) (hasc : RowidsAsc s.rows)
    (hpos : ∀ r ∈ s.rows, 0 < r.rowid) (hp : 0 < s.cfg.page) :
    (s.evict tag).1.rows = s.rows.filter (fun r => !(r.tag.eqv tag)) ∧
    (s.evict tag).2 = .int (s.rows.filter (fun r => r.tag.eqv tag)).length := by
  have hlen : (s.rows.filter (fun r => r.tag.eqv tag)).length ≤ s.rows.length :=
    List.length_filter_le _ _
  have h := pageLoop_spec (fun r => r.tag.eqv tag) "pageTag" (s.rows.length + 1) s 0 0 hasc
    (fun r hr _ => hpos r hr) hp (by omega)
  unfold evict
  rw [evictLoop_eq]
  refine ⟨h.1, ?_⟩
  show Out.int ((pageLoop (fun r => r.tag.eqv tag) "pageTag" (s.rows.length + 1) s 0 0).2 : Nat) = _
  rw [h.2.1]
  simp

/-- `evict(None)` removes nothing: SQL `tag = NULL` is never true. -/
theorem evict_null (s : Cache) (hasc : RowidsAsc s.rows) (hpos : ∀ r ∈ s.rows, 0 < r.rowid)
    (hp : 0 < s.cfg.page) : (s.evict .null).1.rows = s.rows := by
  rw [(evict_exact s .null hasc hpos hp).1, List.filter_eq_self]
  intro r _
  have : r.tag.eqv .null = false := by
    cases r.tag <;> rfl
  simp [this]

/-- `__iter__` yields every key exactly once, in insertion (rowid) order. -/
theorem iter_all (s : Cache) (E : Externals) (hasc : RowidsAsc s.rows)
    (hpos : ∀ r ∈ s.rows, 0 < r.rowid) (hp : 0 < s.cfg.page) :
    (s.iter E true).2 = .list (s.rows.map (fun r => keyOut E s.cfg.disk r.key r.raw)) := by
  unfold iter
  by_cases he : s.rows.isEmpty
  · have : s.rows = [] := List.isEmpty_iff.mp he
    simp [this]
  · simp only [logSql_rows, he, Bool.false_eq_true, if_false, if_true]
    have hk := iterLoop_keep true (maxRowid s.rows + 1) (s.rows.length + 1) (s.logSql "maxRowid") 0 []
    have hb : ∀ r ∈ (s.logSql "maxRowid").rows, r.rowid < maxRowid s.rows + 1 := by
      intro r hr
      have := le_maxRowid s.rows r hr
      omega
    have hfull : s.rows.filter (fun r => decide (0 < r.rowid)) = s.rows := by
      rw [List.filter_eq_self]; intro r hr; simpa using hpos r hr
    have h := iterLoop_asc (maxRowid s.rows + 1) (s.rows.length + 1) (s.logSql "maxRowid") 0 []
      hasc hb hp (by rw [logSql_rows, hfull]; omega)
    rw [logSql_rows, hfull, List.nil_append] at h
    show Out.list (List.map (fun r => keyOut E
      (iterLoop true (maxRowid s.rows + 1) (s.rows.length + 1) (s.logSql "maxRowid") 0 []).1.cfg.disk
        r.key r.raw)
      (iterLoop true (maxRowid s.rows + 1) (s.rows.length + 1) (s.logSql "maxRowid") 0 []).2) = _
    rw [h, hk.2.2]
    rfl

/-- `__reversed__` yields every key exactly once, in reverse insertion order. -/
theorem riter_all (s : Cache) (E : Externals) (hasc : RowidsAsc s.rows)
    (hpos : ∀ r ∈ s.rows, 0 < r.rowid) (hp : 0 < s.cfg.page) :
    (s.iter E false).2 = .list (s.rows.reverse.map (fun r => keyOut E s.cfg.disk r.key r.raw)) := by
  unfold iter
  by_cases he : s.rows.isEmpty
  · have : s.rows = [] := List.isEmpty_iff.mp he
    simp [this]
  · simp only [logSql_rows, he, Bool.false_eq_true, if_false]
    have hk := iterLoop_keep false (maxRowid s.rows + 1) (s.rows.length + 1) (s.logSql "maxRowid")
      (maxRowid s.rows + 1) []
    have hfull : s.rows.filter (fun r => decide (r.rowid < maxRowid s.rows + 1)) = s.rows := by
      rw [List.filter_eq_self]; intro r hr
      have := le_maxRowid s.rows r hr
      simp; omega
    have h := iterLoop_desc (maxRowid s.rows + 1) (s.rows.length + 1) (s.logSql "maxRowid")
      (maxRowid s.rows + 1) [] hasc hpos hp (by rw [logSql_rows, hfull]; omega)
    rw [logSql_rows, hfull, List.nil_append] at h
    show Out.list (List.map (fun r => keyOut E
      (iterLoop false (maxRowid s.rows + 1) (s.rows.length + 1) (s.logSql "maxRowid")
        (maxRowid s.rows + 1) []).1.cfg.disk r.key r.raw)
      (iterLoop false (maxRowid s.rows + 1) (s.rows.length + 1) (s.logSql "maxRowid")
        (maxRowid s.rows + 1) []).2) = _
    rw [h, hk.2.2]
    rfl

/-- iteration does not change the table -/
theorem iter_pure (s : Cache) (E : Externals) (asc : Bool) :
    (s.iter E asc).1.rows = s.rows ∧ (s.iter E asc).1.files = s.files := by
  unfold iter
  by_cases he : s.rows.isEmpty
  · simp [he]
  · simp only [logSql_rows, he, Bool.false_eq_true, if_false]
    have hk := iterLoop_keep asc (maxRowid s.rows + 1) (s.rows.length + 1) (s.logSql "maxRowid")
      (if asc then 0 else maxRowid s.rows + 1) []
    exact ⟨hk.1, hk.2.1⟩

/-- a plain row used by the non-vacuity examples -/
def exRow (i : Nat) : Row :=
  { rowid := i, key := .int i, raw := true, storeT := 0, expT := none, accT := 0, accN := 0,
    tag := .null, size := 0, mode := 1, file := none, val := .int 0 }

def exTable : Cache := { rows := [exRow 1, exRow 2, exRow 5], count := 3, cfg := { page := 2 } }

/-- non-vacuity: a three-row table with page size 2 satisfies the hypotheses and is
paged in two rounds -/
example : RowidsAsc exTable.rows ∧ (∀ x ∈ exTable.rows, 0 < x.rowid) ∧ 0 < exTable.cfg.page ∧
    (exTable.clear).1.rows = [] := by
  unfold RowidsAsc; decide

end DC.Cache
