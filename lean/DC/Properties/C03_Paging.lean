/-
C03 (bulk removal and iteration reach every row): the paging loops of
`clear`, `evict`, `__iter__`, `__reversed__` are exact for EVERY table size and
EVERY page size ≥ 1 — not only for the 100-row page the tests cross once.
-/
import DC.Proofs.Paging

namespace DC.Cache

/-- `clear()` empties the table and returns the number of rows, whatever the
table size and page size. -/
theorem clear_all (s : Cache) (hasc : RowidsAsc s.rows) (hpos : ∀ r ∈ s.rows, 0 < r.rowid)
    (hp : 0 < s.cfg.page) :
    (s.clear).1.rows = [] ∧ (s.clear).2 = .int s.rows.length := by
  sorry

/-- `clear()` keeps the counters exact. -/
theorem clear_counters (s : Cache) (hasc : RowidsAsc s.rows) (hpos : ∀ r ∈ s.rows, 0 < r.rowid)
    (hp : 0 < s.cfg.page) :
    (s.clear).1.count = s.count - s.rows.length ∧ (s.clear).1.size = s.size - sumSizes s.rows := by
  sorry

/-- outside a transaction block `clear()` removes every file a row referred to -/
theorem clear_files (s : Cache) (hasc : RowidsAsc s.rows) (hpos : ∀ r ∈ s.rows, 0 < r.rowid)
    (hp : 0 < s.cfg.page) (hd : s.depth = 0) :
    ∀ r ∈ s.rows, ∀ f, r.file = some f → (s.clear).1.fileGet f = none := by
  sorry

/-- `evict(tag)` removes exactly the rows carrying the tag and returns their number. -/
theorem evict_exact (s : Cache) (tag : SqlVal) (hasc : RowidsAsc s.rows)
    (hpos : ∀ r ∈ s.rows, 0 < r.rowid) (hp : 0 < s.cfg.page) :
    (s.evict tag).1.rows = s.rows.filter (fun r => !(r.tag.eqv tag)) ∧
    (s.evict tag).2 = .int (s.rows.filter (fun r => r.tag.eqv tag)).length := by
  sorry

/-- `evict(None)` removes nothing: SQL `tag = NULL` is never true. -/
theorem evict_null (s : Cache) (hasc : RowidsAsc s.rows) (hpos : ∀ r ∈ s.rows, 0 < r.rowid)
    (hp : 0 < s.cfg.page) : (s.evict .null).1.rows = s.rows := by
  sorry

/-- `__iter__` yields every key exactly once, in insertion (rowid) order. -/
theorem iter_all (s : Cache) (E : Externals) (hasc : RowidsAsc s.rows)
    (hpos : ∀ r ∈ s.rows, 0 < r.rowid) (hp : 0 < s.cfg.page) :
    (s.iter E true).2 = .list (s.rows.map (fun r => keyOut E s.cfg.disk r.key r.raw)) := by
  sorry

/-- `__reversed__` yields every key exactly once, in reverse insertion order. -/
theorem riter_all (s : Cache) (E : Externals) (hasc : RowidsAsc s.rows)
    (hpos : ∀ r ∈ s.rows, 0 < r.rowid) (hp : 0 < s.cfg.page) :
    (s.iter E false).2 = .list (s.rows.reverse.map (fun r => keyOut E s.cfg.disk r.key r.raw)) := by
  sorry

/-- iteration does not change the table -/
theorem iter_pure (s : Cache) (E : Externals) (asc : Bool) :
    (s.iter E asc).1.rows = s.rows ∧ (s.iter E asc).1.files = s.files := by
  sorry

/-- a plain row used by the non-vacuity examples -/
def exRow (i : Nat) : Row :=
  { rowid := i, key := .int i, raw := true, storeT := 0, expT := none, accT := 0, accN := 0,
    tag := .null, size := 0, mode := 1, file := none, val := .int 0 }

def exTable : Cache := { rows := [exRow 1, exRow 2, exRow 5], count := 3, cfg := { page := 2 } }

/-- non-vacuity: a three-row table with page size 2 satisfies the hypotheses and is
paged in two rounds -/
example : RowidsAsc exTable.rows ∧ (∀ x ∈ exTable.rows, 0 < x.rowid) ∧ 0 < exTable.cfg.page ∧
    (exTable.clear).1.rows = [] := by
  unfold RowidsAsc; decide

end DC.Cache
