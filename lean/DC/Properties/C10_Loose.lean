/-
C10 — the regime `cull_limit > 0` with expiry times on pushed items (outside
`qrun_refines`, see `qrun_needs_quiet`): what still holds, as far as it is proved.

In that regime the lazy cull of ANY write (`_cull`: up to `cull_limit` expired rows, ordered by
expiry time, ties by rowid) may remove expired queue rows, and the key the next `push` hands out
(`last physical key + 1`) depends on which ones it removed: a key can be handed out twice, so the
cache does not refine `QSpec` there.  What does hold:

 (1) `cull_keeps_live_queue` (proved, every table, every clock, every `cull_limit`): without
     size-based eviction the lazy cull removes only EXPIRED rows from every queue and keeps the
     order of the others — no live item is lost or reordered by it.  With C08/C03_Inv (`KeysUnique`:
     a key is stored at most once) and `pull_front` / `pull_back` (C10.lean: a pull deletes the row
     it returns) no item is returned twice.
 (2) `pull_insensitive`, `peek_insensitive` (proved, pure `QSpec`): the result of `pull` / `peek`
     and the live content they leave do not depend on which expired items were already removed —
     if one queue is the other without some items expired at `now`, both calls return the same, and
     the queues afterwards are again related in that way.
 (3) The history-level statement these two are the ingredients of is proved in
     DC/Properties/C10_LooseRefine.lean (`qrun_loose`): the reference takes the number of each
     pushed item from the cache's answer (`QSpec.pushAt`), the states are related by "for every
     prefix the cache's queue is the reference's queue `Thinned`" (`QLoose`, the queue analogue of
     `Refines`), and for EVERY history of the covered calls under `policy = none` — any
     `cull_limit`, any ttl ≥ 0 — every call returns what that reference returns.
-/
import DC.Properties.C10_History

namespace DC.QSpec

/-! ### (2) `pull` / `peek` do not depend on which expired items are already gone -/

theorem filter_end_shape {α} (keep : α → Bool) {front : Bool} {l : List α} {a : α}
    (h : endOf front l = some a) :
    l.filter keep = if keep a then (if front then a :: (dropEnd front l).filter keep
        else (dropEnd front l).filter keep ++ [a]) else (dropEnd front l).filter keep := by
  have hs := end_shape h
  cases front with
  | true =>
    simp only [if_true] at hs ⊢
    conv => lhs; rw [hs]
    rw [List.filter_cons]
  | false =>
    simp only [Bool.false_eq_true, if_false] at hs ⊢
    conv => lhs; rw [hs]
    rw [List.filter_append]
    cases hk : keep a <;> simp [hk]

theorem endOf_cons_or_snoc {α} (front : Bool) (a : α) (t : List α) :
    endOf front (if front then a :: t else t ++ [a]) = some a ∧
    dropEnd front (if front then a :: t else t ++ [a]) = t := by
  unfold endOf dropEnd
  cases front <;> simp

/-- trimming commutes with the removal of items that are dead anyway -/
theorem trimBy_filter {α} (dead keep : α → Bool) (front : Bool) :
    ∀ (n : Nat) (l : List α), l.length = n → (∀ a ∈ l, keep a = false → dead a = true) →
      trimBy dead front (l.filter keep) = (trimBy dead front l).filter keep := by
  intro n
  induction n with
  | zero =>
    intro l hl _
    rw [List.length_eq_zero_iff.1 hl]
    simp [trimBy_nil]
  | succ n ih =>
    intro l hl hk
    cases he : endOf front l with
    | none => rw [endOf_none he]; simp [trimBy_nil]
    | some a =>
      have hlen := dropEnd_length he
      have hk' : ∀ b ∈ dropEnd front l, keep b = false → dead b = true :=
        fun b hb => hk b (dropEnd_sub front l b hb)
      have hrec := ih (dropEnd front l) (by omega) hk'
      rw [filter_end_shape keep he, trimBy_step dead he]
      cases hka : keep a with
      | false =>
        simp only [Bool.false_eq_true, if_false]
        rw [hk a (endOf_mem he) hka]
        simp only [if_true]
        exact hrec
      | true =>
        simp only [if_true]
        obtain ⟨e1, e2⟩ := endOf_cons_or_snoc front a ((dropEnd front l).filter keep)
        rw [trimBy_step dead e1, e2]
        cases hda : dead a with
        | true => simp only [if_true]; exact hrec
        | false =>
          simp only [Bool.false_eq_true, if_false]
          rw [filter_end_shape keep he, hka]
          rfl

/-- the end of a trimmed list survives the removal of dead items -/
theorem endOf_filter_live {α} (keep : α → Bool) {front : Bool} {l : List α} {a : α}
    (h : endOf front l = some a) (hka : keep a = true) :
    endOf front (l.filter keep) = some a ∧
    dropEnd front (l.filter keep) = (dropEnd front l).filter keep := by
  rw [filter_end_shape keep h, hka]
  simp only [if_true]
  exact endOf_cons_or_snoc front a _

/-- one queue is the other without some items that are expired at `now` -/
def Thinned (now : Int) (l' l : List Item) : Prop :=
  ∃ keep : Item → Bool, l' = l.filter keep ∧ ∀ it ∈ l, keep it = false → it.ent.expired now = true

theorem thinned_pull_core (now : Int) (front : Bool) {l' l : List Item} (h : Thinned now l' l) :
    endOf front (trim now front l') = endOf front (trim now front l) ∧
    Thinned now (trim now front l') (trim now front l) ∧
    Thinned now (dropEnd front (trim now front l')) (dropEnd front (trim now front l)) := by
  obtain ⟨keep, rfl, hk⟩ := h
  have ht : trim now front (l.filter keep) = (trim now front l).filter keep :=
    trimBy_filter _ keep front _ l rfl hk
  have hk' : ∀ it ∈ trim now front l, keep it = false → it.ent.expired now = true :=
    fun it hit => hk it (trimBy_sub _ _ _ it hit)
  rw [ht]
  cases he : endOf front (trim now front l) with
  | none =>
    rw [endOf_none he]
    have hd : dropEnd front ([] : List Item) = [] := by cases front <;> rfl
    simp only [List.filter_nil, hd]
    exact ⟨endOf_nil front, ⟨keep, rfl, (fun _ h => by cases h)⟩, ⟨keep, rfl, (fun _ h => by cases h)⟩⟩
  | some a =>
    have hlive : a.ent.expired now = false := trimBy_end_live _ front _ l rfl a he
    have hka : keep a = true := by
      cases h : keep a with
      | true => rfl
      | false => rw [hk' a (endOf_mem he) h] at hlive; cases hlive
    obtain ⟨e1, e2⟩ := endOf_filter_live keep he hka
    exact ⟨e1, ⟨keep, rfl, hk'⟩, ⟨keep, e2, fun it hit => hk' it (dropEnd_sub _ _ it hit)⟩⟩

/-- `pull` returns the same on a queue and on that queue thinned, and leaves them related -/
theorem pull_insensitive (q q' : State) (E : Externals) (cfg : Cfg) (now : Int) (p : Option Str)
    (front et tg : Bool) (h : Thinned now (q'.queues.get p) (q.queues.get p)) :
    (pull q' E cfg now p front et tg).2 = (pull q E cfg now p front et tg).2 ∧
    Thinned now ((pull q' E cfg now p front et tg).1.queues.get p) ((pull q E cfg now p front et tg).1.queues.get p) := by
  obtain ⟨h1, h2, h3⟩ := thinned_pull_core now front h
  unfold pull
  simp only [h1]
  cases endOf front (trim now front (q.queues.get p)) with
  | none =>
    refine ⟨rfl, ?_⟩
    show Thinned now ((q'.queues.put p _).get p) ((q.queues.put p _).get p)
    rw [get_put, get_put, if_pos rfl, if_pos rfl]; exact h2
  | some it =>
    refine ⟨rfl, ?_⟩
    show Thinned now ((q'.queues.put p _).get p) ((q.queues.put p _).get p)
    rw [get_put, get_put, if_pos rfl, if_pos rfl]; exact h3

/-- … and so does `peek` -/
theorem peek_insensitive (q q' : State) (E : Externals) (cfg : Cfg) (now : Int) (p : Option Str)
    (front et tg : Bool) (h : Thinned now (q'.queues.get p) (q.queues.get p)) :
    (peek q' E cfg now p front et tg).2 = (peek q E cfg now p front et tg).2 ∧
    Thinned now ((peek q' E cfg now p front et tg).1.queues.get p) ((peek q E cfg now p front et tg).1.queues.get p) := by
  obtain ⟨h1, h2, -⟩ := thinned_pull_core now front h
  unfold peek
  simp only [h1]
  cases endOf front (trim now front (q.queues.get p)) with
  | none =>
    refine ⟨rfl, ?_⟩
    show Thinned now ((q'.queues.put p _).get p) ((q.queues.put p _).get p)
    rw [get_put, get_put, if_pos rfl, if_pos rfl]; exact h2
  | some it =>
    refine ⟨rfl, ?_⟩
    show Thinned now ((q'.queues.put p _).get p) ((q.queues.put p _).get p)
    rw [get_put, get_put, if_pos rfl, if_pos rfl]; exact h2

end DC.QSpec

namespace DC.Cache
open DC.Spec DC.QSpec

/-! ### (1) the lazy cull keeps the live items of every queue, in order -/

/-- without size-based eviction, the lazy cull of a write (`_cull`, any `cull_limit`) leaves every
queue as it was minus rows that are expired at `now`: nothing live is lost, the order is kept -/
theorem cull_keeps_live_queue (t : Cache) (now : Int) (hi : TableInv t) (hp : t.cfg.policy = .none) :
    ∃ g : Row → Bool, (∀ x, g x = false → expired now x = true) ∧
      ∀ p, (t.cullW now).1.queueRows p = (t.queueRows p).filter g := by
  refine ⟨fun r => decide (r ∉ t.selExpired now t.cfg.cullLimit), ?_, ?_⟩
  · intro x hx
    simp only [decide_eq_false_iff_not, Decidable.not_not] at hx
    exact (selExpired_mem hx).2
  · intro p
    rw [queueRows_eq, qr_cullW_none t now hi.tbl.asc hp, qrows_filter hi.tbl.uniq hi.tbl.nonnull, queueRows_eq]

end DC.Cache
