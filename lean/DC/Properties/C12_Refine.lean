/-
C12 (refinement) — the Index model refines the insertion-ordered dictionary of
DC/Model/OSpec.lean: for every history of mapping calls every call returns what
the ordered dictionary returns, and the rows of the final state, in rowid
order, ARE the bindings of the final dictionary, in insertion order.

Statement notes.
 * `IRefines x m`: the rows of `x.cache`, in order, each with the entry it denotes
   (`entryOfRow`), are literally the list `m`.  No clock: an Index never gives an
   item an expiry time.
 * `IOk x`: `Index.Ok` (policy none, nothing expires, no open block, pickle disk,
   table invariant) plus `Cache.Good` (file invariants: every file-backed row has
   its file, no orphan file, nothing pending) — what `Spec.Entry.out` needs to
   agree with `Disk.fetch` of the row.  `istep_ok`: kept by every call.
 * Every call of `IOp` is covered (no `Covered` restriction): getitem, setitem,
   delitem, setdefault, pop, popitem, peekitem, len, iter, clear, update, the views
   items and values (keys is iter), the comparisons eqTo and neTo (`==`, `!=` with
   an ordered or an unordered mapping), and rehandle (a new handle on the same
   directory: pickle round trip, re-opening, copy) — so a history may contain
   reopen / pickle round trips at any point.
 * The views and comparisons (`items_irefines`, `values_irefines`, `eqTo_irefines`,
   `neTo_irefines`) need the hypothesis of `popitem`: `ItemsView.__iter__` /
   `ValuesView.__iter__` / `Index.__eq__` look every key up again through the
   Python key decoded from the row (`-- added:` `hcodec`; necessary:
   `items_irefines_needs_codec`, `values_irefines_needs_codec`,
   `eqTo_irefines_needs_codec`).  Nothing expires in an Index, so under `hcodec`
   no look-up misses.  A look-up that misses raises KeyError, which is the outcome
   of the whole call (model: `Index.itemsWalk`; dictionary: `OSpec.walk`, at an
   entry whose value cannot be read); C12_Views.lean shows that after a history no
   entry is unreadable, so the views show all the bindings (`items_after_history`).
 * `-- added:` `0 < x.cache.cfg.page` for `iter` and `clear` (and therefore for
   histories): the page size is a `Cfg` field of the model (the constant 100 in
   core.py); with page size 0 the paging loops see nothing
   (`iter_irefines_needs_page`).
 * `-- added:` `hcodec` for `popitem`: it finds the row to delete again through the
   Python key decoded from the edge row, so the stored keys must survive
   decode-then-encode (`popitem_irefines_needs_codec`).  In the history theorem
   this becomes `HistCodec D ops` — all calls pickle keys with the same `D` and
   their `loads` inverts it — plus `KeysRT D m` for the keys already there; a law
   of each call's codec by itself is not enough because every call carries its own
   codec observations (`hist_codec_needs_agreement`).  Histories without
   `popitem` need no codec hypothesis (`irun_refines_no_popitem`).
 * Exceptions propagate as in persistent.py: `index[key] = value` returns the
   exception of `Cache.set` (unbindable key, unencodable text) and changes nothing;
   `update` stops at the first assignment that raises (the pairs before it stay
   assigned); `popitem` whose `del _cache[key]` does not find the key read back
   raises KeyError and rolls its block back; `setdefault` whose `add` raises
   (unstorable default, unbindable key) propagates that exception and rolls its
   block back.  `OSpec.setitem` / `OSpec.update` / `OSpec.setdefault` raise the
   same exceptions; `OSpec.popitem` knows nothing about codecs, so
   `hcodec` stays (`popitem_irefines_needs_codec`: without it the model raises
   KeyError where the dictionary removes the item).  `*_propagates_error` below
   are concrete instances.
-/
import DC.Proofs.IRefineOps
import DC.Proofs.IRefineBlock
import DC.Proofs.IRefineSetdefault
import DC.Proofs.IRefineViews
import DC.Properties.C12
import DC.Properties.C03_Refine

namespace DC.Index
open DC.Spec DC.Cache

/-- the rows of the Index, in order, ARE the bindings of `m`, in order -/
def IRefines (x : Index) (m : ODict) : Prop :=
  x.cache.rows.map (fun r => ((r.key, r.raw), entryOfRow x.cache r)) = m

/-- the invariant of the model side: an Index (`Ok`) in a quiescent, file-consistent state -/
structure IOk (x : Index) : Prop where
  ok : Ok x
  good : Good x.cache

theorem irefines_iff (x : Index) (m : ODict) : IRefines x m ↔ irf_abs x.cache = m := Iff.rfl

theorem IOk.inv {x : Index} (h : IOk x) : irf_Inv x.cache := ⟨h.good, h.ok.pol, h.ok.noexp⟩

theorem iok_of {x : Index} (h : IOk x) {c : Cache} (hi : irf_Inv c) (hc : c.cfg = x.cache.cfg) :
    IOk { cache := c } :=
  ⟨⟨hi.good.tinv, hi.pol, hi.noexp, hi.good.depth, by rw [hc]; exact h.ok.disk⟩, hi.good⟩

/-- what one call establishes: the invariant again, the same configuration, the result of the
dictionary call, and the relation between the new states -/
structure StepOK (x : Index) (r : Index × Out) (s : ODict × Out) : Prop where
  ok : IOk r.1
  cfg : r.1.cache.cfg = x.cache.cfg
  out : r.2 = s.2
  rel : IRefines r.1 s.1

/-! ### the calls -/

theorem getitem_step (x : Index) (m : ODict) (E : Externals) (now : Int) (k : PyVal)
    (hok : IOk x) (hr : IRefines x m) :
    StepOK x (x.getitem E now k) (OSpec.getitem m E x.cache.cfg k) := by
  subst hr
  obtain ⟨h1, h2, h3⟩ := irf_get x.cache E now k hok.inv
  have hcfg : (x.cache.get E now k false false false).1.cfg = x.cache.cfg := congrArg Core.cfg h2
  refine ⟨iok_of hok h3 hcfg, hcfg, ?_, irf_abs_core h2⟩
  show keyErr (x.cache.get E now k false false false).2 = _
  rw [h1]; rfl

theorem setitem_step (x : Index) (m : ODict) (E : Externals) (now : Int) (k v : PyVal)
    (hok : IOk x) (hr : IRefines x m) :
    StepOK x (x.setitem E now k v) (OSpec.setitem m E x.cache.cfg k v) := by
  subst hr
  obtain ⟨h1, h2, h3⟩ := irf_set x.cache E now k v hok.inv
  refine ⟨iok_of hok h3 h2, h2, ?_, h1⟩
  exact irf_set_out x.cache E now k v hok.inv

theorem delitem_step (x : Index) (m : ODict) (E : Externals) (now : Int) (k : PyVal)
    (hok : IOk x) (hr : IRefines x m) :
    StepOK x (x.delitem E now k) (OSpec.delitem m E x.cache.cfg k) := by
  subst hr
  obtain ⟨h1, h2, h3, h4⟩ := irf_delitem x.cache E now k hok.inv
  exact ⟨iok_of hok h4 h3, h3, h1, h2⟩

theorem pop_step (x : Index) (m : ODict) (E : Externals) (now : Int) (k : PyVal) (d : Bool)
    (hok : IOk x) (hr : IRefines x m) :
    StepOK x (x.pop E now k d) (OSpec.pop m E x.cache.cfg k d) := by
  subst hr
  obtain ⟨h1, h2, h3, h4⟩ := irf_pop x.cache E now k hok.inv
  refine ⟨iok_of hok h4 h3, h3, ?_, h2⟩
  show (if d then (x.cache.pop E now k false false).2 else keyErr (x.cache.pop E now k false false).2) = _
  rw [h1]; rfl

theorem len_step (x : Index) (m : ODict) (hok : IOk x) (hr : IRefines x m) :
    StepOK x x.len (OSpec.len m) := by
  subst hr
  obtain ⟨h1, h2, h3⟩ := irf_len x.cache hok.inv
  exact ⟨iok_of hok h3 rfl, rfl, h1, irf_abs_core h2⟩

theorem iter_step (x : Index) (m : ODict) (E : Externals) (asc : Bool)
    (hok : IOk x) (hr : IRefines x m)
    (hpg : 0 < x.cache.cfg.page) -- added: page size of the iteration loop
    : StepOK x (x.iter E asc) (OSpec.iter m E x.cache.cfg asc) := by
  subst hr
  obtain ⟨h1, h2, h3⟩ := irf_iter x.cache E asc hok.inv hpg
  have hcfg : (x.cache.iter E asc).1.cfg = x.cache.cfg := congrArg Core.cfg h2
  exact ⟨iok_of hok h3 hcfg, hcfg, h1, irf_abs_core h2⟩

theorem clear_step (x : Index) (m : ODict) (hok : IOk x) (_hr : IRefines x m)
    (hpg : 0 < x.cache.cfg.page) -- added: page size of the removal loop
    : StepOK x x.clear (OSpec.clear m) := by
  obtain ⟨h1, h2, h3⟩ := irf_clear x.cache hok.inv hpg
  exact ⟨iok_of hok h3 h2, h2, rfl, h1⟩

theorem peekitem_step (x : Index) (m : ODict) (E : Externals) (now : Int) (last : Bool)
    (hok : IOk x) (hr : IRefines x m) :
    StepOK x (x.peekitem E now last) (OSpec.peekitem m E x.cache.cfg last) := by
  subst hr
  obtain ⟨h1, h2⟩ := irf_peekitem x.cache E now last hok.ok.noexp
  obtain ⟨h3, h4⟩ := irf_peekOut_spec x.cache E last hok.good
  have hcfg : (x.cache.peekitem E now last false false).1.cfg = x.cache.cfg := congrArg Core.cfg h1
  exact ⟨iok_of hok (irf_inv_core hok.inv h1 (peekitem_inv _ _ _ _ _ _ hok.good.tinv)) hcfg, hcfg,
    h2.trans h3, (irf_abs_core h1).trans h4.symm⟩

/-- `popitem` finds the row to delete again through the Python key it decoded from the edge row
(`del self[key]`), so the stored keys must survive decode-then-encode (`popitem_end_needs_codec`
in C12.lean is the counterexample without): -- added: `hcodec` -/
theorem popitem_step (x : Index) (m : ODict) (E : Externals) (now : Int) (last : Bool)
    (hok : IOk x) (hr : IRefines x m)
    (hcodec : ∀ r ∈ x.cache.rows, -- added: the key codec round-trips on the stored keys
      DC.put E x.cache.cfg.disk (DC.get E x.cache.cfg.disk r.key r.raw) = (r.key, r.raw)) :
    StepOK x (x.popitem E now last) (OSpec.popitem m E x.cache.cfg last) := by
  subst hr
  obtain ⟨h1, h2, h3, h4⟩ := irf_popitem x E now last hok.inv hcodec
  exact ⟨iok_of hok h4 h3, h3, h1, h2⟩

theorem setdefault_step (x : Index) (m : ODict) (E : Externals) (now : Int) (k v : PyVal)
    (hok : IOk x) (hr : IRefines x m) :
    StepOK x (x.setdefault E now k v) (OSpec.setdefault m E x.cache.cfg k v) := by
  subst hr
  obtain ⟨h1, h2, h3, h4⟩ := irf_setdefault x E now k v hok.inv
  exact ⟨iok_of hok h4 h3, h3, h1, h2⟩

theorem update_step (x : Index) (m : ODict) (E : Externals) (now : Int) (kvs : List (PyVal × PyVal))
    (hok : IOk x) (hr : IRefines x m) :
    StepOK x (x.update E now kvs) (OSpec.update m E x.cache.cfg kvs) := by
  induction kvs generalizing x m with
  | nil => exact ⟨hok, rfl, rfl, hr⟩
  | cons kv kvs ih =>
    have h1 := setitem_step x m E now kv.1 kv.2 hok hr
    have h2 := ih (x.setitem E now kv.1 kv.2).1 (OSpec.setitem m E x.cache.cfg kv.1 kv.2).1 h1.ok h1.rel
    rw [h1.cfg] at h2
    rw [Index.update, OSpec.update]
    obtain ⟨a1, a2, a3, a4⟩ := h1
    obtain ⟨b1, b2, b3, b4⟩ := h2
    cases hx : x.setitem E now kv.1 kv.2 with
    | mk x1 o =>
      cases hm : OSpec.setitem m E x.cache.cfg kv.1 kv.2 with
      | mk m1 o' =>
        rw [hx] at a1 a2 a3 a4 b1 b2 b3 b4
        rw [hm] at a3 a4 b3 b4
        simp only at a1 a2 a3 a4 b1 b2 b3 b4
        subst a3
        cases o with
        | exc e => exact ⟨a1, a2, rfl, a4⟩
        | _ => exact ⟨b1, b2.trans a2, b3, b4⟩

/-- the views look every key up again through the Python key decoded from the row
(`ItemsView.__iter__`: `for key in mapping: yield (key, mapping[key])`), so — as for `popitem` —
the stored keys must survive decode-then-encode: -- added: `hcodec` (`items_irefines_needs_codec`) -/
theorem items_step (x : Index) (m : ODict) (E : Externals) (now : Int)
    (hok : IOk x) (hr : IRefines x m)
    (hcodec : ∀ r ∈ x.cache.rows, -- added: the key codec round-trips on the stored keys
      DC.put E x.cache.cfg.disk (DC.get E x.cache.cfg.disk r.key r.raw) = (r.key, r.raw)) :
    StepOK x (x.items E now) (OSpec.items m E x.cache.cfg) := by
  subst hr
  obtain ⟨h1, h2, h3⟩ := irf_items x E now hok.inv hcodec
  have hcfg : (x.items E now).1.cache.cfg = x.cache.cfg := congrArg Core.cfg h2
  exact ⟨iok_of hok h3 hcfg, hcfg, h1, irf_abs_core h2⟩

theorem values_step (x : Index) (m : ODict) (E : Externals) (now : Int)
    (hok : IOk x) (hr : IRefines x m)
    (hcodec : ∀ r ∈ x.cache.rows, -- added: the key codec round-trips on the stored keys
      DC.put E x.cache.cfg.disk (DC.get E x.cache.cfg.disk r.key r.raw) = (r.key, r.raw)) :
    StepOK x (x.values E now) (OSpec.values m E x.cache.cfg) := by
  subst hr
  obtain ⟨h1, h2, h3⟩ := irf_values x E now hok.inv hcodec
  have hcfg : (x.values E now).1.cache.cfg = x.cache.cfg := congrArg Core.cfg h2
  exact ⟨iok_of hok h3 hcfg, hcfg, h1, irf_abs_core h2⟩

theorem eqTo_step (x : Index) (m : ODict) (E : Externals) (now : Int) (ordered : Bool)
    (other : List (PyVal × PyVal)) (hok : IOk x) (hr : IRefines x m)
    (hcodec : ∀ r ∈ x.cache.rows, -- added: the key codec round-trips on the stored keys
      DC.put E x.cache.cfg.disk (DC.get E x.cache.cfg.disk r.key r.raw) = (r.key, r.raw)) :
    StepOK x (x.eqTo E now ordered other) (OSpec.eqTo m E x.cache.cfg ordered other) := by
  subst hr
  obtain ⟨h1, h2, h3⟩ := irf_eqTo x E now ordered other hok.inv hcodec
  have hcfg : (x.eqTo E now ordered other).1.cache.cfg = x.cache.cfg := congrArg Core.cfg h2
  exact ⟨iok_of hok h3 hcfg, hcfg, h1, irf_abs_core h2⟩

theorem neTo_step (x : Index) (m : ODict) (E : Externals) (now : Int) (ordered : Bool)
    (other : List (PyVal × PyVal)) (hok : IOk x) (hr : IRefines x m)
    (hcodec : ∀ r ∈ x.cache.rows, -- added: the key codec round-trips on the stored keys
      DC.put E x.cache.cfg.disk (DC.get E x.cache.cfg.disk r.key r.raw) = (r.key, r.raw)) :
    StepOK x (x.neTo E now ordered other) (OSpec.neTo m E x.cache.cfg ordered other) := by
  subst hr
  obtain ⟨h1, h2, h3⟩ := irf_neTo x E now ordered other hok.inv hcodec
  have hcfg : (x.neTo E now ordered other).1.cache.cfg = x.cache.cfg := congrArg Core.cfg h2
  exact ⟨iok_of hok h3 hcfg, hcfg, h1, irf_abs_core h2⟩

/-- a new handle on the same directory (pickle round trip, re-opening, `copy` of the handle):
nothing is returned, the contents are the same -/
theorem rehandle_step (x : Index) (m : ODict) (hok : IOk x) (hr : IRefines x m) :
    StepOK x x.rehandle (OSpec.rehandle m) := ⟨hok, rfl, rfl, hr⟩

/-! the per-call theorems: same result as the dictionary call, and the relation is preserved -/

theorem getitem_irefines (x : Index) (m : ODict) (E : Externals) (now : Int) (k : PyVal)
    (hok : IOk x) (hr : IRefines x m) :
    (x.getitem E now k).2 = (OSpec.getitem m E x.cache.cfg k).2 ∧
    IRefines (x.getitem E now k).1 (OSpec.getitem m E x.cache.cfg k).1 :=
  ⟨(getitem_step x m E now k hok hr).out, (getitem_step x m E now k hok hr).rel⟩

theorem setitem_irefines (x : Index) (m : ODict) (E : Externals) (now : Int) (k v : PyVal)
    (hok : IOk x) (hr : IRefines x m) :
    (x.setitem E now k v).2 = (OSpec.setitem m E x.cache.cfg k v).2 ∧
    IRefines (x.setitem E now k v).1 (OSpec.setitem m E x.cache.cfg k v).1 :=
  ⟨(setitem_step x m E now k v hok hr).out, (setitem_step x m E now k v hok hr).rel⟩

theorem delitem_irefines (x : Index) (m : ODict) (E : Externals) (now : Int) (k : PyVal)
    (hok : IOk x) (hr : IRefines x m) :
    (x.delitem E now k).2 = (OSpec.delitem m E x.cache.cfg k).2 ∧
    IRefines (x.delitem E now k).1 (OSpec.delitem m E x.cache.cfg k).1 :=
  ⟨(delitem_step x m E now k hok hr).out, (delitem_step x m E now k hok hr).rel⟩

theorem pop_irefines (x : Index) (m : ODict) (E : Externals) (now : Int) (k : PyVal) (d : Bool)
    (hok : IOk x) (hr : IRefines x m) :
    (x.pop E now k d).2 = (OSpec.pop m E x.cache.cfg k d).2 ∧
    IRefines (x.pop E now k d).1 (OSpec.pop m E x.cache.cfg k d).1 :=
  ⟨(pop_step x m E now k d hok hr).out, (pop_step x m E now k d hok hr).rel⟩

theorem peekitem_irefines (x : Index) (m : ODict) (E : Externals) (now : Int) (last : Bool)
    (hok : IOk x) (hr : IRefines x m) :
    (x.peekitem E now last).2 = (OSpec.peekitem m E x.cache.cfg last).2 ∧
    IRefines (x.peekitem E now last).1 (OSpec.peekitem m E x.cache.cfg last).1 :=
  ⟨(peekitem_step x m E now last hok hr).out, (peekitem_step x m E now last hok hr).rel⟩

/- STATEMENT WITHOUT `hcodec` — FALSE: `Index.popitem_end_needs_codec` (C12.lean) is a well-formed
Index whose only key is not the encoding of any Python key; `popitem` returns the item but the row
stays.  With `hcodec` (true of every key written through `Disk.put` under a lawful key codec,
`Index.codec_of_put`): -/
theorem popitem_irefines (x : Index) (m : ODict) (E : Externals) (now : Int) (last : Bool)
    (hok : IOk x) (hr : IRefines x m)
    (hcodec : ∀ r ∈ x.cache.rows, -- added: the key codec round-trips on the stored keys
      DC.put E x.cache.cfg.disk (DC.get E x.cache.cfg.disk r.key r.raw) = (r.key, r.raw)) :
    (x.popitem E now last).2 = (OSpec.popitem m E x.cache.cfg last).2 ∧
    IRefines (x.popitem E now last).1 (OSpec.popitem m E x.cache.cfg last).1 :=
  ⟨(popitem_step x m E now last hok hr hcodec).out, (popitem_step x m E now last hok hr hcodec).rel⟩

/-- `popitem`, sharper: the key-codec round trip is needed of the row it pops only — the last
(first) row -/
theorem popitem_irefines_edge (x : Index) (m : ODict) (E : Externals) (now : Int) (last : Bool)
    (hok : IOk x) (hr : IRefines x m)
    (hcodec : ∀ r, (if last then x.cache.rows.getLast? else x.cache.rows.head?) = some r →
      DC.put E x.cache.cfg.disk (DC.get E x.cache.cfg.disk r.key r.raw) = (r.key, r.raw)) :
    (x.popitem E now last).2 = (OSpec.popitem m E x.cache.cfg last).2 ∧
    IRefines (x.popitem E now last).1 (OSpec.popitem m E x.cache.cfg last).1 ∧
    IOk (x.popitem E now last).1 := by
  subst hr
  obtain ⟨h1, h2, h3, h4⟩ := irf_popitem_edge x E now last hok.inv hcodec
  exact ⟨h1, h2, iok_of hok h4 h3⟩

theorem setdefault_irefines (x : Index) (m : ODict) (E : Externals) (now : Int) (k v : PyVal)
    (hok : IOk x) (hr : IRefines x m) :
    (x.setdefault E now k v).2 = (OSpec.setdefault m E x.cache.cfg k v).2 ∧
    IRefines (x.setdefault E now k v).1 (OSpec.setdefault m E x.cache.cfg k v).1 :=
  ⟨(setdefault_step x m E now k v hok hr).out, (setdefault_step x m E now k v hok hr).rel⟩

theorem len_irefines (x : Index) (m : ODict) (hok : IOk x) (hr : IRefines x m) :
    (x.len).2 = (OSpec.len m).2 ∧ IRefines (x.len).1 (OSpec.len m).1 :=
  ⟨(len_step x m hok hr).out, (len_step x m hok hr).rel⟩

theorem iter_irefines (x : Index) (m : ODict) (E : Externals) (asc : Bool)
    (hok : IOk x) (hr : IRefines x m)
    (hpg : 0 < x.cache.cfg.page) -- added: page size of the iteration loop
    : (x.iter E asc).2 = (OSpec.iter m E x.cache.cfg asc).2 ∧
      IRefines (x.iter E asc).1 (OSpec.iter m E x.cache.cfg asc).1 :=
  ⟨(iter_step x m E asc hok hr hpg).out, (iter_step x m E asc hok hr hpg).rel⟩

theorem clear_irefines (x : Index) (m : ODict) (hok : IOk x) (hr : IRefines x m)
    (hpg : 0 < x.cache.cfg.page) -- added: page size of the removal loop
    : (x.clear).2 = (OSpec.clear m).2 ∧ IRefines (x.clear).1 (OSpec.clear m).1 :=
  ⟨(clear_step x m hok hr hpg).out, (clear_step x m hok hr hpg).rel⟩

theorem update_irefines (x : Index) (m : ODict) (E : Externals) (now : Int) (kvs : List (PyVal × PyVal))
    (hok : IOk x) (hr : IRefines x m) :
    (x.update E now kvs).2 = (OSpec.update m E x.cache.cfg kvs).2 ∧
    IRefines (x.update E now kvs).1 (OSpec.update m E x.cache.cfg kvs).1 :=
  ⟨(update_step x m E now kvs hok hr).out, (update_step x m E now kvs hok hr).rel⟩

/- STATEMENTS WITHOUT `hcodec` — FALSE: `items_irefines_needs_codec` below (the Index of
`Index.popitem_end_needs_codec`: the look-up of the key decoded from the only row misses, the
model's view raises KeyError — as persistent.py does — where the dictionary shows the item). -/
theorem items_irefines (x : Index) (m : ODict) (E : Externals) (now : Int)
    (hok : IOk x) (hr : IRefines x m)
    (hcodec : ∀ r ∈ x.cache.rows, -- added: the key codec round-trips on the stored keys
      DC.put E x.cache.cfg.disk (DC.get E x.cache.cfg.disk r.key r.raw) = (r.key, r.raw)) :
    (x.items E now).2 = (OSpec.items m E x.cache.cfg).2 ∧
    IRefines (x.items E now).1 (OSpec.items m E x.cache.cfg).1 :=
  ⟨(items_step x m E now hok hr hcodec).out, (items_step x m E now hok hr hcodec).rel⟩

theorem values_irefines (x : Index) (m : ODict) (E : Externals) (now : Int)
    (hok : IOk x) (hr : IRefines x m)
    (hcodec : ∀ r ∈ x.cache.rows, -- added: the key codec round-trips on the stored keys
      DC.put E x.cache.cfg.disk (DC.get E x.cache.cfg.disk r.key r.raw) = (r.key, r.raw)) :
    (x.values E now).2 = (OSpec.values m E x.cache.cfg).2 ∧
    IRefines (x.values E now).1 (OSpec.values m E x.cache.cfg).1 :=
  ⟨(values_step x m E now hok hr hcodec).out, (values_step x m E now hok hr hcodec).rel⟩

theorem eqTo_irefines (x : Index) (m : ODict) (E : Externals) (now : Int) (ordered : Bool)
    (other : List (PyVal × PyVal)) (hok : IOk x) (hr : IRefines x m)
    (hcodec : ∀ r ∈ x.cache.rows, -- added: the key codec round-trips on the stored keys
      DC.put E x.cache.cfg.disk (DC.get E x.cache.cfg.disk r.key r.raw) = (r.key, r.raw)) :
    (x.eqTo E now ordered other).2 = (OSpec.eqTo m E x.cache.cfg ordered other).2 ∧
    IRefines (x.eqTo E now ordered other).1 (OSpec.eqTo m E x.cache.cfg ordered other).1 :=
  ⟨(eqTo_step x m E now ordered other hok hr hcodec).out,
   (eqTo_step x m E now ordered other hok hr hcodec).rel⟩

theorem neTo_irefines (x : Index) (m : ODict) (E : Externals) (now : Int) (ordered : Bool)
    (other : List (PyVal × PyVal)) (hok : IOk x) (hr : IRefines x m)
    (hcodec : ∀ r ∈ x.cache.rows, -- added: the key codec round-trips on the stored keys
      DC.put E x.cache.cfg.disk (DC.get E x.cache.cfg.disk r.key r.raw) = (r.key, r.raw)) :
    (x.neTo E now ordered other).2 = (OSpec.neTo m E x.cache.cfg ordered other).2 ∧
    IRefines (x.neTo E now ordered other).1 (OSpec.neTo m E x.cache.cfg ordered other).1 :=
  ⟨(neTo_step x m E now ordered other hok hr hcodec).out,
   (neTo_step x m E now ordered other hok hr hcodec).rel⟩

/-- persistence operations are the identity on contents: a new handle (pickle round trip,
re-opening the directory, `copy`) returns nothing and represents the same dictionary -/
theorem rehandle_irefines (x : Index) (m : ODict) (hok : IOk x) (hr : IRefines x m) :
    (x.rehandle).2 = (OSpec.rehandle m).2 ∧ IRefines (x.rehandle).1 (OSpec.rehandle m).1 ∧
    (x.rehandle).2 = .none ∧ (x.rehandle).1 = x ∧ IOk (x.rehandle).1 :=
  ⟨rfl, hr, rfl, rfl, hok⟩

/-! ### histories -/

/-- the calls that need a law of the key codec: `popitem` and the views (`items`, `values`, and the
comparisons, which read the items), which look a key up again through the Python key decoded from
its row -/
def NeedsCodec : IOp → Bool
  | .popitem .. => true
  | .items .. => true
  | .values .. => true
  | .eqTo .. => true
  | .neTo .. => true
  | _ => false

/-- the hypothesis `popitem` adds: the stored keys survive decode-then-encode under the codec of
the call -/
def StepCodec (x : Index) : IOp → Prop
  | .popitem E _ _ | .items E _ | .values E _ | .eqTo E _ _ _ | .neTo E _ _ _ => ∀ r ∈ x.cache.rows,
      DC.put E x.cache.cfg.disk (DC.get E x.cache.cfg.disk r.key r.raw) = (r.key, r.raw)
  | _ => True

/-- one call of a history: its result is the dictionary's result, the new states correspond, the
invariant and the configuration are kept -/
theorem istep (x : Index) (m : ODict) (op : IOp) (hok : IOk x) (hr : IRefines x m)
    (hpg : 0 < x.cache.cfg.page) -- added: page size of the paging loops (`iter`, `clear`)
    (hcodec : StepCodec x op) -- added: key codec round trip, for `popitem` only
    : StepOK x (x.step op) (OSpec.step m x.cache.cfg op) := by
  cases op with
  | getitem E now k => exact getitem_step x m E now k hok hr
  | setitem E now k v => exact setitem_step x m E now k v hok hr
  | delitem E now k => exact delitem_step x m E now k hok hr
  | setdefault E now k v => exact setdefault_step x m E now k v hok hr
  | pop E now k d => exact pop_step x m E now k d hok hr
  | popitem E now last => exact popitem_step x m E now last hok hr hcodec
  | peekitem E now last => exact peekitem_step x m E now last hok hr
  | len => exact len_step x m hok hr
  | iter E asc => exact iter_step x m E asc hok hr hpg
  | clear => exact clear_step x m hok hr hpg
  | update E now kvs => exact update_step x m E now kvs hok hr
  | items E now => exact items_step x m E now hok hr hcodec
  | values E now => exact values_step x m E now hok hr hcodec
  | eqTo E now ordered other => exact eqTo_step x m E now ordered other hok hr hcodec
  | neTo E now ordered other => exact neTo_step x m E now ordered other hok hr hcodec
  | rehandle => exact rehandle_step x m hok hr

/-- the invariant is kept by every call -/
theorem istep_ok (x : Index) (op : IOp) (hok : IOk x) (hpg : 0 < x.cache.cfg.page)
    (hcodec : StepCodec x op) : IOk (x.step op).1 :=
  (istep x _ op hok rfl hpg hcodec).ok

/-! #### the key codec along a history

Every call carries its own codec observations `E`.  `popitem` re-encodes a key that an earlier
call encoded, so the calls of a history must agree on the key codec: they pickle keys with the
same function `D`, and unpickling inverts it. -/

/-- the codec observations of a call -/
def opE : IOp → Option Externals
  | .getitem E .. | .setitem E .. | .delitem E .. | .setdefault E .. | .pop E .. | .popitem E ..
  | .peekitem E .. | .iter E .. | .update E .. | .items E .. | .values E .. | .eqTo E .. | .neTo E .. => some E
  | .len | .clear | .rehandle => none

/-- `E` pickles keys with `D`, and its `loads` inverts `D` -/
def CodecOk (D : PyVal → Bytes) (E : Externals) : Prop := E.dumpsK = D ∧ ∀ k, E.loads (D k) = k

/-- every call of the history agrees on the key codec `D` -/
def HistCodec (D : PyVal → Bytes) (ops : List IOp) : Prop :=
  ∀ op ∈ ops, ∀ E, opE op = some E → CodecOk D E

/-- every key of the dictionary survives decode-then-encode under every codec agreeing with `D` -/
def KeysRT (D : PyVal → Bytes) (m : ODict) : Prop :=
  ∀ E, CodecOk D E → ∀ K ∈ m.keys, DC.put E .pickle (DC.get E .pickle K.1 K.2) = K

theorem keysRT_nil (D : PyVal → Bytes) : KeysRT D [] := fun _ _ _ hK => nomatch hK

/-- a key encoded under one codec of the history decodes and re-encodes to itself under another -/
theorem put_get_put2 (D : PyVal → Bytes) (E E' : Externals) (h : CodecOk D E) (h' : CodecOk D E')
    (k : PyVal) :
    DC.put E' .pickle (DC.get E' .pickle (DC.put E .pickle k).1 (DC.put E .pickle k).2) =
      DC.put E .pickle k := by
  have e1 : E.dumpsK = D := h.1
  have e2 : E'.dumpsK = D := h'.1
  have e3 := h'.2
  cases k with
  | int i =>
    by_cases hi : inI64 i = true <;>
      simp [DC.put, DC.get, Disk.put, Disk.get, column, e1, e2, e3, hi]
  | _ => simp [DC.put, DC.get, Disk.put, Disk.get, column, e1, e2, e3]

theorem setitem_keys (m : ODict) (E : Externals) (cfg : Cfg) (k v : PyVal) :
    ∀ K ∈ (OSpec.setitem m E cfg k v).1.keys, K ∈ m.keys ∨ K = keyOf E cfg k := by
  intro K hK
  unfold OSpec.setitem at hK
  split at hK
  · exact .inl hK
  · simp only at hK
    split at hK
    · simp only at hK
      rw [irf_keys_set] at hK
      split at hK
      · exact .inl hK
      · rcases List.mem_append.1 hK with h | h
        · exact .inl h
        · exact .inr (List.mem_singleton.1 h)
    · exact .inl hK

theorem del_keys (m : ODict) (K0 : Key) : ∀ K ∈ (m.del K0).keys, K ∈ m.keys := by
  intro K hK
  rw [irf_keys_del] at hK
  exact (List.mem_filter.1 hK).1

/-- a call binds no key other than those it encodes itself -/
theorem step_keys (m : ODict) (cfg : Cfg) (op : IOp) :
    ∀ K ∈ (OSpec.step m cfg op).1.keys, K ∈ m.keys ∨ ∃ E k, opE op = some E ∧ K = keyOf E cfg k := by
  intro K hK
  cases op with
  | getitem E now k => exact .inl hK
  | setitem E now k v =>
    rcases setitem_keys m E cfg k v K hK with h | h
    · exact .inl h
    · exact .inr ⟨E, k, rfl, h⟩
  | delitem E now k =>
    simp only [OSpec.step, OSpec.delitem] at hK
    split at hK
    · exact .inl (del_keys m _ K hK)
    · exact .inl hK
  | setdefault E now k v =>
    simp only [OSpec.step] at hK
    rw [irf_spec_setdefault_eq] at hK
    split at hK
    · split at hK
      · exact .inl hK
      · split at hK
        · exact .inl hK
        · split at hK
          · exact .inl hK
          · rcases setitem_keys m E cfg k v K hK with h | h
            · exact .inl h
            · exact .inr ⟨E, k, rfl, h⟩
    · exact .inl hK
  | pop E now k d => exact .inl (del_keys m _ K hK)
  | popitem E now last =>
    simp only [OSpec.step, OSpec.popitem] at hK
    split at hK
    · exact .inl hK
    · split at hK
      · exact .inl hK
      · exact .inl (del_keys m _ K hK)
  | peekitem E now last =>
    simp only [OSpec.step, OSpec.peekitem] at hK
    split at hK
    · exact .inl hK
    · split at hK <;> exact .inl hK
  | len => exact .inl hK
  | iter E asc => exact .inl hK
  | clear => exact nomatch hK
  | update E now kvs =>
    simp only [OSpec.step] at hK
    induction kvs generalizing m with
    | nil => exact .inl hK
    | cons kv kvs ih =>
      rw [OSpec.update] at hK
      have hs := setitem_keys m E cfg kv.1 kv.2
      cases hm : OSpec.setitem m E cfg kv.1 kv.2 with
      | mk m1 o =>
        rw [hm] at hK hs
        have hstep : ∀ K, K ∈ ODict.keys m1 → K ∈ m.keys ∨ ∃ E' k, opE (.update E now (kv :: kvs)) = some E' ∧
            K = keyOf E' cfg k := by
          intro K hK1
          rcases hs K hK1 with h2 | h2
          · exact .inl h2
          · exact .inr ⟨E, kv.1, rfl, h2⟩
        cases o with
        | exc e => exact hstep K hK
        | _ =>
          simp only at hK
          rcases ih m1 hK with h | h
          · exact hstep K h
          · exact .inr h
  | items E now => exact .inl hK
  | values E now => exact .inl hK
  | eqTo E now ordered other => exact .inl hK
  | neTo E now ordered other => exact .inl hK
  | rehandle => exact .inl hK

theorem step_keysRT (D : PyVal → Bytes) (m : ODict) (cfg : Cfg) (op : IOp) (hd : cfg.disk = .pickle)
    (hE : ∀ E, opE op = some E → CodecOk D E) (hk : KeysRT D m) :
    KeysRT D (OSpec.step m cfg op).1 := by
  intro E' hE' K hK
  rcases step_keys m cfg op K hK with h | ⟨E, k, ho, rfl⟩
  · exact hk E' hE' K h
  · unfold keyOf
    rw [hd]
    exact put_get_put2 D E E' (hE E ho) hE' k

theorem stepCodec_of (D : PyVal → Bytes) (x : Index) (m : ODict) (op : IOp) (hok : IOk x)
    (hr : IRefines x m) (hE : ∀ E, opE op = some E → CodecOk D E) (hk : KeysRT D m) :
    StepCodec x op := by
  have key : ∀ E, opE op = some E → ∀ r ∈ x.cache.rows,
      DC.put E x.cache.cfg.disk (DC.get E x.cache.cfg.disk r.key r.raw) = (r.key, r.raw) := by
    intro E hop r hrm
    rw [hok.ok.disk]
    refine hk E (hE E hop) (r.key, r.raw) ?_
    rw [← hr]
    exact List.mem_map.2 ⟨_, List.mem_map.2 ⟨r, hrm, rfl⟩, rfl⟩
  cases op <;> first | trivial | exact key _ rfl

/-- the hypothesis of the history theorem about the key codec: needed only when the history
contains a `popitem` -/
def CodecHyp (D : PyVal → Bytes) (m : ODict) (ops : List IOp) : Prop :=
  (∃ op ∈ ops, NeedsCodec op = true) → HistCodec D ops ∧ KeysRT D m

theorem irun_refines_strong (x : Index) (m : ODict) (ops : List IOp) (hok : IOk x) (hr : IRefines x m)
    (hpg : 0 < x.cache.cfg.page) (D : PyVal → Bytes) (hD : CodecHyp D m ops) :
    Index.outs x ops = OSpec.outs m x.cache.cfg ops ∧
    IRefines (Index.run x ops) (OSpec.run m x.cache.cfg ops) ∧
    IOk (Index.run x ops) ∧ (Index.run x ops).cache.cfg = x.cache.cfg := by
  induction ops generalizing x m with
  | nil => exact ⟨rfl, hr, hok, rfl⟩
  | cons op ops ih =>
    have hcod : StepCodec x op := by
      cases hn : NeedsCodec op with
      | false => cases op <;> first | trivial | cases hn
      | true =>
        obtain ⟨h1, h2⟩ := hD ⟨op, List.mem_cons_self .., hn⟩
        exact stepCodec_of D x m op hok hr (h1 op (List.mem_cons_self ..)) h2
    have hs := istep x m op hok hr hpg hcod
    have hD' : CodecHyp D (OSpec.step m x.cache.cfg op).1 ops := by
      rintro ⟨o, ho, hn⟩
      obtain ⟨h1, h2⟩ := hD ⟨o, List.mem_cons_of_mem _ ho, hn⟩
      exact ⟨fun o' ho' => h1 o' (List.mem_cons_of_mem _ ho'),
        step_keysRT D m x.cache.cfg op hok.ok.disk (h1 op (List.mem_cons_self ..)) h2⟩
    obtain ⟨h1, h2, h3, h4⟩ := ih (x.step op).1 (OSpec.step m x.cache.cfg op).1 hs.ok hs.rel
      (by rw [hs.cfg]; exact hpg) hD'
    rw [hs.cfg] at h1 h2 h4
    refine ⟨?_, h2, h3, h4⟩
    show _ :: _ = _ :: _
    rw [hs.out, h1]

/-- **the history theorem**: every call of a history of mapping calls returns what the
insertion-ordered dictionary returns, and the rows of the final state ARE the bindings of the
final dictionary, in order.
-- added: `hpg` (page size of the paging loops of `iter` / `clear`, 100 in core.py);
-- added: `hD`, `hkeys` (the key codec law `popitem` needs, as a hypothesis on every call's `E`:
   all calls pickle keys with the same `D` and unpickling inverts it; the keys already stored
   round-trip — vacuous for the empty Index).  `irun_refines_no_popitem` below: without `popitem`
   (and without the views and comparisons, which need the same law) in the history no codec
   hypothesis is needed.  `irun_refines_w` (C12_Views.lean): the agreement is needed only of the
   calls that write keys and of those that re-encode them. -/
theorem irun_refines (x : Index) (m : ODict) (ops : List IOp) (hok : IOk x) (hr : IRefines x m)
    (hpg : 0 < x.cache.cfg.page) -- added: page size of the paging loops
    (D : PyVal → Bytes) (hD : HistCodec D ops) -- added: the calls agree on a lawful key codec
    (hkeys : KeysRT D m) -- added: the stored keys round-trip under it
    : Index.outs x ops = OSpec.outs m x.cache.cfg ops ∧
      IRefines (Index.run x ops) (OSpec.run m x.cache.cfg ops) :=
  ⟨(irun_refines_strong x m ops hok hr hpg D (fun _ => ⟨hD, hkeys⟩)).1,
   (irun_refines_strong x m ops hok hr hpg D (fun _ => ⟨hD, hkeys⟩)).2.1⟩

/-- histories without `popitem` (and without `items`, `values`, `==`, `!=`: the calls of
`NeedsCodec`): no hypothesis on the codecs at all -/
theorem irun_refines_no_popitem (x : Index) (m : ODict) (ops : List IOp) (hok : IOk x) (hr : IRefines x m)
    (hpg : 0 < x.cache.cfg.page) -- added: page size of the paging loops
    (hnp : ∀ op ∈ ops, NeedsCodec op = false) :
    Index.outs x ops = OSpec.outs m x.cache.cfg ops ∧
    IRefines (Index.run x ops) (OSpec.run m x.cache.cfg ops) := by
  have hD : CodecHyp (fun _ => []) m ops := by
    rintro ⟨o, ho, hn⟩
    rw [hnp o ho] at hn; cases hn
  exact ⟨(irun_refines_strong x m ops hok hr hpg _ hD).1, (irun_refines_strong x m ops hok hr hpg _ hD).2.1⟩

/-! ### the empty Index, the user-level corollary, non-vacuity -/

/-- the empty Index (policy none, pickle disk) satisfies the invariant and represents the empty
dictionary -/
theorem irefines_init (cf : Cfg) (st : Bool) (hp : cf.policy = .none) (hd : cf.disk = .pickle) :
    IOk { cache := { cfg := cf, statistics := st } } ∧
    IRefines { cache := { cfg := cf, statistics := st } } [] := by
  refine ⟨⟨⟨inv_init cf st, hp, ?_, rfl, hd⟩, good_init cf st⟩, rfl⟩
  intro r hr
  cases hr

/-! what "insertion-ordered" means for the key list of the dictionary -/

/-- assignment to a bound key keeps the key list (its position is kept) -/
theorem oset_keys_existing (m : ODict) (k : Key) (e : Entry) (h : m.has k = true) :
    (m.set k e).keys = m.keys := by rw [irf_keys_set, if_pos h]

/-- assignment to an unbound key appends it at the end -/
theorem oset_keys_new (m : ODict) (k : Key) (e : Entry) (h : m.has k = false) :
    (m.set k e).keys = m.keys ++ [k] := by rw [irf_keys_set, h]; rfl

/-- deletion followed by re-insertion moves the key to the end -/
theorem odel_set_keys (m : ODict) (k : Key) (e : Entry) (hk : sameKey k k = true) :
    ((m.del k).set k e).keys = m.keys.filter (fun q => !sameKey q k) ++ [k] := by
  have h : (m.del k).has k = false := by rw [irf_has_eq, irf_get_del, hk]; rfl
  rw [oset_keys_new _ _ _ h, irf_keys_del]

/-- removing the key of the first binding removes the first item -/
theorem odel_head (m : ODict) (K : Key) (e : Entry) (hw : m.WF) (h : m.head? = some (K, e)) :
    m.del K = m.tail := by
  cases m with
  | nil => cases h
  | cons a t =>
    simp only [List.head?_cons, Option.some.injEq] at h
    subst h
    have hpw := List.pairwise_cons.1 hw.1
    have hself : sameKey K K = true := hw.2 _ (List.mem_cons_self ..)
    unfold ODict.del
    rw [List.filter_cons_of_neg (by simp [hself]), List.tail_cons, List.filter_eq_self]
    intro p hp
    have := hpw.1 p hp
    rw [rf_sameKey_comm] at this
    simp [this]

/-- removing the key of the last binding removes the last item -/
theorem odel_last (m : ODict) (K : Key) (e : Entry) (hw : m.WF) (h : m.getLast? = some (K, e)) :
    m.del K = m.dropLast := by
  obtain ⟨hne, hl⟩ := List.getLast?_eq_some_iff.1 h
  subst hl
  rw [List.dropLast_concat]
  have hpw := List.pairwise_append.1 hw.1
  have hself : sameKey K K = true := hw.2 _ (List.mem_append_right _ (List.mem_singleton.2 rfl))
  unfold ODict.del
  rw [List.filter_append, List.filter_cons_of_neg (by simp [hself]), List.filter_nil, List.append_nil,
    List.filter_eq_self]
  intro p hp
  have := hpw.2.2 p hp (K, e) (List.mem_singleton.2 rfl)
  simp [this]

/-- **what a user sees**: after any history of mapping calls on a fresh Index, `list(index)` is the
key list of the ordered dictionary that history builds — insertion order; re-assignment keeps the
position (`oset_keys_existing`); deletion and re-insertion moves the key to the end
(`odel_set_keys`) — and `list(reversed(index))` is its reverse -/
theorem iter_after_history (cf : Cfg) (st : Bool) (ops : List IOp) (E : Externals) (asc : Bool)
    (hp : cf.policy = .none) (hd : cf.disk = .pickle) (hpg : 0 < cf.page)
    (D : PyVal → Bytes) (hD : HistCodec D ops) :
    ((Index.run { cache := { cfg := cf, statistics := st } } ops).iter E asc).2 =
      .list ((if asc then (OSpec.run [] cf ops).keys else (OSpec.run [] cf ops).keys.reverse).map
        (fun K => Cache.keyOut E cf.disk K.1 K.2)) := by
  obtain ⟨hok, hr⟩ := irefines_init cf st hp hd
  obtain ⟨-, h2, h3, h4⟩ := irun_refines_strong _ [] ops hok hr hpg D (fun _ => ⟨hD, keysRT_nil D⟩)
  have := (iter_irefines _ _ E asc h3 h2 (by rw [h4]; exact hpg)).1
  rw [this, h4]
  show Out.list _ = Out.list _
  congr 1
  cases asc
  · simp only [Bool.false_eq_true, if_false, ODict.keys, ← List.map_reverse, List.map_map]
    rfl
  · simp only [if_true, ODict.keys, List.map_map]
    rfl

/-- a codec for the examples: keys are pickled like values -/
def exEI : Externals := { toyV with dumpsK := toyV.dumpsV }

theorem exEI_codec : CodecOk exEI.dumpsK exEI := by
  refine ⟨rfl, fun k => ?_⟩
  cases k with
  | none => rfl
  | int i =>
    show PyVal.int ((i.toNat : Int) - ((-i).toNat : Int)) = .int i
    congr 1
    omega
  | float f => rfl
  | str s => rfl
  | bytes b => rfl
  | obj o => rfl

/-- non-vacuity: a concrete history on a fresh Index.  `a`, `b` are assigned, `a` re-assigned
(keeps its place), `c` added by `setdefault`, the keys listed; `a` deleted and assigned again
(moves to the end), the keys listed again, the last item popped, the first one peeked, the
length taken. -/
def exIndex : Index := { cache := { cfg := { policy := .none } } }

def exIOps : List IOp :=
  [ .setitem exEI 0 (.str [97]) (.int 1),
    .setitem exEI 0 (.str [98]) (.int 2),
    .setitem exEI 0 (.str [97]) (.int 3),
    .setdefault exEI 0 (.str [99]) (.int 4),
    .iter exEI true,
    .delitem exEI 0 (.str [97]),
    .setitem exEI 0 (.str [97]) (.int 5),
    .iter exEI true,
    .popitem exEI 0 true,
    .peekitem exEI 0 false,
    .getitem exEI 0 (.str [97]),
    .len ]

theorem exIOps_codec : HistCodec exEI.dumpsK exIOps := by
  intro op hop E hE
  simp only [exIOps, List.mem_cons, List.not_mem_nil, or_false] at hop
  rcases hop with rfl | rfl | rfl | rfl | rfl | rfl | rfl | rfl | rfl | rfl | rfl | rfl <;>
    first | (cases hE; exact exEI_codec) | cases hE

example : Index.outs exIndex exIOps = OSpec.outs [] exIndex.cache.cfg exIOps ∧
    IRefines (Index.run exIndex exIOps) (OSpec.run [] exIndex.cache.cfg exIOps) :=
  irun_refines exIndex [] exIOps (irefines_init _ _ rfl rfl).1 (irefines_init _ _ rfl rfl).2 (by decide)
    exEI.dumpsK exIOps_codec (keysRT_nil _)

/-- what the dictionary (hence the Index) returns along that history -/
example : OSpec.outs [] exIndex.cache.cfg exIOps =
    [.none, .none, .none, .val (.int 4),
     .list [.val (.str [97]), .val (.str [98]), .val (.str [99])],
     .none, .none,
     .list [.val (.str [98]), .val (.str [99]), .val (.str [97])],
     .tup [.val (.str [97]), .val (.int 5)],
     .tup [.val (.str [98]), .val (.int 2)],
     .exc "KeyError", .int 2] := by
  rfl

/-! ### the added hypotheses are necessary -/

/-- `hpg` is necessary: with page size 0 the iteration loop sees nothing, so `list(index)` of a
non-empty Index is empty (not a finding about the code — core.py pages by the constant 100, and
no call changes it) -/
theorem iter_irefines_needs_page :
    ∃ (x : Index) (m : ODict), IOk x ∧ IRefines x m ∧
      (x.iter exEI true).2 ≠ (OSpec.iter m exEI x.cache.cfg true).2 := by
  obtain ⟨hok0, hr0⟩ := irefines_init { policy := .none, page := 0 } false rfl rfl
  have hs := setitem_step _ [] exEI 0 (.str [97]) (.int 1) hok0 hr0
  refine ⟨_, _, hs.ok, hs.rel, ?_⟩
  have h1 : (((({ cache := { cfg := { policy := .none, page := 0 } } } : Index).setitem exEI 0
      (.str [97]) (.int 1)).1).iter exEI true).2 = .list [] := by rfl
  have h2 : (OSpec.iter (OSpec.setitem [] exEI ({ policy := .none, page := 0 } : Cfg) (.str [97]) (.int 1)).1 exEI
      ((({ cache := { cfg := { policy := .none, page := 0 } } } : Index).setitem exEI 0
      (.str [97]) (.int 1)).1).cache.cfg true).2 = .list [.val (.str [97])] := by rfl
  intro h
  rw [h1] at h
  have h3 := h.trans h2
  injection h3 with h4
  cases h4

/-- `hcodec` is necessary (`Index.popitem_end_needs_codec` in refinement form): a well-formed Index
whose only key is not the encoding of any Python key; the dictionary's `popitem` removes the
binding and returns the item, the model's raises KeyError (`del _cache[key]` does not find the key
read back), rolls its block back and leaves the row (not reachable through `Disk.put`) -/
theorem popitem_irefines_needs_codec :
    ∃ (x : Index) (m : ODict), IOk x ∧ IRefines x m ∧
      ¬ IRefines (x.popitem Cache.exE 0 true).1 (OSpec.popitem m Cache.exE x.cache.cfg true).1 := by
  have hgood : Good exIx.cache := by
    refine ⟨exIx_ok.inv, ⟨?_, ?_, ?_, ?_⟩, ?_, rfl, rfl, rfl, rfl⟩
    · intro r hr f hf
      simp only [exIx, List.mem_singleton] at hr
      subst hr
      simp [exBigRow] at hf
    · exact List.pairwise_singleton _ _
    · intro p hp; cases hp
    · exact List.nodup_nil
    · intro p hp; cases hp
  refine ⟨exIx, _, ⟨exIx_ok, hgood⟩, rfl, ?_⟩
  show ¬ (List.map _ _ = _)
  decide +kernel

/-- the Index of `popitem_end_needs_codec` is a quiescent, file-consistent Index -/
theorem exIx_iok : IOk exIx := by
  refine ⟨exIx_ok, exIx_ok.inv, ⟨?_, ?_, ?_, ?_⟩, ?_, rfl, rfl, rfl, rfl⟩
  · intro r hr f hf
    simp only [exIx, List.mem_singleton] at hr
    subst hr
    simp [exBigRow] at hf
  · exact List.pairwise_singleton _ _
  · intro p hp; cases hp
  · exact List.nodup_nil
  · intro p hp; cases hp

/-- the dictionary `exIx` represents: one binding, key 2^64 stored as an integer cell -/
def exIxDict : ODict := exIx.cache.rows.map (fun r => ((r.key, r.raw), entryOfRow exIx.cache r))

/-- `hcodec` is necessary for `items`: on the Index of `popitem_end_needs_codec` the look-up of the
key decoded from the only row misses: the model's view raises KeyError (as persistent.py:
`ItemsView.__iter__` evaluates `index[key]`), the dictionary shows the item -/
theorem items_irefines_needs_codec :
    ∃ (x : Index) (m : ODict), IOk x ∧ IRefines x m ∧
      (x.items Cache.exE 0).2 ≠ (OSpec.items m Cache.exE x.cache.cfg).2 := by
  refine ⟨exIx, exIxDict, exIx_iok, rfl, ?_⟩
  have h1 : (exIx.items Cache.exE 0).2 = .exc "KeyError" := by rfl
  have h2 : (OSpec.items exIxDict Cache.exE exIx.cache.cfg).2 =
      .list [.tup [.val (.int 18446744073709551616), .val (.int 0)]] := by rfl
  intro h
  rw [h1, h2] at h
  cases h

/-- `hcodec` is necessary for `values` (same Index) -/
theorem values_irefines_needs_codec :
    ∃ (x : Index) (m : ODict), IOk x ∧ IRefines x m ∧
      (x.values Cache.exE 0).2 ≠ (OSpec.values m Cache.exE x.cache.cfg).2 := by
  refine ⟨exIx, exIxDict, exIx_iok, rfl, ?_⟩
  have h1 : (exIx.values Cache.exE 0).2 = .exc "KeyError" := by rfl
  have h2 : (OSpec.values exIxDict Cache.exE exIx.cache.cfg).2 = .list [.val (.int 0)] := by
    rfl
  intro h
  rw [h1, h2] at h
  cases h

/-- `hcodec` is necessary for `==` and `!=`, against ordered and unordered mappings alike (same
Index): the model raises KeyError at the first look-up, the dictionary compares the pair (unequal) -/
theorem eqTo_irefines_needs_codec :
    ∃ (x : Index) (m : ODict) (other : List (PyVal × PyVal)), IOk x ∧ IRefines x m ∧
      ∀ ordered,
        (x.eqTo Cache.exE 0 ordered other).2 ≠ (OSpec.eqTo m Cache.exE x.cache.cfg ordered other).2 ∧
        (x.neTo Cache.exE 0 ordered other).2 ≠ (OSpec.neTo m Cache.exE x.cache.cfg ordered other).2 := by
  refine ⟨exIx, exIxDict, [(.int 18446744073709551616, .int 1)], exIx_iok, rfl, ?_⟩
  intro ordered
  have h1 : ∀ o, (exIx.eqTo Cache.exE 0 o [(.int 18446744073709551616, .int 1)]).2 = .exc "KeyError" := by
    intro o; cases o <;> rfl
  have h2 : ∀ o, (match (OSpec.eqTo exIxDict Cache.exE exIx.cache.cfg o
      [(.int 18446744073709551616, .int 1)]).2 with | .bool false => true | _ => false) = true := by
    intro o; cases o <;> decide +kernel
  have h3 : ∀ o, (exIx.neTo Cache.exE 0 o [(.int 18446744073709551616, .int 1)]).2 = .exc "KeyError" := by
    intro o; cases o <;> rfl
  have h4 : ∀ o, (match (OSpec.neTo exIxDict Cache.exE exIx.cache.cfg o
      [(.int 18446744073709551616, .int 1)]).2 with | .bool true => true | _ => false) = true := by
    intro o; cases o <;> decide +kernel
  refine ⟨?_, ?_⟩
  · intro h
    have := h2 ordered
    rw [← h, h1] at this
    cases this
  · intro h
    have := h4 ordered
    rw [← h, h3] at this
    cases this

/-- a second codec, lawful by itself, that disagrees with `exEI` on how keys are pickled -/
def exEI2 : Externals :=
  { exEI with dumpsK := fun k => 9 :: exEI.dumpsK k,
              loads := fun b => match b with | 9 :: t => exEI.loads t | _ => .none }

/-- the key-codec hypothesis of the history theorem must be an agreement between the calls
(`HistCodec`: one `D` for all), not a law of each call's codec by itself: `exEI` and `exEI2` each
invert their own key pickling, yet after `index[obj] = 1` under the first, `popitem()` under the
second raises KeyError and removes nothing, where the dictionary removes the item (an artefact of
per-call codec observations in the model, not of the code: one process pickles consistently) -/
theorem hist_codec_needs_agreement :
    (∀ k, exEI.loads (exEI.dumpsK k) = k) ∧ (∀ k, exEI2.loads (exEI2.dumpsK k) = k) ∧
    ¬ IRefines (Index.run exIndex [.setitem exEI 0 (.obj [7]) (.int 1), .popitem exEI2 0 true])
      (OSpec.run [] exIndex.cache.cfg [.setitem exEI 0 (.obj [7]) (.int 1), .popitem exEI2 0 true]) := by
  refine ⟨exEI_codec.2, fun k => exEI_codec.2 k, ?_⟩
  show ¬ (List.map _ _ = _)
  decide +kernel

/-! ### exceptions propagate (concrete instances) -/

/-- `index['a'] = '\ud800'`: the value cannot be stored (text with a lone surrogate) —
UnicodeEncodeError propagates from `Cache.set`, the Index is unchanged, and the dictionary call
raises the same exception and is unchanged -/
theorem setitem_propagates_error :
    (match (exIndex.setitem exEI 0 (.str [97]) (.str [0xD800])).2 with
      | .exc "UnicodeEncodeError" => true | _ => false) = true ∧
    (exIndex.setitem exEI 0 (.str [97]) (.str [0xD800])).1.cache.rows = [] ∧
    (match (OSpec.setitem [] exEI exIndex.cache.cfg (.str [97]) (.str [0xD800])).2 with
      | .exc "UnicodeEncodeError" => true | _ => false) = true ∧
    (OSpec.setitem [] exEI exIndex.cache.cfg (.str [97]) (.str [0xD800])).1 = [] ∧
    (match (exIndex.setitem exEI 0 (.str [0xD800]) (.int 1)).2 with
      | .exc "UnicodeEncodeError" => true | _ => false) = true := by
  decide +kernel

/-- `index.update([('a', 1), ('b', '\ud800'), ('c', 3)])`: `a` is assigned, the assignment to `b`
raises UnicodeEncodeError, which propagates; `c` is never assigned.  Model and dictionary agree. -/
theorem update_propagates_error :
    (match (exIndex.update exEI 0 [(.str [97], .int 1), (.str [98], .str [0xD800]), (.str [99], .int 3)]).2 with
      | .exc "UnicodeEncodeError" => true | _ => false) = true ∧
    (exIndex.update exEI 0 [(.str [97], .int 1), (.str [98], .str [0xD800]), (.str [99], .int 3)]).1.cache.rows.map
      (·.key) = [.text [97]] ∧
    (match (OSpec.update [] exEI exIndex.cache.cfg
        [(.str [97], .int 1), (.str [98], .str [0xD800]), (.str [99], .int 3)]).2 with
      | .exc "UnicodeEncodeError" => true | _ => false) = true ∧
    (OSpec.update [] exEI exIndex.cache.cfg
        [(.str [97], .int 1), (.str [98], .str [0xD800]), (.str [99], .int 3)]).1.keys = [(.text [97], true)] ∧
    (match (exIndex.update exEI 0 [(.str [97], .int 1), (.str [99], .int 3)]).2 with
      | .none => true | _ => false) = true := by
  decide +kernel

/-- `popitem()` on the Index of `popitem_end_needs_codec` (its only key is not the encoding of any
Python key): `del _cache[key]` does not find the key read back — KeyError propagates, the block is
rolled back (the row stays, no transaction left open) -/
theorem popitem_propagates_error :
    (match (exIx.popitem Cache.exE 0 true).2 with | .exc "KeyError" => true | _ => false) = true ∧
    (exIx.popitem Cache.exE 0 true).1.cache.rows = exIx.cache.rows ∧
    (exIx.popitem Cache.exE 0 true).1.cache.depth = 0 ∧
    (exIx.popitem Cache.exE 0 true).1.cache.snap.isNone = true := by
  decide +kernel

/-- `index.setdefault('b', '\ud800')` on an Index holding `a`: the key is missing, `add` cannot
store the default (text with a lone surrogate) — UnicodeEncodeError propagates out of the block,
which is rolled back (rows unchanged, no transaction left open, no snapshot); the dictionary call
raises the same exception and is unchanged.  A key that cannot be bound raises likewise.  On the
present key `a` the value is returned and nothing raises, whatever the default. -/
theorem setdefault_propagates_error :
    let x := (exIndex.setitem exEI 0 (.str [97]) (.int 1)).1
    let m := (OSpec.setitem [] exEI exIndex.cache.cfg (.str [97]) (.int 1)).1
    (match (x.setdefault exEI 1 (.str [98]) (.str [0xD800])).2 with
      | .exc "UnicodeEncodeError" => true | _ => false) = true ∧
    (x.setdefault exEI 1 (.str [98]) (.str [0xD800])).1.cache.rows = x.cache.rows ∧
    (x.setdefault exEI 1 (.str [98]) (.str [0xD800])).1.cache.depth = 0 ∧
    (x.setdefault exEI 1 (.str [98]) (.str [0xD800])).1.cache.snap.isNone = true ∧
    (match (OSpec.setdefault m exEI exIndex.cache.cfg (.str [98]) (.str [0xD800])).2 with
      | .exc "UnicodeEncodeError" => true | _ => false) = true ∧
    (OSpec.setdefault m exEI exIndex.cache.cfg (.str [98]) (.str [0xD800])).1 = m ∧
    (match (x.setdefault exEI 1 (.str [0xD800]) (.int 2)).2 with
      | .exc "UnicodeEncodeError" => true | _ => false) = true ∧
    (match (x.setdefault exEI 1 (.str [97]) (.str [0xD800])).2 with
      | .val (.int 1) => true | _ => false) = true ∧
    (x.setdefault exEI 1 (.str [97]) (.str [0xD800])).1.cache.rows = x.cache.rows ∧
    (match (x.setdefault exEI 1 (.str [98]) (.int 2)).2 with | .val (.int 2) => true | _ => false) = true ∧
    (x.setdefault exEI 1 (.str [98]) (.int 2)).1.cache.rows.length = 2 := by
  decide +kernel

end DC.Index
