/-
C01 — stored values come back identical, whatever their type, size or storage path.

`place` is `Disk.store`'s decision (inline cell or value file, by type and by
size against `disk_min_file_size`); `fetch` is `Disk.fetch`.  The theorems hold
for EVERY threshold `mfs` (so both sides of it), every lawful pickle/json codec
(so every protocol), every value including NaN payloads, -0.0, infinities, NUL,
CR/LF, astral and lone-surrogate code points, and every length.
-/
import DC.Proofs.Files

namespace DC

/-- what a later look-up reads back from where `store` put the value -/
def fetchPlaced (E : Externals) (d : DiskKind) (p : Placement) (read : Bool) : Fetched :=
  match p with
  | .inline mode sv => fetch E d mode none false sv read
  | .file mode c => fetch E d mode (some c) true .null read

/-- `fetch (store v) = v` under `Disk` (pickle), any threshold, any value -/
theorem fetch_store (E : Externals) (hE : Lawful E) (mfs : Nat) (v : PyVal) (p : Placement)
    (h : place E .pickle mfs v false = .ok p) : fetchPlaced E .pickle p false = .val v := by
  have hl := hE.loads_dumpsV
  cases v <;> simp only [place, Disk.place] at h <;> (repeat' split at h) <;> cases h <;>
    simp_all [fetchPlaced, fetch, Disk.fetch, MODE_RAW, MODE_BINARY, MODE_TEXT, MODE_PICKLE, column, Content.bytes]

/-- `fetch (store v) = v` under `JSONDisk` for JSON-representable values (those the
json+zlib codec round-trips: `Lawful.unjsonz_jsonz`) -/
theorem fetch_store_json (E : Externals) (hE : Lawful E) (mfs : Nat) (v : PyVal) (p : Placement)
    (h : place E .json mfs v false = .ok p) : fetchPlaced E .json p false = .val v := by
  have hl := hE.unjsonz_jsonz
  simp only [place, Disk.place] at h
  (repeat' split at h) <;> cases h <;>
    simp_all [fetchPlaced, fetch, Disk.fetch, MODE_RAW, MODE_BINARY, column, Content.bytes]

/-- a binary stream stored with read=True comes back byte for byte: as a handle with
read=True (both disks), as bytes otherwise (pickle disk) -/
theorem fetch_store_stream (E : Externals) (d : DiskKind) (mfs : Nat) (b : Bytes) (p : Placement)
    (h : place E d mfs (.bytes b) true = .ok p) :
    fetchPlaced E d p true = .handle b ∧ fetchPlaced E .pickle p false = .val (.bytes b) := by
  cases d <;> simp [place, Disk.place] at h <;> subst h <;>
    simp [fetchPlaced, fetch, Disk.fetch, MODE_RAW, MODE_BINARY, Content.bytes]

/-- the only values `store` rejects are strings that must go to a text file but contain a
code point UTF-8 cannot encode (a lone surrogate) -/
theorem place_error_iff (E : Externals) (mfs : Nat) (v : PyVal) :
    (∃ e, place E .pickle mfs v false = .error e) ↔
      (∃ s, v = .str s ∧ mfs ≤ s.length ∧ (utf8enc s).isSome = false) := by
  cases v <;> simp only [place, Disk.place] <;> (repeat' split) <;> simp_all
  · intro h1; omega
  · rename_i h; intro h2; rw [h2] at h; cases h
  · exact ⟨.unicode, trivial⟩

namespace Cache

/-- a value that cannot be stored is rejected and nothing changes: no row, no file, no trace
of a transaction (fix D3 removed the partial file the pinned tree left behind) -/
theorem set_rejects (s : Cache) (E : Externals) (now : Int) (k v : PyVal) (ttl : Option Int)
    (read : Bool) (tag : SqlVal) (e : StoreErr)
    (h : place E s.cfg.disk s.cfg.minFileSize v read = .error e) :
    s.set E now k v ttl read tag = (s, .exc "UnicodeEncodeError") := by
  simp [set, store, h]

/-- every accessor decodes a row with the same `fetch`: what `get` returns for a key is
`fetch` of the live row of that key (lock-free path) -/
theorem get_is_fetch (s : Cache) (E : Externals) (now : Int) (k : PyVal) (r : Row)
    (hfast : s.statistics = false ∧ policyUpdates s.cfg.policy = false)
    (hr : s.selLive (DC.put E s.cfg.disk k).1 (DC.put E s.cfg.disk k).2 now = some r) :
    (s.get E now k false false false).2 =
      (match (s.fetchRow E r false).2 with
       | .ioerror => .default
       | f => fetchedOut f) := by
  unfold get
  simp only [hfast.1, hfast.2, hr]
  rw [if_pos (by rfl)]
  rw [fetchRow_snd_congr (s.logSql "selLive") s E r false rfl rfl]
  cases (s.fetchRow E r false).2 <;> simp [withFlags, defaultFlags]

/-- the row `set` writes carries exactly the placement `store` chose (value cell or the
fresh file with the value's bytes), so together with `fetch_store` every later look-up that
finds the row returns the value that was stored -/
theorem get_after_set (s : Cache) (E : Externals) (hE : Lawful E) (now now' : Int) (k v : PyVal)
    (ttl : Option Int) (tag : SqlVal) (hg : Good s) (hd : s.cfg.disk = .pickle)
    (hfast : s.statistics = false ∧ policyUpdates s.cfg.policy = false)
    (hfound : ((s.set E now k v ttl false tag).1.selLive (DC.put E s.cfg.disk k).1 (DC.put E s.cfg.disk k).2 now').isSome)
    (hok : (s.set E now k v ttl false tag).2 = .bool true) :
    ((s.set E now k v ttl false tag).1.get E now' k false false false).2 = .val v := by
  have hP := hg.pi
  have hPS := set_PI s E now k v ttl false tag hP
  have hS := set_eq s E now k v ttl false tag
  generalize s.set E now k v ttl false tag = S at *
  cases hst : s.store E v false with
  | error e =>
    rw [hst] at hS; simp only at hS; subst hS; cases hok
  | ok p =>
    obtain ⟨s1, c⟩ := p
    rw [hst] at hS; simp only at hS
    obtain ⟨hP1, hfile⟩ := store_PI hst hP
    obtain ⟨hrows1, hcfg1, -, -, hstat1⟩ := store_keep hst
    have hd1 := hP1.depth
    simp only [core_depth] at hd1
    subst hS
    rw [transact_snd _ _ _ hd1] at hok
    obtain ⟨hbok, R, hcR, hR⟩ := setBody_true _ _ _ _ _ hok
    have hc := transact_ok_core s1 _ c.file hd1 hbok
    rw [hcR] at hc
    simp only [core_log, core_files] at hc
    generalize (s1.transact (setBody (DC.put E s.cfg.disk k).1 (DC.put E s.cfg.disk k).2 now
      { c with expT := ttl.map (now + ·), tag := tag }) c.file).1 = S1 at *
    have hrows : S1.rows = R := congrArg Core.rows hc
    have hcfg : S1.cfg = s.cfg := (congrArg Core.cfg hc).trans hcfg1
    have hstat : S1.statistics = s.statistics := (congrArg Core.statistics hc).trans hstat1
    have hfiles := congrArg Core.files hc
    simp only [core_files] at hfiles
    -- the row found
    obtain ⟨r, hr⟩ := Option.isSome_iff_exists.1 hfound
    have hrm : r ∈ S1.rows := selLive_mem hr
    have hrk : keyMatch (DC.put E s.cfg.disk k).1 (DC.put E s.cfg.disk k).2 r = true := by
      have := List.find?_some hr
      simp only [Bool.and_eq_true] at this
      exact this.1
    have hrS : r ∈ setRows (DC.put E s.cfg.disk k).1 (DC.put E s.cfg.disk k).2 now
        { c with expT := ttl.map (now + ·), tag := tag } (s1.log .begin) := hR r (hrows ▸ hrm)
    have hu : KeysUnique (s1.log .begin).rows := by
      show KeysUnique s1.rows
      rw [hrows1]; exact hg.tinv.tbl.uniq
    obtain ⟨hmode, hfile', hval⟩ := setRows_match hu hrS hrk
    simp only at hmode hfile' hval
    -- `get` is `fetch` of that row
    have hgf := get_is_fetch S1 E now' k r (by rw [hstat, hcfg]; exact hfast) (by rw [hcfg]; exact hr)
    rw [hgf]
    suffices hfr : (S1.fetchRow E r false).2 = .val v by rw [hfr]; rfl
    unfold store at hst
    rw [hd] at hst
    split at hst
    · cases hst
    · rename_i mode sv hpl
      cases hst
      simp only at hmode hfile' hval
      have := fetch_store E hE _ v _ hpl
      unfold fetchRow
      rw [hfile']
      simp only [hcfg, hd, hmode, hval]
      exact this
    · rename_i mode ct hpl
      cases hst
      simp only at hmode hfile' hval
      have := fetch_store E hE _ v _ hpl
      have hget : S1.fileGet s.nfile = some ct := by
        obtain ⟨-, ct', h1, -⟩ := hPS.ref r hrm s.nfile hfile'
        simp only [core_files] at h1
        have h2 : (s.nfile, ct') ∈ (s.fwrite ct).1.files := by
          rw [hfiles] at h1; exact (List.mem_filter.1 h1).1
        have h3 : (s.nfile, ct) ∈ (s.fwrite ct).1.files := by simp [fwrite]
        have hn1 : ((s.fwrite ct).1.files.map (·.1)).Nodup := hP1.nodup
        have e1 := fileGet_of_mem hn1 h2
        have e2 := fileGet_of_mem hn1 h3
        rw [e1] at e2
        cases e2
        exact fileGet_of_mem hPS.nodup h1
      unfold fetchRow
      rw [hfile']
      simp only [hmode, hval]
      split <;> (simp only [log_cfg, log_fileGet, hcfg, hd, hget]; exact this)

end Cache

/-- non-vacuity: a toy codec satisfying `Lawful`, and the values the statement names -/
def toyV : Externals :=
  { dumpsK := fun _ => [], dumpsV := fun v => match v with
      | .none => [0] | .int i => [1, i.toNat, (-i).toNat] | .float f => [2, f]
      | .str s => 3 :: s | .bytes b => 4 :: b | .obj o => 5 :: o,
    loads := fun b => match b with
      | [0] => .none | [1, p, n] => .int ((p : Int) - n) | [2, f] => .float f
      | 3 :: s => .str s | 4 :: b => .bytes b | 5 :: o => .obj o | _ => .none,
    jsonz := fun _ => [], unjsonz := fun _ => .none }

example : place toyV .pickle 4 (.float 0x7ff8000000000001) false = .ok (.inline MODE_PICKLE (.blob [2, 0x7ff8000000000001])) := by
  rfl
example : fetchPlaced toyV .pickle (.inline MODE_PICKLE (.blob [2, 0x7ff8000000000001])) false = .val (.float 0x7ff8000000000001) := by
  decide +kernel
example : fetchPlaced toyV .pickle (.file MODE_TEXT (.text [97, 13, 10, 13, 0x1F600])) false = .val (.str [97, 13, 10, 13, 0x1F600]) := by
  decide +kernel
example : place toyV .pickle 2 (.str [97, 0xD800, 98]) false = .error .unicode := by rfl

end DC
