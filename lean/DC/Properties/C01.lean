/-
C01 — stored values come back identical, whatever their type, size or storage path.

`place` is `Disk.store`'s decision (inline cell or value file, by type and by
size against `disk_min_file_size`); `fetch` is `Disk.fetch`.  The theorems hold
for EVERY threshold `mfs` (so both sides of it), every lawful pickle/json codec
(so every protocol), every value including NaN payloads, -0.0, infinities, NUL,
CR/LF, astral and lone-surrogate code points, and every length.
-/
import DC.Proofs.Files

namespace DC

/-- what a later look-up reads back from where `store` put the value -/
def fetchPlaced (E : Externals) (d : DiskKind) (p : Placement) (read : Bool) : Fetched :=
  match p with
  | .inline mode sv => fetch E d mode none false sv read
  | .file mode c => fetch E d mode (some c) true .null read

/-- `fetch (store v) = v` under `Disk` (pickle), any threshold, any value -/
theorem fetch_store (E : Externals) (hE : Lawful E) (mfs : Nat) (v : PyVal) (p : Placement)
    (h : place E .pickle mfs v false = .ok p) : fetchPlaced E .pickle p false = .val v := by
  sorry

/-- `fetch (store v) = v` under `JSONDisk` for JSON-representable values (those the
json+zlib codec round-trips: `Lawful.unjsonz_jsonz`) -/
theorem fetch_store_json (E : Externals) (hE : Lawful E) (mfs : Nat) (v : PyVal) (p : Placement)
    (h : place E .json mfs v false = .ok p) : fetchPlaced E .json p false = .val v := by
  sorry

/-- a binary stream stored with read=True comes back byte for byte: as a handle with
read=True (both disks), as bytes otherwise (pickle disk) -/
theorem fetch_store_stream (E : Externals) (d : DiskKind) (mfs : Nat) (b : Bytes) (p : Placement)
    (h : place E d mfs (.bytes b) true = .ok p) :
    fetchPlaced E d p true = .handle b ∧ fetchPlaced E .pickle p false = .val (.bytes b) := by
  sorry

/-- the only values `store` rejects are strings that must go to a text file but contain a
code point UTF-8 cannot encode (a lone surrogate) -/
theorem place_error_iff (E : Externals) (mfs : Nat) (v : PyVal) :
    (∃ e, place E .pickle mfs v false = .error e) ↔
      (∃ s, v = .str s ∧ mfs ≤ s.length ∧ (utf8enc s).isSome = false) := by
  sorry

namespace Cache

/-- a value that cannot be stored is rejected and nothing changes: no row, no file, no trace
of a transaction (fix D3 removed the partial file the pinned tree left behind) -/
theorem set_rejects (s : Cache) (E : Externals) (now : Int) (k v : PyVal) (ttl : Option Int)
    (read : Bool) (tag : SqlVal) (e : StoreErr)
    (h : place E s.cfg.disk s.cfg.minFileSize v read = .error e) :
    s.set E now k v ttl read tag = (s, .exc "UnicodeEncodeError") := by
  sorry

/-- every accessor decodes a row with the same `fetch`: what `get` returns for a key is
`fetch` of the live row of that key (lock-free path) -/
theorem get_is_fetch (s : Cache) (E : Externals) (now : Int) (k : PyVal) (r : Row)
    (hfast : s.statistics = false ∧ policyUpdates s.cfg.policy = false)
    (hr : s.selLive (DC.put E s.cfg.disk k).1 (DC.put E s.cfg.disk k).2 now = some r) :
    (s.get E now k false false false).2 =
      (match (s.fetchRow E r false).2 with
       | .ioerror => .default
       | f => fetchedOut f) := by
  sorry

/-- the row `set` writes carries exactly the placement `store` chose (value cell or the
fresh file with the value's bytes), so together with `fetch_store` every later look-up that
finds the row returns the value that was stored -/
theorem get_after_set (s : Cache) (E : Externals) (hE : Lawful E) (now now' : Int) (k v : PyVal)
    (ttl : Option Int) (tag : SqlVal) (hg : Good s) (hd : s.cfg.disk = .pickle)
    (hfast : s.statistics = false ∧ policyUpdates s.cfg.policy = false)
    (hfound : ((s.set E now k v ttl false tag).1.selLive (DC.put E s.cfg.disk k).1 (DC.put E s.cfg.disk k).2 now').isSome)
    (hok : (s.set E now k v ttl false tag).2 = .bool true) :
    ((s.set E now k v ttl false tag).1.get E now' k false false false).2 = .val v := by
  sorry

end Cache

/-- non-vacuity: a toy codec satisfying `Lawful`, and the values the statement names -/
def toyV : Externals :=
  { dumpsK := fun _ => [], dumpsV := fun v => match v with
      | .none => [0] | .int i => [1, i.toNat, (-i).toNat] | .float f => [2, f]
      | .str s => 3 :: s | .bytes b => 4 :: b | .obj o => 5 :: o,
    loads := fun b => match b with
      | [0] => .none | [1, p, n] => .int ((p : Int) - n) | [2, f] => .float f
      | 3 :: s => .str s | 4 :: b => .bytes b | 5 :: o => .obj o | _ => .none,
    jsonz := fun _ => [], unjsonz := fun _ => .none }

example : place toyV .pickle 4 (.float 0x7ff8000000000001) false = .ok (.inline MODE_PICKLE (.blob [2, 0x7ff8000000000001])) := by
  rfl
example : fetchPlaced toyV .pickle (.inline MODE_PICKLE (.blob [2, 0x7ff8000000000001])) false = .val (.float 0x7ff8000000000001) := by
  decide +kernel
example : fetchPlaced toyV .pickle (.file MODE_TEXT (.text [97, 13, 10, 13, 0x1F600])) false = .val (.str [97, 13, 10, 13, 0x1F600]) := by
  decide +kernel
example : place toyV .pickle 2 (.str [97, 0xD800, 98]) false = .error .unicode := by rfl

end DC
