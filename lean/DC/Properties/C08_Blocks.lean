/-
C08 for histories WITH transaction blocks.

The full statement ("after ANY history that ends outside every block the check is quiet") is
FALSE in the model, and in the real code (witness below, replayed on /repo):
* D9b: a call that fails inside a block after writing its value file (caught by the caller),
  block then COMMITS: the file stays, no row refers to it (`block_commit_leaks`).
A second way was finding D24: `incr` wrote its value file INSIDE its transaction body without
registering it, so an ABORTED block left the file.  Fixed in /repo (bbcbe5d) and in the model
(`Cache.regCreated`); the former witness `block_abort_leaks_incr` is now `block_abort_incr_clean`,
and aborted blocks of covered calls need no side condition (`block_abort_clean`).
Positive theorems: a flat block of calls, committed or aborted, maps `Good` to `Good` provided the
state at the end of the block satisfies the corresponding side condition (`NoLeak` / `Registered`,
both decidable on concrete states, both necessary by the witnesses).
-/
import DC.Properties.C08_Check
import DC.Proofs.BlockOps

namespace DC.Cache

open DC.Check (St)

/-- the calls covered inside a block -/
def Op.inBlock : Op → Bool
  | .set .. | .add .. | .touch .. | .incr .. | .get .. | .contains .. | .pop .. | .delitem .. | .delete ..
  | .push .. | .pull .. | .peek .. | .peekitem .. | .clear | .evict .. | .expire .. | .cull ..
  | .iter .. | .iterkeys .. | .len | .stats .. | .observe .. => true
  | _ => false

theorem Op.inBlock_flat {op : Op} (h : op.inBlock = true) : op.flat = true := by
  cases op <;> simp_all [Op.inBlock, Op.flat]

/-- every file created in the block that is still unreferenced at its end is scheduled for
removal (fails exactly in the situation of D9b) -/
def NoLeak (x : Cache) : Prop :=
  ∀ f ∈ x.created, some f ∈ x.pending ∨ ∃ r ∈ x.rows, r.file = some f

/-- no row refers to a file scheduled for removal.  Now part of the block invariant
(`block_pendRef`: file numbers pending removal are below the allocation counter, so the next file
written is never one of them); no longer a hypothesis of any theorem. -/
def PendRef (x : Cache) : Prop :=
  ∀ r ∈ x.rows, ∀ f, r.file = some f → some f ∉ x.pending

/-- every file written since the block began is registered for removal on rollback (failed for
`incr` before fix D24; now a theorem for the covered calls: `block_registered`) -/
def Registered (s x : Cache) : Prop :=
  ∀ p ∈ x.files, p ∈ s.files ∨ p.1 ∈ x.created

theorem step_BI {x : Cache} (hd : 0 < x.depth) (op : Op) (hin : op.inBlock = true) (h : BI x) :
    BI (x.step op).1 := by
  cases op <;> simp only [Op.inBlock, Bool.false_eq_true] at hin <;> simp only [step]
  · exact set_BI hd h _ _ _ _ _ _ _
  · exact add_BI hd h _ _ _ _ _ _ _
  · exact touch_BI hd h _ _ _ _
  · exact incr_BI hd h _ _ _ _ _
  · exact get_BI hd h _ _ _ _ _ _
  · exact contains_BI h _ _ _
  · exact pop_BI hd h _ _ _ _ _
  · exact delitem_BI hd h _ _ _
  · exact delete_BI hd h _ _ _
  · exact push_BI hd h _ _ _ _ _ _ _ _
  · exact (pull_BG hd h _ _ _ _ _ _).bi
  · exact (peek_BG hd h _ _ _ _ _ _).bi
  · exact (peekitem_BG hd h _ _ _ _ _).bi
  · exact (clear_BG hd h).bi
  · exact (evict_BG hd h _).bi
  · exact (expire_BG hd h _).bi
  · exact (cull_BG hd h _).bi
  · exact iter_BI h _ _
  · exact iterkeys_BI h _ _
  · exact len_BI h
  · exact stats_BI h _ _
  · exact h.same rfl rfl rfl rfl rfl

/-- every file a covered call writes inside a block is registered as created -/
theorem step_grow {x : Cache} (hd : 0 < x.depth) (op : Op) (hin : op.inBlock = true) :
    Grow x (x.step op).1 := by
  cases op <;> simp only [Op.inBlock, Bool.false_eq_true] at hin <;> simp only [step]
  · exact set_grow hd _ _ _ _ _ _ _
  · exact add_grow hd _ _ _ _ _ _ _
  · exact touch_grow hd _ _ _ _
  · exact incr_grow hd _ _ _ _ _
  · exact get_grow hd _ _ _ _ _ _
  · exact Grow.of_core rfl
  · exact pop_grow hd _ _ _ _ _
  · exact delitem_grow hd _ _ _
  · exact delete_grow hd _ _ _
  · exact push_grow hd _ _ _ _ _ _ _ _
  · exact pull_grow hd _ _ _ _ _ _
  · exact peek_grow hd _ _ _ _ _ _
  · exact peekitem_grow hd _ _ _ _ _
  · exact clear_grow hd
  · exact evict_grow hd _
  · exact expire_grow hd _
  · exact cull_grow hd _
  · exact Grow.of_core (iter_core x _ _)
  · exact Grow.of_core (iterkeys_core x _ _)
  · exact Grow.of_core rfl
  · refine Grow.of_eq ?_ ?_ <;> (simp only [stats]; split <;> rfl)
  · exact Grow.of_eq rfl rfl

theorem run_grow {x : Cache} (hd : 0 < x.depth) (ops : List Op) (hin : ∀ op ∈ ops, op.inBlock = true) :
    Grow x (x.run ops) := by
  induction ops generalizing x with
  | nil => exact Grow.refl x
  | cons op ops ih =>
    have hop := hin op List.mem_cons_self
    have hb := step_blk (Blk.refl hd) op (Op.inBlock_flat hop)
    exact (step_grow hd op hop).trans
      (ih (by rw [hb.depth]; exact hd) (fun o ho => hin o (List.mem_cons_of_mem _ ho)))

theorem run_BI {x : Cache} (hd : 0 < x.depth) (ops : List Op) (hin : ∀ op ∈ ops, op.inBlock = true)
    (h : BI x) : BI (x.run ops) := by
  induction ops generalizing x with
  | nil => exact h
  | cons op ops ih =>
    have hop := hin op List.mem_cons_self
    have hb := step_blk (Blk.refl hd) op (Op.inBlock_flat hop)
    exact ih (by rw [hb.depth]; exact hd) (fun o ho => hin o (List.mem_cons_of_mem _ ho))
      (step_BI hd op hop h)

theorem tbegin_eq {s : Cache} (hd : s.depth = 0) :
    s.tbegin = { (s.log .begin) with depth := 1, snap := some s.takeSnap, pending := [], created := [] } := by
  unfold tbegin; rw [if_pos (by simp [hd])]

theorem tbegin_BI {s : Cache} (hg : Good s) : BI s.tbegin := by
  refine ⟨[], ?_, ⟨(fun f hf => by cases hf), ?_⟩⟩
  · have : fcore s.tbegin = core s := by
      rw [tbegin_eq hg.depth]
      simp only [fcore, qz, core, log, hg.depth, hg.snap, hg.pending, hg.created]
    rw [this]; exact hg.pi
  · intro f hf
    rw [tbegin_eq hg.depth] at hf
    cases hf

/-- the state at the end of a flat block of covered calls: the facts used below -/
theorem block_end {s : Cache} (hg : Good s) (ops : List Op) (hin : ∀ op ∈ ops, op.inBlock = true) :
    BI (s.tbegin.run ops) ∧ Blk s.tbegin (s.tbegin.run ops) ∧ (s.tbegin.run ops).depth = 1 ∧
    (s.tbegin.run ops).snap = some s.takeSnap := by
  have hb := tbegin_eq hg.depth
  have hd : 0 < s.tbegin.depth := by rw [hb]; exact Nat.one_pos
  have h := run_blk (Blk.refl hd) ops (fun op ho => Op.inBlock_flat (hin op ho))
  exact ⟨run_BI hd ops hin (tbegin_BI hg), h, by rw [h.depth, hb], by rw [h.snap, hb]⟩

/-- at the end of a flat block of covered calls no row refers to a file pending removal -/
theorem block_pendRef (s : Cache) (hg : Good s) (ops : List Op) (hin : ∀ op ∈ ops, op.inBlock = true) :
    PendRef (s.tbegin.run ops) := by
  obtain ⟨⟨cl, hP, hS⟩, -, -, -⟩ := block_end hg ops hin
  intro r hr f hf hp
  exact (hP.ref r hr f hf).1 (hS.pend f hp).1

/-- a flat block that COMMITS keeps `Good`, if nothing leaked (`NoLeak`, necessary: D9b) -/
theorem block_commit_good (s : Cache) (hg : Good s) (ops : List Op)
    (hin : ∀ op ∈ ops, op.inBlock = true)
    (hnl : NoLeak (s.tbegin.run ops)) :
    Good (s.tbegin.run ops).tend := by
  have hpr := block_pendRef s hg ops hin
  obtain ⟨⟨cl, hP, hS⟩, -, hd1, -⟩ := block_end hg ops hin
  have hti : TableInv (s.tbegin.run ops).tend := tend_inv _ (run_inv _ ops (tbegin_inv _ hg.tinv))
  generalize s.tbegin.run ops = x at *
  apply good_of_pi hti
  have hc : core x.tend = { fcore x with files := x.files.filter (fun p => !x.pending.contains (some p.1)) } := by
    rw [tend_one x hd1]
    show ({ core (Cache.fremoveAll _ _) with pending := [], created := [] } : Core) = _
    rw [core_fremoveAll]
    rfl
  rw [hc]
  constructor
  · exact hP.uid
  · intro r hr f hf
    obtain ⟨-, ct, h1, h2⟩ := hP.ref r hr f hf
    refine ⟨by simp, ct, List.mem_filter.2 ⟨h1, ?_⟩, h2⟩
    have := hpr r hr f hf
    simpa using this
  · exact hP.inj
  · intro p hp; exact hP.fresh p (List.mem_filter.1 hp).1
  · exact hP.nodup.sublist (List.filter_sublist.map _)
  · intro p hp
    obtain ⟨hp1, hp2⟩ := List.mem_filter.1 hp
    have hnp : some p.1 ∉ x.pending := by simpa using hp2
    rcases hP.orphan p hp1 with h1 | h1
    · exact .inl h1
    · rcases hS.inn p.1 h1 with h2 | h2
      · exact absurd h2 hnp
      · rcases hnl p.1 h2 with h3 | h3
        · exact absurd h3 hnp
        · exact .inl h3
  · rfl
  · rfl
  · rfl
  · rfl

/-- a flat block that ABORTS (an exception leaves it: `traise n`, `n ≥ 1`) keeps `Good`, if every
file written in the block was registered (`Registered`) -/
theorem block_abort_good (s : Cache) (hg : Good s) (ops : List Op)
    (hin : ∀ op ∈ ops, op.inBlock = true) (n : Nat) (hn : 1 ≤ n)
    (hreg : Registered s (s.tbegin.run ops)) :
    Good ((s.tbegin.run ops).traise n) := by
  obtain ⟨⟨cl, hP, hS⟩, hblk, hd1, hsnap⟩ := block_end hg ops hin
  have hti : TableInv ((s.tbegin.run ops).traise n) :=
    traise_inv _ n (run_inv _ ops (tbegin_inv _ hg.tinv))
  have hb := tbegin_eq hg.depth
  have hold : ∀ p ∈ s.files, p ∈ (s.tbegin.run ops).files := by
    intro p hp; apply hblk.files; rw [hb]; exact hp
  have hcr : ∀ f ∈ (s.tbegin.run ops).created, s.nfile ≤ f := by
    intro f hf
    rcases hblk.created f hf with h1 | h1
    · rw [hb] at h1; cases h1
    · rw [hb] at h1; exact h1
  generalize s.tbegin.run ops = x at *
  apply good_of_pi hti
  have hc : core (x.traise n) = { ({ fcore x with rows := s.rows } : Core) with
      files := x.files.filter (fun p => !((x.created.map Option.some).contains (Option.some p.1))) } := by
    rw [traise_outer x n s.takeSnap (by omega) (by omega) hsnap]
    show ({ core (Cache.fremoveAll _ _) with pending := [], created := [] } : Core) = _
    rw [core_fremoveAll]
    rfl
  rw [hc]
  have hgp := hg.pi
  constructor
  · exact hgp.uid
  · intro r hr f hf
    obtain ⟨-, ct, h1, h2⟩ := hgp.ref r hr f hf
    refine ⟨by simp, ct, List.mem_filter.2 ⟨hold _ h1, ?_⟩, h2⟩
    have hlt := hgp.fresh _ h1
    have hnm : f ∉ x.created := by
      intro hm
      have := hcr f hm
      simp only [core_nfile] at hlt
      omega
    simpa [List.mem_map] using hnm
  · exact hgp.inj
  · intro p hp; exact hP.fresh p (List.mem_filter.1 hp).1
  · exact hP.nodup.sublist (List.filter_sublist.map _)
  · intro p hp
    obtain ⟨hp1, hp2⟩ := List.mem_filter.1 hp
    have hnc : p.1 ∉ x.created := by
      simpa [List.mem_map] using hp2
    rcases hreg p hp1 with h1 | h1
    · exact .inl (hg.noOrphan p h1)
    · exact absurd h1 hnc
  · rfl
  · rfl
  · rfl
  · rfl

/-- `Registered` holds at the end of every flat block of covered calls (since fix D24 `incr` is one
of them): every file written in the block is registered for removal on rollback -/
theorem block_registered (s : Cache) (hg : Good s) (ops : List Op) (hin : ∀ op ∈ ops, op.inBlock = true) :
    Registered s (s.tbegin.run ops) := by
  have hb := tbegin_eq hg.depth
  have hd : 0 < s.tbegin.depth := by rw [hb]; exact Nat.one_pos
  have h := run_grow hd ops hin
  intro p hp
  rcases h.files p hp with h1 | h1
  · left; rw [hb] at h1; exact h1
  · exact .inr h1

/-- a flat block of covered calls that ABORTS keeps `Good`: no side condition -/
theorem block_abort_clean (s : Cache) (hg : Good s) (ops : List Op)
    (hin : ∀ op ∈ ops, op.inBlock = true) (n : Nat) (hn : 1 ≤ n) :
    Good ((s.tbegin.run ops).traise n) :=
  block_abort_good s hg ops hin n hn (block_registered s hg ops hin)

/-! ### the check model on the state after a block -/

/-- C08 after a committed flat block: the only side condition is `NoLeak` -/
theorem block_commit_check_quiet (s : Cache) (hg : Good s) (ops : List Op)
    (hin : ∀ op ∈ ops, op.inBlock = true)
    (hnl : NoLeak (s.tbegin.run ops))
    (st : St) (ho : Observes (s.tbegin.run ops).tend st) : CheckQuiet st :=
  good_check_quiet _ st (block_commit_good s hg ops hin hnl) ho

/-- the earlier statements, with the hypothesis `PendRef` that is no longer needed -/
theorem block_commit_good_partial (s : Cache) (hg : Good s) (ops : List Op)
    (hin : ∀ op ∈ ops, op.inBlock = true)
    (hnl : NoLeak (s.tbegin.run ops)) (_hpr : PendRef (s.tbegin.run ops)) :
    Good (s.tbegin.run ops).tend := block_commit_good s hg ops hin hnl

theorem block_commit_check_quiet_partial (s : Cache) (hg : Good s) (ops : List Op)
    (hin : ∀ op ∈ ops, op.inBlock = true)
    (hnl : NoLeak (s.tbegin.run ops)) (_hpr : PendRef (s.tbegin.run ops))
    (st : St) (ho : Observes (s.tbegin.run ops).tend st) : CheckQuiet st :=
  block_commit_check_quiet s hg ops hin hnl st ho

theorem block_abort_check_quiet (s : Cache) (hg : Good s) (ops : List Op)
    (hin : ∀ op ∈ ops, op.inBlock = true) (n : Nat) (hn : 1 ≤ n)
    (hreg : Registered s (s.tbegin.run ops))
    (st : St) (ho : Observes ((s.tbegin.run ops).traise n) st) : CheckQuiet st :=
  good_check_quiet _ st (block_abort_good s hg ops hin n hn hreg) ho

/-- ... and the check model is quiet after it, whatever the placement of the files -/
theorem block_abort_check_quiet_clean (s : Cache) (hg : Good s) (ops : List Op)
    (hin : ∀ op ∈ ops, op.inBlock = true) (n : Nat) (hn : 1 ≤ n)
    (st : St) (ho : Observes ((s.tbegin.run ops).traise n) st) : CheckQuiet st :=
  good_check_quiet _ st (block_abort_clean s hg ops hin n hn) ho

/-! ### histories of calls and whole flat blocks -/

/-- one segment of a history: a call outside any block, or a whole flat block that commits, or
one that aborts -/
inductive Seg where
  | call (op : Op)
  | commit (ops : List Op)
  | abort (ops : List Op) (n : Nat)

/-- the calls of a segment -/
def Seg.ops : Seg → List Op
  | .call op => [op]
  | .commit ops => Op.tbegin :: ops ++ [Op.tend]
  | .abort ops n => Op.tbegin :: ops ++ [Op.traise n]

/-- the side condition of a segment that starts in state `c` -/
def Seg.ok (c : Cache) : Seg → Prop
  | .call op => op.opens = false
  | .commit ops => (∀ op ∈ ops, op.inBlock = true) ∧ NoLeak (c.tbegin.run ops)
  | .abort ops n => (∀ op ∈ ops, op.inBlock = true) ∧ 1 ≤ n ∧ Registered c (c.tbegin.run ops)

/-- all segments are fine, each judged in the state it starts in -/
def QuietHist : Cache → List Seg → Prop
  | _, [] => True
  | c, g :: gs => g.ok c ∧ QuietHist (c.run g.ops) gs

def histOps (gs : List Seg) : List Op := gs.flatMap Seg.ops

theorem run_append (c : Cache) (a b : List Op) : c.run (a ++ b) = (c.run a).run b := by
  simp [run, List.foldl_append]

theorem seg_good (c : Cache) (hg : Good c) (g : Seg) (hok : g.ok c) : Good (c.run g.ops) := by
  cases g with
  | call op => exact step_good_unopened c op hok hg
  | commit ops =>
    obtain ⟨h1, h2⟩ := hok
    show Good (c.run (Op.tbegin :: ops ++ [Op.tend]))
    have : c.run (Op.tbegin :: ops ++ [Op.tend]) = (c.tbegin.run ops).tend := by
      show (c.tbegin).run (ops ++ [Op.tend]) = _
      rw [run_append]; rfl
    rw [this]
    exact block_commit_good c hg ops h1 h2
  | abort ops n =>
    obtain ⟨h1, h2, h3⟩ := hok
    have : c.run (Op.tbegin :: ops ++ [Op.traise n]) = (c.tbegin.run ops).traise n := by
      show (c.tbegin).run (ops ++ [Op.traise n]) = _
      rw [run_append]; rfl
    show Good (c.run (Op.tbegin :: ops ++ [Op.traise n]))
    rw [this]
    exact block_abort_good c hg ops h1 n h2 h3

theorem hist_good (c : Cache) (hg : Good c) (gs : List Seg) (hq : QuietHist c gs) :
    Good (c.run (histOps gs)) := by
  induction gs generalizing c with
  | nil => exact hg
  | cons g gs ih =>
    obtain ⟨h1, h2⟩ := hq
    have : c.run (histOps (g :: gs)) = (c.run g.ops).run (histOps gs) := by
      simp [histOps, run_append]
    rw [this]
    exact ih _ (seg_good c hg g h1) h2

/-- C08 for histories made of calls outside blocks and whole flat blocks (committed or aborted):
from the empty cache, for every configuration, every directory observing the final state is
`CheckQuiet` -/
theorem run_check_quiet_blocks (cfg : Cfg) (stat : Bool) (gs : List Seg)
    (hq : QuietHist ({ cfg := cfg, statistics := stat } : Cache) gs)
    (st : St) (ho : Observes (({ cfg := cfg, statistics := stat } : Cache).run (histOps gs)) st) :
    CheckQuiet st :=
  good_check_quiet _ st (hist_good _ (good_init cfg stat) gs hq) ho

/-! ### non-vacuity -/

/-- two items stored; then a block that replaces one value, pops the other and stores a new one,
committed; then a block that replaces and deletes, aborted; then a call outside -/
def exSegs : List Seg :=
  [.call (.set exE6 0 (.str [97]) (.bytes [1, 2, 3]) none false .null),
   .call (.set exE6 0 (.str [98]) (.bytes [4, 5, 6, 7]) none false .null),
   .commit [.set exE6 1 (.str [97]) (.bytes [9, 9, 9, 9, 9]) none false .null,
            .pop exE6 1 (.str [98]) false false,
            .set exE6 1 (.str [99]) (.bytes [7, 7]) none false .null,
            .get exE6 1 (.str [97]) false false false],
   .abort [.set exE6 2 (.str [97]) (.bytes [5, 5, 5]) none false .null,
           .delete exE6 2 (.str [99])] 1,
   .call (.touch exE6 3 (.str [97]) (some 10))]

theorem exSegs_quiet : QuietHist ({ cfg := exCfg } : Cache) exSegs := by
  refine ⟨rfl, rfl, ⟨by decide, ?_⟩, ⟨by decide, by decide, ?_⟩, rfl, trivial⟩
  · unfold NoLeak; decide +kernel
  · unfold Registered; decide +kernel


/-- the final state: `a` -> file 2 (5 bytes), `c` -> file 3 (2 bytes); files 0, 1 (replaced, popped)
removed at the commit, file 4 (written in the aborted block) removed at the rollback -/
def exStBlocks : St :=
  { rows := [⟨1, 5, some 2⟩, ⟨2, 2, some 3⟩], count := 2, size := 7,
    files := [⟨2, 1, 1, 5, .leaf, false⟩, ⟨3, 2, 1, 2, .leaf, false⟩],
    dirs1 := [1, 2], dirs2 := [(1, 1), (2, 1)] }

theorem exStBlocks_quiet :
    Observes (({ cfg := exCfg } : Cache).run (histOps exSegs)) exStBlocks ∧ CheckQuiet exStBlocks ∧
    (Check.check false exStBlocks).2 = [] := by
  have ho : Observes (({ cfg := exCfg } : Cache).run (histOps exSegs)) exStBlocks :=
    ⟨by decide +kernel, by decide +kernel, by decide +kernel, by decide +kernel, by decide +kernel,
     by decide +kernel, by decide +kernel, by decide +kernel, by decide +kernel, by decide +kernel⟩
  exact ⟨ho, run_check_quiet_blocks exCfg false exSegs exSegs_quiet _ ho, by decide +kernel⟩

/-- `add` and `push` inside blocks: a committed block adds a new key (file), tries to add a key that
is already there (the file written for it goes straight to cleanup and is removed at the commit)
and pushes a file-sized value; an aborted block does the same again (everything rolled back) -/
def exSegsAddPush : List Seg :=
  [.call (.set exE6 0 (.str [97]) (.bytes [1, 2, 3]) none false .null),
   .commit [.add exE6 1 (.str [98]) (.bytes [4, 5, 6]) none false .null,
            .add exE6 1 (.str [97]) (.bytes [7, 7, 7, 7]) none false .null,
            .push exE6 1 (.bytes [8, 8, 8]) none true none false .null],
   .abort [.add exE6 2 (.str [99]) (.bytes [4, 5, 6]) none false .null,
           .push exE6 2 (.bytes [9, 9]) none true none false .null] 1]

theorem exSegsAddPush_quiet : QuietHist ({ cfg := exCfg } : Cache) exSegsAddPush := by
  refine ⟨rfl, ⟨by decide, ?_⟩, ⟨by decide, by decide, ?_⟩, trivial⟩
  · unfold NoLeak; decide +kernel
  · unfold Registered; decide +kernel

theorem exSegsAddPush_final :
    (({ cfg := exCfg } : Cache).run (histOps exSegsAddPush)).rows.map crow =
      [⟨1, 3, some 0⟩, ⟨2, 3, some 1⟩, ⟨3, 3, some 3⟩] ∧
    (({ cfg := exCfg } : Cache).run (histOps exSegsAddPush)).files.map (·.1) = [0, 1, 3] ∧
    Good (({ cfg := exCfg } : Cache).run (histOps exSegsAddPush)) :=
  ⟨by decide +kernel, by decide +kernel, hist_good _ (good_init _ _) _ exSegsAddPush_quiet⟩

/-- the bulk removals inside blocks: a committed block clears the cache (both value files go at
the commit); an aborted block evicts, expires and culls (everything rolled back) -/
def exSegsBulk : List Seg :=
  [.call (.set exE6 0 (.str [97]) (.bytes [1, 2, 3]) none false .null),
   .call (.set exE6 0 (.str [98]) (.bytes [4, 5, 6, 7]) (some 1) false .null),
   .commit [.clear],
   .call (.set exE6 5 (.str [99]) (.bytes [7, 7]) (some 1) false .null),
   .abort [.evict .null, .expire 10, .cull 10] 1]

theorem exSegsBulk_quiet : QuietHist ({ cfg := exCfg } : Cache) exSegsBulk := by
  refine ⟨rfl, rfl, ⟨by decide, ?_⟩, rfl, ⟨by decide, by decide, ?_⟩, trivial⟩
  · unfold NoLeak; decide +kernel
  · unfold Registered; decide +kernel

theorem exSegsBulk_final :
    (({ cfg := exCfg } : Cache).run (histOps exSegsBulk)).rows.map crow = [⟨1, 2, some 2⟩] ∧
    (({ cfg := exCfg } : Cache).run (histOps exSegsBulk)).files.map (·.1) = [2] ∧
    Good (({ cfg := exCfg } : Cache).run (histOps exSegsBulk)) :=
  ⟨by decide +kernel, by decide +kernel, hist_good _ (good_init _ _) _ exSegsBulk_quiet⟩

/-! ### the full statement is false: two leaks -/

/-- D9b: inside a block a `set` whose key cannot be bound (a lone surrogate) fails AFTER its value
file was written; the caller catches the error and the block commits: the file stays and no row
refers to it.  `NoLeak` fails at the end of the block, the state after the commit is not `Good`,
and the check model reports an unknown file.  (Same on /repo: /tmp/ag_K4/scratch/real2.py.) -/
def exLeakCommit : Cache :=
  (({ cfg := exCfg } : Cache).tbegin.run [.set exE6 0 (.str [0xD800]) (.bytes [1, 2, 3]) none false .null]).tend

def exStLeak3 : St :=
  { rows := [], count := 0, size := 0, files := [⟨0, 1, 1, 3, .leaf, false⟩], dirs1 := [1], dirs2 := [(1, 1)] }

def exStLeak4 : St :=
  { rows := [], count := 0, size := 0, files := [⟨0, 1, 1, 4, .leaf, false⟩], dirs1 := [1], dirs2 := [(1, 1)] }

theorem block_commit_leaks :
    exLeakCommit.depth = 0 ∧
    ¬ NoLeak (({ cfg := exCfg } : Cache).tbegin.run [.set exE6 0 (.str [0xD800]) (.bytes [1, 2, 3]) none false .null]) ∧
    ¬ Good exLeakCommit ∧
    Observes exLeakCommit exStLeak3 ∧
    (Check.check false exStLeak3).2 = [.unknown 0] := by
  refine ⟨by decide +kernel, ?_, ?_, ?_, by decide +kernel⟩
  · unfold NoLeak; decide +kernel
  · intro hg
    have := hg.noOrphan
    revert this
    unfold NoOrphan
    decide +kernel
  · exact ⟨by decide +kernel, by decide +kernel, by decide +kernel, by decide +kernel, by decide +kernel,
     by decide +kernel, by decide +kernel, by decide +kernel, by decide +kernel, by decide +kernel⟩

/-- a codec whose JSON text of any value is four bytes long -/
def exEJ : Externals :=
  { dumpsK := fun _ => [], dumpsV := fun _ => [], loads := fun _ => .none,
    jsonz := fun _ => [1, 2, 3, 4], unjsonz := fun _ => .none }

/-- D24 (was `block_abort_leaks_incr`; fixed in /repo bbcbe5d and in the model: `incr` records the
file it stores as created by the enclosing block, `Cache.regCreated`): `incr` on a JSONDisk with
`disk_min_file_size = 0` writes a value file inside its transaction body; the block aborts; the
rollback now removes the file with the row. -/
def exIncrBlock : Cache :=
  ({ cfg := { minFileSize := 0, cullLimit := 0, disk := .json } } : Cache).tbegin.run
    [.incr exEJ 0 (.str [97]) 1 (some 0)]

def exIncrAbort : Cache := exIncrBlock.traise 1

def exStEmpty : St := { rows := [], count := 0, size := 0, files := [], dirs1 := [1], dirs2 := [(1, 1)] }

/-- the positive counterpart of the former witness: the same block now ends `Good`, and every
directory observing the state after the rollback (here: the empty one, with the directory the
removed file has left behind) is `CheckQuiet` -/
theorem block_abort_incr_clean :
    Good exIncrAbort ∧ exIncrAbort.files = [] ∧ exIncrAbort.rows = [] ∧
    Observes exIncrAbort exStEmpty ∧ CheckQuiet exStEmpty ∧
    (Check.check false exStEmpty).2 = [.emptyDir2 1 1] := by
  have hg : Good exIncrAbort :=
    block_abort_clean _ (good_init _ false) [.incr exEJ 0 (.str [97]) 1 (some 0)] (by decide) 1 (Nat.le_refl 1)
  have ho : Observes exIncrAbort exStEmpty :=
    ⟨by decide +kernel, by decide +kernel, by decide +kernel, by decide +kernel, by decide +kernel,
     by decide +kernel, by decide +kernel, by decide +kernel, by decide +kernel, by decide +kernel⟩
  exact ⟨hg, by decide +kernel, by decide +kernel, ho, good_check_quiet _ _ hg ho, by decide +kernel⟩

/-- inside the block the file exists, is referenced by the new row and is registered -/
theorem exIncrBlock_registered :
    exIncrBlock.files.map (·.1) = [0] ∧ exIncrBlock.created = [0] ∧ exIncrBlock.rows.map crow = [⟨1, 4, some 0⟩] ∧
    Registered ({ cfg := { minFileSize := 0, cullLimit := 0, disk := .json } } : Cache) exIncrBlock := by
  refine ⟨by decide +kernel, by decide +kernel, by decide +kernel, ?_⟩
  unfold Registered; decide +kernel

end DC.Cache
