/-
C04 — items are visible until their expiry time passes and never afterwards.
The instant `now = expire_time` is deliberately left unconstrained (look-ups
treat it as expired, `incr`/`pull`/`peek` as live; tests pin the strict `<`).
-/
import DC.Proofs.Cull

namespace DC.Cache

/-- an item without a time-to-live is live at every instant -/
theorem no_ttl_never_expires (r : Row) (h : r.expT = none) (now : Int) :
    live now r = true ∧ expired now r = false := by
  simp [live, expired, h]

/- STATEMENT AS GIVEN — FALSE for a row whose key is NULL (`NULL = NULL` is not true in SQL,
`SqlVal.eqv .null .null = false`), see `live_visible_counterexample` below:

theorem live_visible (s : Cache) (hu : KeysUnique s.rows) (r : Row) (hr : r ∈ s.rows) (now : Int)
    (hl : live now r = true) : s.selLive r.key r.raw now = some r

Corrected by the hypothesis `r.key ≠ .null`, which `TableInv.nonnull` provides. -/

/-- a look-up finds a stored, unexpired item (every look-up is `selLive`) -/
theorem live_visible_partial (s : Cache) (hu : KeysUnique s.rows) (r : Row) (hr : r ∈ s.rows)
    (hnn : r.key ≠ .null) (now : Int)
    (hl : live now r = true) : s.selLive r.key r.raw now = some r := by
  unfold selLive
  generalize s.rows = rows at hu hr
  induction rows with
  | nil => cases hr
  | cons a t ih =>
    rw [KeysUnique, List.pairwise_cons] at hu
    rcases List.mem_cons.1 hr with e | hr'
    · subst e
      simp [keyMatch, eqv_self hnn, hl]
    · have hna : keyMatch r.key r.raw a = false := by
        have := hu.1 r hr'
        simp only [keyMatch]
        cases h1 : a.key.eqv r.key <;> cases h2 : (a.raw == r.raw) <;> simp_all
      rw [List.find?_cons]
      simp only [hna, Bool.false_and]
      exact ih hu.2 hr'

/-- counterexample to the statement without `r.key ≠ .null` -/
def exNullRow : Row :=
  { rowid := 1, key := SqlVal.null, raw := true, storeT := 0, expT := Option.none, accT := 0, accN := 0, tag := SqlVal.null, size := 0, mode := 1, file := Option.none, val := SqlVal.int 0 }

theorem live_visible_counterexample :
    let s : Cache := { rows := [exNullRow], count := 1 }
    KeysUnique s.rows ∧ exNullRow ∈ s.rows ∧ live 0 exNullRow = true ∧
    s.selLive exNullRow.key exNullRow.raw 0 ≠ some exNullRow := by
  refine ⟨?_, ?_, ?_, ?_⟩
  · simp [KeysUnique]
  · simp
  · decide
  · decide

/-- whatever a look-up returns is live: an expired row is never selected -/
theorem dead_invisible (s : Cache) (k : SqlVal) (raw : Bool) (now : Int) (r : Row)
    (h : s.selLive k raw now = some r) : live now r = true ∧ r ∈ s.rows ∧ keyMatch k raw r = true := by
  unfold selLive at h
  have h1 := List.find?_some h
  rw [Bool.and_eq_true] at h1
  exact ⟨h1.2, List.mem_of_find?_eq_some h, h1.1⟩

/-- `get` / `[]` / `read` of a key whose only row is not live returns the default, on both
the lock-free and the transactional path -/
theorem get_dead_default (s : Cache) (E : Externals) (now : Int) (k : PyVal) (read et tg : Bool)
    (h : ∀ r ∈ s.rows, keyMatch (DC.put E s.cfg.disk k).1 (DC.put E s.cfg.disk k).2 r = true → live now r = false) :
    (s.get E now k read et tg).2 = defaultFlags et tg := by
  have hn := selLive_none_of_dead h
  unfold get
  rcases hput : DC.put E s.cfg.disk k with ⟨dbk, raw⟩
  rw [hput] at hn
  simp only at hn ⊢
  split
  · simp [hn]
  · unfold transact
    split
    · simp [hn]
    · simp [hn]

/-- membership of a dead key is False -/
theorem contains_dead_false (s : Cache) (E : Externals) (now : Int) (k : PyVal)
    (h : ∀ r ∈ s.rows, keyMatch (DC.put E s.cfg.disk k).1 (DC.put E s.cfg.disk k).2 r = true → live now r = false) :
    (s.contains E now k).2 = .bool false := by
  have hn := selLive_none_of_dead h
  unfold contains
  rcases hput : DC.put E s.cfg.disk k with ⟨dbk, raw⟩
  rw [hput] at hn
  simp only at hn ⊢
  rw [hn]; rfl

/-- `pop` of a dead key returns the default and removes nothing -/
theorem pop_dead_default (s : Cache) (E : Externals) (now : Int) (k : PyVal) (et tg : Bool)
    (h : ∀ r ∈ s.rows, keyMatch (DC.put E s.cfg.disk k).1 (DC.put E s.cfg.disk k).2 r = true → live now r = false) :
    (s.pop E now k et tg).2 = defaultFlags et tg ∧ (s.pop E now k et tg).1.rows = s.rows := by
  have hn := selLive_none_of_dead h
  unfold pop
  rcases hput : DC.put E s.cfg.disk k with ⟨dbk, raw⟩
  rw [hput] at hn
  simp only at hn ⊢
  simp only [hn]
  unfold transact
  split <;> simp

/-- `delete` of a dead key reports False and removes nothing -/
theorem delete_dead_false (s : Cache) (E : Externals) (now : Int) (k : PyVal)
    (h : ∀ r ∈ s.rows, keyMatch (DC.put E s.cfg.disk k).1 (DC.put E s.cfg.disk k).2 r = true → live now r = false) :
    (s.delete E now k).2 = .bool false ∧ (s.delete E now k).1.rows = s.rows := by
  obtain ⟨t, ht, hr⟩ := delitem_dead s E now k h
  unfold delete
  rw [ht]
  exact ⟨rfl, hr⟩

/-- `touch` cannot bring a dead item back to life -/
theorem touch_dead_false (s : Cache) (E : Externals) (now : Int) (k : PyVal) (ttl : Option Int)
    (h : ∀ r ∈ s.rows, keyMatch (DC.put E s.cfg.disk k).1 (DC.put E s.cfg.disk k).2 r = true → live now r = false) :
    (s.touch E now k ttl).2 = .bool false ∧ (s.touch E now k ttl).1.rows = s.rows := by
  unfold touch
  rcases hput : DC.put E s.cfg.disk k with ⟨dbk, raw⟩
  rw [hput] at h
  simp only at h ⊢
  have hk : ∀ r, s.selKey dbk raw = some r → live now r = false := by
    intro r hr
    unfold selKey at hr
    exact h r (List.mem_of_find?_eq_some hr) (List.find?_some hr)
  unfold transact
  cases hsel : s.selKey dbk raw with
  | none => split <;> simp [hsel]
  | some r => split <;> simp [hsel, hk r hsel]

/-- `expire()` removes exactly the items whose expiry time has passed, and returns their
number — for every population, every multiplicity of one expiry time, every page size ≥ 1.
(On the pinned tree this failed for > page items sharing one expiry time and for
non-positive expiry times; fixed upstream-style in /repo, see known_findings.json.) -/
theorem expire_exact (s : Cache) (now : Int) (hasc : RowidsAsc s.rows) (hp : 0 < s.cfg.page) :
    (s.expire now).1.rows = s.rows.filter (fun r => !(expired now r)) ∧
    (s.expire now).2 = .int (s.rows.filter (expired now)).length := by
  obtain ⟨h1, h2, -⟩ := expire_spec s now hasc hp
  unfold expire
  generalize expireLoop now (s.rows.length + 1) s none 0 = r at h1 h2
  rcases r with ⟨s1, n1⟩
  simp only at h1 h2 ⊢
  exact ⟨h1, by rw [h2]⟩

/-- the lazy removal done by a write removes at most `cull_limit` rows, and below the size
limit only expired ones -/
theorem lazy_cull_sound (s : Cache) (now : Int) (hasc : RowidsAsc s.rows) :
    let s' := (s.cullW now).1
    s'.rows.Sublist s.rows ∧ s.rows.length ≤ s'.rows.length + s.cfg.cullLimit ∧
    ((∀ pb, s.env.head? = some pb → belowLimit s.cfg ((pb : Int) + (s.delIn ((s.selExpired now s.cfg.cullLimit).map (·.rowid))).size) = true) →
      s.env ≠ [] → ∀ r ∈ s.rows, r ∉ s'.rows → expired now r = true) := by
  intro s'
  refine ⟨cullW_sublist s now hasc, cullW_length s now hasc, ?_⟩
  intro hbelow henv r hr hnot
  cases hex : expired now r with
  | true => rfl
  | false =>
    obtain ⟨-, hv, -⟩ := cullW_removed s now hasc r hr hnot hex
    cases henv' : s.env with
    | nil => exact absurd henv' henv
    | cons pb rest =>
      have h1 := hv pb rest henv'
      have h2 := hbelow pb (by rw [henv']; rfl)
      rw [h1] at h2; cases h2

/-- non-vacuity: 5 rows share one expiry time with page size 2 (the shape that broke the
pinned tree), one row has a non-positive expiry time, one never expires -/
def exExpRow (i : Nat) (e : Option Int) : Row :=
  { rowid := i, key := .int i, raw := true, storeT := 0, expT := e, accT := 0, accN := 0,
    tag := .null, size := 0, mode := 1, file := none, val := .int 0 }

def exExpTable : Cache :=
  { rows := [exExpRow 1 (some 5), exExpRow 2 (some 5), exExpRow 3 none, exExpRow 4 (some 5),
             exExpRow 5 (some (-3)), exExpRow 6 (some 5), exExpRow 7 (some 5), exExpRow 8 (some 50)],
    count := 8, cfg := { page := 2 } }

example : (exExpTable.expire 10).1.rows = [exExpRow 3 none, exExpRow 8 (some 50)] ∧
    (exExpTable.expire 10).1.count = 2 := by
  decide

end DC.Cache

