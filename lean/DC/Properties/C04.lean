/-
C04 — items are visible until their expiry time passes and never afterwards.
The instant `now = expire_time` is deliberately left unconstrained (look-ups
treat it as expired, `incr`/`pull`/`peek` as live; tests pin the strict `<`).
-/
import DC.Proofs.Expiry

namespace DC.Cache

/-- an item without a time-to-live is live at every instant -/
theorem no_ttl_never_expires (r : Row) (h : r.expT = none) (now : Int) :
    live now r = true ∧ expired now r = false := by
  sorry

/-- a look-up finds a stored, unexpired item (every look-up is `selLive`) -/
theorem live_visible (s : Cache) (hu : KeysUnique s.rows) (r : Row) (hr : r ∈ s.rows) (now : Int)
    (hl : live now r = true) : s.selLive r.key r.raw now = some r := by
  sorry

/-- whatever a look-up returns is live: an expired row is never selected -/
theorem dead_invisible (s : Cache) (k : SqlVal) (raw : Bool) (now : Int) (r : Row)
    (h : s.selLive k raw now = some r) : live now r = true ∧ r ∈ s.rows ∧ keyMatch k raw r = true := by
  sorry

/-- `get` / `[]` / `read` of a key whose only row is not live returns the default, on both
the lock-free and the transactional path -/
theorem get_dead_default (s : Cache) (E : Externals) (now : Int) (k : PyVal) (read et tg : Bool)
    (h : ∀ r ∈ s.rows, keyMatch (DC.put E s.cfg.disk k).1 (DC.put E s.cfg.disk k).2 r = true → live now r = false) :
    (s.get E now k read et tg).2 = defaultFlags et tg := by
  sorry

/-- membership of a dead key is False -/
theorem contains_dead_false (s : Cache) (E : Externals) (now : Int) (k : PyVal)
    (h : ∀ r ∈ s.rows, keyMatch (DC.put E s.cfg.disk k).1 (DC.put E s.cfg.disk k).2 r = true → live now r = false) :
    (s.contains E now k).2 = .bool false := by
  sorry

/-- `pop` of a dead key returns the default and removes nothing -/
theorem pop_dead_default (s : Cache) (E : Externals) (now : Int) (k : PyVal) (et tg : Bool)
    (h : ∀ r ∈ s.rows, keyMatch (DC.put E s.cfg.disk k).1 (DC.put E s.cfg.disk k).2 r = true → live now r = false) :
    (s.pop E now k et tg).2 = defaultFlags et tg ∧ (s.pop E now k et tg).1.rows = s.rows := by
  sorry

/-- `delete` of a dead key reports False and removes nothing -/
theorem delete_dead_false (s : Cache) (E : Externals) (now : Int) (k : PyVal)
    (h : ∀ r ∈ s.rows, keyMatch (DC.put E s.cfg.disk k).1 (DC.put E s.cfg.disk k).2 r = true → live now r = false) :
    (s.delete E now k).2 = .bool false ∧ (s.delete E now k).1.rows = s.rows := by
  sorry

/-- `touch` cannot bring a dead item back to life -/
theorem touch_dead_false (s : Cache) (E : Externals) (now : Int) (k : PyVal) (ttl : Option Int)
    (h : ∀ r ∈ s.rows, keyMatch (DC.put E s.cfg.disk k).1 (DC.put E s.cfg.disk k).2 r = true → live now r = false) :
    (s.touch E now k ttl).2 = .bool false ∧ (s.touch E now k ttl).1.rows = s.rows := by
  sorry

/-- `expire()` removes exactly the items whose expiry time has passed, and returns their
number — for every population, every multiplicity of one expiry time, every page size ≥ 1.
(On the pinned tree this failed for > page items sharing one expiry time and for
non-positive expiry times; fixed upstream-style in /repo, see known_findings.json.) -/
theorem expire_exact (s : Cache) (now : Int) (hasc : RowidsAsc s.rows) (hp : 0 < s.cfg.page) :
    (s.expire now).1.rows = s.rows.filter (fun r => !(expired now r)) ∧
    (s.expire now).2 = .int (s.rows.filter (expired now)).length := by
  sorry

/-- the lazy removal done by a write removes at most `cull_limit` rows, and below the size
limit only expired ones -/
theorem lazy_cull_sound (s : Cache) (now : Int) (hasc : RowidsAsc s.rows) :
    let s' := (s.cullW now).1
    s'.rows.Sublist s.rows ∧ s.rows.length ≤ s'.rows.length + s.cfg.cullLimit ∧
    ((∀ pb, s.env.head? = some pb → belowLimit s.cfg ((pb : Int) + (s.delIn ((s.selExpired now s.cfg.cullLimit).map (·.rowid))).size) = true) →
      s.env ≠ [] → ∀ r ∈ s.rows, r ∉ s'.rows → expired now r = true) := by
  sorry

/-- non-vacuity: 5 rows share one expiry time with page size 2 (the shape that broke the
pinned tree), one row has a non-positive expiry time, one never expires -/
def exExpRow (i : Nat) (e : Option Int) : Row :=
  { rowid := i, key := .int i, raw := true, storeT := 0, expT := e, accT := 0, accN := 0,
    tag := .null, size := 0, mode := 1, file := none, val := .int 0 }

def exExpTable : Cache :=
  { rows := [exExpRow 1 (some 5), exExpRow 2 (some 5), exExpRow 3 none, exExpRow 4 (some 5),
             exExpRow 5 (some (-3)), exExpRow 6 (some 5), exExpRow 7 (some 5), exExpRow 8 (some 50)],
    count := 8, cfg := { page := 2 } }

example : (exExpTable.expire 10).1.rows = [exExpRow 3 none, exExpRow 8 (some 50)] ∧
    (exExpTable.expire 10).1.count = 2 := by
  decide

end DC.Cache
