/-
C13 (continued) — "aggregate operations cover every shard exactly once".
`Fanout.each op` runs one Cache call on every shard in shard order; the
aggregates (len, volume, clear, expire, evict, cull, statistics, iteration,
transaction blocks) are sums / concatenations over its results.
-/
import DC.Properties.C13
import DC.Properties.C04
import DC.Properties.C03_Paging
import DC.Proofs.AggLemmas

namespace DC.Fanout

/-- the shard the i-th call of an aggregate runs on: shard i with the observations left by the
earlier calls -/
def prep (s : Cache) (env : List Nat) : Cache := { s with env := env, envMiss := false, trace := [] }

/-- every shard exactly once, in order: the i-th result is the Cache call on the i-th shard, the
i-th shard afterwards is that call's state, and there are exactly as many results as shards -/
theorem each_pointwise (f : Fanout) (op : Cache → Cache × Out) :
    (f.each op).2.length = f.shards.length ∧ (f.each op).1.shards.length = f.shards.length ∧
    ∀ i (hi : i < f.shards.length), ∃ env : List Nat,
      (f.each op).2[i]? = some (op (prep f.shards[i] env)).2 ∧
      (f.each op).1.shards[i]? = some (op (prep f.shards[i] env)).1 := by
  exact agg_each_shape f op

/-- the removal aggregates return the sum of the shards' results -/
theorem remove_is_sum (f : Fanout) (op : Cache → Cache × Out) :
    (f.remove op).2 = sumInts (f.each op).2 ∧ (f.remove op).1 = (f.each op).1 := by
  exact ⟨rfl, rfl⟩

/-- `expire()` over the shards: afterwards no shard holds an expired row, no other row is gone,
and the result is the total number of expired rows — every shard exactly once -/
theorem expire_all_shards (f : Fanout) (now : Int)
    (h : ∀ s ∈ f.shards, Cache.RowidsAsc s.rows ∧ 0 < s.cfg.page) :
    (f.expire now).1.shards.map (·.rows) = f.shards.map (fun s => s.rows.filter (fun r => !(Cache.expired now r))) ∧
    (f.expire now).2 = .int ((f.shards.map (fun s => ((s.rows.filter (Cache.expired now)).length : Int))).sum) := by
  have hst := agg_each_map_state f (fun s => s.expire now) (·.rows)
    (fun s => s.rows.filter (fun r => !(Cache.expired now r)))
    (fun s hs env => (Cache.expire_exact (aggPrep s env) now (h s hs).1 (h s hs).2).1)
  have hout := agg_each_map_out f (fun s => s.expire now)
    (fun s => .int ((s.rows.filter (Cache.expired now)).length : Int))
    (fun s hs env => (Cache.expire_exact (aggPrep s env) now (h s hs).1 (h s hs).2).2)
  refine ⟨hst, ?_⟩
  show sumInts (f.each (fun s => s.expire now)).2 = _
  rw [hout, ← sumInts_ints, List.map_map]
  rfl

/-- `evict(tag)` over the shards -/
theorem evict_all_shards (f : Fanout) (tag : SqlVal)
    (h : ∀ s ∈ f.shards, Cache.RowidsAsc s.rows ∧ (∀ r ∈ s.rows, 0 < r.rowid) ∧ 0 < s.cfg.page) :
    (f.evict tag).1.shards.map (·.rows) = f.shards.map (fun s => s.rows.filter (fun r => !(r.tag.eqv tag))) ∧
    (f.evict tag).2 = .int ((f.shards.map (fun s => ((s.rows.filter (fun r => r.tag.eqv tag)).length : Int))).sum) := by
  have hst := agg_each_map_state f (fun s => s.evict tag) (·.rows)
    (fun s => s.rows.filter (fun r => !(r.tag.eqv tag)))
    (fun s hs env => (Cache.evict_exact (aggPrep s env) tag (h s hs).1 (h s hs).2.1 (h s hs).2.2).1)
  have hout := agg_each_map_out f (fun s => s.evict tag)
    (fun s => .int ((s.rows.filter (fun r => r.tag.eqv tag)).length : Int))
    (fun s hs env => (Cache.evict_exact (aggPrep s env) tag (h s hs).1 (h s hs).2.1 (h s hs).2.2).2)
  refine ⟨hst, ?_⟩
  show sumInts (f.each (fun s => s.evict tag)).2 = _
  rw [hout, ← sumInts_ints, List.map_map]
  rfl

/-- iteration is the concatenation of the shards' iterations in shard order; reversed iteration
takes the shards in reverse order -/
theorem iter_concat (f : Fanout) (E : Externals) :
    (f.iter E true).2 = .list ((f.each (fun s => s.iter E true)).2.flatMap outList) ∧
    (f.iter E false).2 = .list ((f.each (fun s => s.iter E false)).2.reverse.flatMap outList) := by
  exact ⟨rfl, rfl⟩

/-- a transaction block on the fanout opens one block on every shard -/
theorem tbegin_all (f : Fanout) :
    (f.tbegin).1.shards.map (·.depth) = f.shards.map (fun s => s.depth + 1) := by
  exact agg_each_map_state f (fun s => (s.tbegin, .none)) (·.depth) (fun s => s.depth + 1)
    (fun s _ env => Cache.agg_tbegin_depth (aggPrep s env))

/-- committing the outermost block of the fanout closes the block of every shard -/
theorem tend_all (f : Fanout) (h : ∀ s ∈ f.shards, s.depth = 1) :
    ∀ s ∈ (f.tend).1.shards, s.depth = 0 := by
  have hm := agg_each_map_state f (fun s => (s.tend, .none)) (·.depth) (fun _ => 0)
    (fun s hs env => Cache.agg_tend_depth (aggPrep s env) (h s hs))
  intro s hs
  have : s.depth ∈ (f.each (fun s => (s.tend, Out.none))).1.shards.map (·.depth) :=
    List.mem_map_of_mem hs
  rw [hm, List.mem_map] at this
  obtain ⟨_, _, h0⟩ := this
  exact h0.symm

/-- hits and misses are summed over the shards -/
theorem stats_sum (f : Fanout) (enable reset : Bool) :
    ∃ hs ms : List Int, hs.length = f.shards.length ∧ ms.length = f.shards.length ∧
      (f.stats enable reset).2 = .tup [.int hs.sum, .int ms.sum] ∧
      ∀ i (hi : i < f.shards.length), ∃ env,
        (Cache.stats (prep f.shards[i] env) enable reset).2 = .tup [.int (hs[i]?.getD 0), .int (ms[i]?.getD 0)] := by
  have hout := agg_each_map_out f (fun s => s.stats enable reset)
    (fun s => .tup [.int s.hits, .int s.misses]) (fun _ _ _ => rfl)
  refine ⟨f.shards.map (·.hits), f.shards.map (·.misses), List.length_map _, List.length_map _, ?_, ?_⟩
  · show Out.tup [.int (List.foldl _ 0 (f.each (fun s => s.stats enable reset)).2),
      .int (List.foldl _ 0 (f.each (fun s => s.stats enable reset)).2)] = _
    rw [hout]
    have e1 := (agg_hits_aux f.shards 0).trans (Int.zero_add _)
    have e2 := (agg_misses_aux f.shards 0).trans (Int.zero_add _)
    exact (congrArg (fun a : Int => Out.tup [.int a, .int _]) e1).trans
      (congrArg (fun b : Int => Out.tup [.int _, .int b]) e2)
  · intro i hi
    refine ⟨[], ?_⟩
    rw [List.getElem?_map, List.getElem?_map, List.getElem?_eq_getElem hi]
    rfl

/-- non-vacuity: three shards, expire removes exactly the expired row of the middle shard -/
def exRowA : Row := { rowid := 1, key := .int 1, raw := true, storeT := 0, expT := some 5, accT := 0, accN := 0,
                      tag := .null, size := 0, mode := 1, file := none, val := .int 0 }
def exRowB : Row := { exRowA with rowid := 1, key := .int 2, expT := none }
def exFan : Fanout := { shards := [{ rows := [exRowB], count := 1 }, { rows := [exRowA], count := 1 }, {}] }

example : (match (exFan.expire 10).2 with | .int n => n | _ => -1) = 1 ∧
    (exFan.expire 10).1.shards.map (·.rows) = [[exRowB], [], []] := by
  decide +kernel

end DC.Fanout
