/-
Line-protocol driver for the correspondence checks.

  lake env lean --run Driver.lean < ops.txt > model.txt

One answer line per input line.  `cfg …` starts a fresh cache; `op m=<method> …`
runs one call of the model and answers `ret <result> | <trace>`; `state` answers
the canonical digest of the whole model state.  A line that cannot be parsed is
answered with `bad-op <why>` — never with a default.
-/
import DC.Model.Cache
import DC.Model.Check
import DC.Model.Memo
import DC.Model.Layers
import DC.Model.Recipes
import DC.Model.RecipesQ
import DC.Model.Spec
import DC.Model.DSpec
import DC.Model.OSpec
import DC.Model.DjSpec
import DC.Model.QSpec

open DC

abbrev KV := List (String × String)

def splitKV (tok : String) : String × String :=
  match tok.splitOn "=" with
  | [] => ("", "")
  | [k] => (k, "")
  | k :: rest => (k, "=".intercalate rest)

def parseKV (line : String) : KV :=
  ((line.splitOn " ").filter (· ≠ "")).map splitKV

def KV.get? (kv : KV) (k : String) : Option String := (kv.find? (·.1 == k)).map (·.2)
def KV.getD (kv : KV) (k : String) (d : String) : String := (KV.get? kv k).getD d

def hexDigit (c : Char) : Option Nat :=
  if '0' ≤ c && c ≤ '9' then some (c.toNat - 48)
  else if 'a' ≤ c && c ≤ 'f' then some (c.toNat - 87)
  else none

partial def hexToBytes (s : String) : Option Bytes :=
  let rec go : List Char → List Nat → Option (List Nat)
    | [], acc => some acc.reverse
    | [_], _ => none
    | a :: b :: rest, acc =>
      match hexDigit a, hexDigit b with
      | some x, some y => go rest ((x * 16 + y) :: acc)
      | _, _ => none
  go s.toList []

def hexNat (s : String) : Option Nat :=
  if s.isEmpty then none else
  s.toList.foldl (fun acc c => match acc, hexDigit c with
    | some n, some d => some (n * 16 + d)
    | _, _ => none) (some 0)

def hexOfNat2 (n : Nat) : String :=
  let d (x : Nat) : Char := if x < 10 then Char.ofNat (48 + x) else Char.ofNat (87 + x)
  String.ofList [d (n / 16 % 16), d (n % 16)]

def bytesHex (b : Bytes) : String := String.join (b.map hexOfNat2)

def natHex (n : Nat) : String :=
  let rec go (fuel n : Nat) (acc : List Char) : List Char :=
    match fuel with
    | 0 => acc
    | fuel + 1 =>
      let d := n % 16
      let c := if d < 10 then Char.ofNat (48 + d) else Char.ofNat (87 + d)
      if n / 16 == 0 then c :: acc else go fuel (n / 16) (c :: acc)
  String.ofList (go 32 n [])

def parseCps (s : String) : Option Str :=
  if s.isEmpty then some [] else
  (s.splitOn ".").foldr (fun t acc => match acc, t.toNat? with
    | some l, some n => some (n :: l)
    | _, _ => none) (some [])

def cpsStr (s : Str) : String := ".".intercalate (s.map toString)

def parsePyVal (s : String) : Option PyVal :=
  if s.isEmpty then none else
  let tag := s.front
  let rest := (s.drop 1).toString
  match tag with
  | 'n' => if rest.isEmpty then some .none else none
  | 'i' => rest.toInt?.map .int
  | 'f' => (hexNat rest).map .float
  | 's' => (parseCps rest).map .str
  | 'y' => if rest.isEmpty then some (.bytes []) else (hexToBytes rest).map .bytes
  | 'o' => (hexToBytes rest).map .obj
  | _ => none

def parseSqlVal (s : String) : Option SqlVal :=
  if s.isEmpty then none else
  let tag := s.front
  let rest := (s.drop 1).toString
  match tag with
  | 'n' => if rest.isEmpty then some .null else none
  | 'i' => rest.toInt?.map .int
  | 'f' => (hexNat rest).map .real
  | 's' => (parseCps rest).map .text
  | 'y' => if rest.isEmpty then some (.blob []) else (hexToBytes rest).map .blob
  | _ => none

def renderPyVal : PyVal → String
  | .none => "n"
  | .int i => s!"i{i}"
  | .float f => "f" ++ natHex f
  | .str s => "s" ++ cpsStr s
  | .bytes b => "y" ++ bytesHex b
  | .obj o => "o" ++ bytesHex o

def renderSqlVal (v : SqlVal) : String := renderPyVal (column v)

partial def renderOut : Out → String
  | .none => "n"
  | .default => "D"
  | .bool b => if b then "T" else "F"
  | .int i => s!"i{i}"
  | .val v => renderPyVal v
  | .handle b => "h" ++ bytesHex b
  | .time none => "n"
  | .time (some t) => s!"t{t}"
  | .sql v => renderSqlVal v
  | .tup xs => "(" ++ ",".intercalate (xs.map renderOut) ++ ")"
  | .list xs => "[" ++ ",".intercalate (xs.map renderOut) ++ "]"
  | .exc n => "!" ++ n
  | .timeout none => "!Timeout"
  | .timeout (some n) => s!"!Timeout:{n}"

def renderAct : Act → String
  | .fw f => s!"FW{f}"
  | .begin => "BEGIN"
  | .commit => "COMMIT"
  | .rollback => "ROLLBACK"
  | .sql id => id
  | .sqlFail id => id ++ "!"
  | .fr f => s!"FR{f}"
  | .frm f => s!"FRM{f}"

def renderTrace (t : List Act) : String := ",".intercalate (t.map renderAct)

def renderOptInt : Option Int → String
  | none => "n"
  | some t => toString t

def renderRow (r : Row) : String :=
  ":".intercalate [toString r.rowid, renderSqlVal r.key, if r.raw then "1" else "0", toString r.storeT,
    renderOptInt r.expT, toString r.accT, toString r.accN, renderSqlVal r.tag, toString r.size,
    toString r.mode, (match r.file with | some f => toString f | none => "n"), renderSqlVal r.val]

def renderFile (f : Nat × Content) : String :=
  s!"{f.1}:{f.2.size}:{adler32 f.2.bytes}"

def renderState (s : Cache) : String :=
  let files := isort (fun (a b : Nat × Content) => a.1 < b.1) s.files
  s!"c={s.count} z={s.size} h={s.hits} m={s.misses} st={if s.statistics then 1 else 0} " ++
  s!"d={s.depth} rows=" ++ ";".intercalate (s.rows.map renderRow) ++
  " files=" ++ ";".intercalate (files.map renderFile)

def parsePolicy : String → Option Policy
  | "none" => some .none
  | "lrs" => some .lrs
  | "lru" => some .lru
  | "lfu" => some .lfu
  | _ => none

def parseBool (s : String) : Bool := s == "1"

def parseOptInt (s : String) : Option (Option Int) :=
  if s == "n" then some none else s.toInt?.map some

def parseEnv (s : String) : Option (List Nat) :=
  if s == "-" || s.isEmpty then some [] else
  (s.splitOn ",").foldr (fun t acc => match acc, t.toNat? with
    | some l, some n => some (n :: l)
    | _, _ => none) (some [])

def parseCfg (kv : KV) : Option Cfg := do
  let policy ← parsePolicy (kv.getD "policy" "lrs")
  let cull ← (kv.getD "cull" "10").toNat?
  let limN ← (kv.getD "limN" "1073741824").toInt?
  let limD ← (kv.getD "limD" "1").toNat?
  let mfs ← (kv.getD "mfs" "32768").toNat?
  let disk ← (match kv.getD "disk" "pickle" with
    | "pickle" => some DiskKind.pickle | "json" => some DiskKind.json | _ => none)
  let page ← (kv.getD "page" "100").toNat?
  let batch ← (kv.getD "batch" "10").toNat?
  let qorigin ← (kv.getD "qorigin" "500000000000000").toNat?
  pure { policy := policy, cullLimit := cull, limN := limN, limD := limD, minFileSize := mfs,
         disk := disk, page := page, batch := batch, qorigin := qorigin }

/-- Externals instantiated with the bytes observed in the real run. -/
def obsE (k : PyVal) (kp vp : Bytes) : Externals :=
  { dumpsK := fun _ => kp, dumpsV := fun _ => vp, loads := .obj,
    jsonz := fun x => if x == k then kp else vp, unjsonz := .obj }

def optStr (s : String) : Option (Option Str) :=
  if s == "n" then some none else
  if s.front == 's' then (parseCps (s.drop 1).toString).map some else none

/-- `Cache.check()` on a state the model considers consistent reports nothing (C08/C17):
counters match, every file-backed row has its file with the recorded size, no orphan file -/
def consistentOut (s : Cache) : Out :=
  let refOk := s.rows.all (fun r => match r.file with
    | some f => (match s.fileGet f with | some c => c.size == r.size | none => false)
    | none => true)
  let orphanOk := s.files.all (fun p => s.rows.any (fun r => r.file == some p.1) ||
    s.pending.contains (some p.1) || s.created.contains p.1)
  let cntOk := s.count == (s.rows.length : Int) && s.size == Cache.sumSizesB s.rows
  if refOk && orphanOk && cntOk then .list [] else .exc "Inconsistent"

/-- `reset(key, value)` of the settings the model carries -/
def resetSetting (s : Cache) (key : String) (val : Int) : Except String (Cache × Out) :=
  match key with
  | "cull_limit" => pure ({ s with cfg := { s.cfg with cullLimit := val.toNat } }.logSql "setCullLimit", .int val)
  | "size_limit" => pure ({ s with cfg := { s.cfg with limN := val, limD := 1 } }.logSql "setSizeLimit", .int val)
  | "statistics" => pure ({ s with statistics := val != 0 }.logSql "setStatistics", .int val)
  | "disk_min_file_size" => pure ({ s with cfg := { s.cfg with minFileSize := val.toNat } }.logSql "setDiskMinFileSize", .int val)
  | _ => throw "reset-key"

/-- run one `op` line on a plain cache -/
def runCacheOp (s : Cache) (kv : KV) : Except String (Cache × Out) := do
  let m := kv.getD "m" ""
  let now ← match (kv.getD "now" "0").toInt? with | some n => pure n | none => throw "now"
  let env ← match parseEnv (kv.getD "env" "-") with | some e => pure e | none => throw "env"
  let s := { s with trace := [], env := env, envMiss := false }
  let needK := ["set", "add", "touch", "incr", "decr", "get", "getitem", "read", "contains", "pop",
                "delitem", "delete"].contains m
  let k ← if needK then
      match (KV.get? kv "k").bind parsePyVal with | some k => pure k | none => throw "k"
    else pure PyVal.none
  let hexOpt (name : String) : Except String Bytes :=
    match KV.get? kv name with
    | none => pure []
    | some "-" => pure []
    | some h => match hexToBytes h with | some b => pure b | none => throw name
  let kp ← hexOpt "kp"
  let vp ← hexOpt "vp"
  let E := obsE k kp vp
  let getV : Except String PyVal :=
    match (KV.get? kv "v").bind parsePyVal with | some v => pure v | none => throw "v"
  let ttl ← match parseOptInt (kv.getD "ttl" "n") with | some t => pure t | none => throw "ttl"
  let tag ← match parseSqlVal (kv.getD "tag" "n") with | some t => pure t | none => throw "tag"
  let read := parseBool (kv.getD "read" "0")
  let et := parseBool (kv.getD "et" "0")
  let tg := parseBool (kv.getD "tg" "0")
  let pfx ← match optStr (kv.getD "prefix" "n") with | some p => pure p | none => throw "prefix"
  let keyErr (r : Cache × Out) : Cache × Out :=
    match r with
    | (s, .default) => (s, .exc "KeyError")
    | r => r
  match m with
  | "set" => do let v ← getV; pure (s.set E now k v ttl read tag)
  | "add" => do let v ← getV; pure (s.add E now k v ttl read tag)
  | "touch" => pure (s.touch E now k ttl)
  | "incr" =>
    let delta ← match (kv.getD "delta" "1").toInt? with | some d => pure d | none => throw "delta"
    let dflt ← match parseOptInt (kv.getD "default" "0") with | some d => pure d | none => throw "default"
    pure (s.incr E now k delta dflt)
  | "decr" =>
    let delta ← match (kv.getD "delta" "1").toInt? with | some d => pure d | none => throw "delta"
    let dflt ← match parseOptInt (kv.getD "default" "0") with | some d => pure d | none => throw "default"
    pure (s.incr E now k (-delta) dflt)
  | "get" => pure (s.get E now k read et tg)
  | "getitem" => pure (keyErr (s.get E now k false false false))
  | "read" => pure (keyErr (s.get E now k true false false))
  | "contains" => pure (s.contains E now k)
  | "pop" => pure (s.pop E now k et tg)
  | "delitem" => pure (s.delitem E now k)
  | "delete" => pure (s.delete E now k)
  | "push" => do
    let v ← getV
    pure (s.push E now v pfx (kv.getD "side" "back" == "back") ttl read tag)
  | "pull" => pure (s.pull E now pfx (kv.getD "side" "front" == "front") et tg)
  | "peek" => pure (s.peek E now pfx (kv.getD "side" "front" == "front") et tg)
  | "peekitem" => pure (s.peekitem E now (parseBool (kv.getD "last" "1")) et tg)
  | "clear" => pure s.clear
  | "evict" => pure (s.evict tag)
  | "expire" => pure (s.expire now)
  | "cull" => pure (s.cull now)
  | "iter" => pure (s.iter E true)
  | "riter" => pure (s.iter E false)
  | "iterkeys" => pure (s.iterkeys E false)
  | "riterkeys" => pure (s.iterkeys E true)
  | "check" => pure (s, consistentOut s)
  | "reopen" => pure (s, .none)     -- close/reopen, pickling, a second handle: identity on the directory
  | "pickle" => pure (s, .none)
  | "second" => pure (s, .none)
  | "settings" =>
    let pol := match s.cfg.policy with | .none => "none" | .lrs => "lrs" | .lru => "lru" | .lfu => "lfu"
    pure (s, .tup [.val (.str (pol.toList.map Char.toNat)), .int s.cfg.cullLimit, .int (s.cfg.limN / s.cfg.limD),
                   .int s.cfg.minFileSize, .int (if s.statistics then 1 else 0)])
  | "len" => pure s.len
  | "volume" => pure s.volumeOp
  | "stats" => pure (s.stats (parseBool (kv.getD "enable" "1")) (parseBool (kv.getD "reset" "0")))
  | "tbegin" => pure (s.tbegin, .none)
  | "tend" => pure (s.tend, .none)
  | "traise" =>
    let n ← match (kv.getD "n" "1").toNat? with | some n => pure n | none => throw "n"
    pure (s.traise n, .none)
  | "reset" =>
    let key := kv.getD "key" ""
    let val ← match (kv.getD "value" "0").toInt? with | some n => pure n | none => throw "value"
    resetSetting s key val
  | _ => throw s!"method:{m}"


/-- run one `sop` line on the reference dictionary of C03 (DC.Model.Spec): the same fields as an
`op` line, key-addressed calls and the bulk removals only -/
def runSpecOp (m : Spec.Dict) (cfg : Cfg) (kv : KV) : Except String (Spec.Dict × Out) := do
  let meth := kv.getD "m" ""
  let now ← match (kv.getD "now" "0").toInt? with | some n => pure n | none => throw "now"
  let needK := ["set", "add", "touch", "incr", "decr", "get", "getitem", "read", "contains", "pop",
                "delitem", "delete"].contains meth
  let k ← if needK then
      match (KV.get? kv "k").bind parsePyVal with | some k => pure k | none => throw "k"
    else pure PyVal.none
  let hexOpt (name : String) : Except String Bytes :=
    match KV.get? kv name with
    | none => pure []
    | some "-" => pure []
    | some h => match hexToBytes h with | some b => pure b | none => throw name
  let kp ← hexOpt "kp"
  let vp ← hexOpt "vp"
  let E := obsE k kp vp
  let getV : Except String PyVal :=
    match (KV.get? kv "v").bind parsePyVal with | some v => pure v | none => throw "v"
  let ttl ← match parseOptInt (kv.getD "ttl" "n") with | some t => pure t | none => throw "ttl"
  let tag ← match parseSqlVal (kv.getD "tag" "n") with | some t => pure t | none => throw "tag"
  let read := parseBool (kv.getD "read" "0")
  let et := parseBool (kv.getD "et" "0")
  let tg := parseBool (kv.getD "tg" "0")
  let keyErr (r : Spec.Dict × Out) : Spec.Dict × Out :=
    match r with
    | (s, .default) => (s, .exc "KeyError")
    | r => r
  let delta ← match (kv.getD "delta" "1").toInt? with | some d => pure d | none => throw "delta"
  let dflt ← match parseOptInt (kv.getD "default" "0") with | some d => pure d | none => throw "default"
  match meth with
  | "set" => do let v ← getV; pure (Spec.set m E cfg now k v ttl read tag)
  | "add" => do let v ← getV; pure (Spec.add m E cfg now k v ttl read tag)
  | "touch" => pure (Spec.touch m E cfg now k ttl)
  | "incr" => pure (Spec.incr m E cfg now k delta dflt)
  | "decr" => pure (Spec.incr m E cfg now k (-delta) dflt)
  | "get" => pure (Spec.get m E cfg now k read et tg)
  | "getitem" => pure (keyErr (Spec.get m E cfg now k false false false))
  | "read" => pure (keyErr (Spec.get m E cfg now k true false false))
  | "contains" => pure (Spec.contains m E cfg now k)
  | "pop" => pure (Spec.pop m E cfg now k et tg)
  | "delitem" => pure (Spec.delitem m E cfg now k)
  | "delete" => pure (Spec.delete m E cfg now k)
  | "clear" => pure (Spec.clear m)
  | "evict" => pure (Spec.evict m tag)
  | "expire" => pure (Spec.expire m now)
  | "cull" => pure (Spec.cull m now)
  | other => throw s!"spec-method:{other}"

/-- run one `qsop` line on the reference of C10 (DC.Model.QSpec: queues per prefix next to a
dictionary): the same fields as an `op` line — push / pull / peek (`prefix`, `side`, `ttl`, `tag`,
`read`, `et`, `tg`), the key-addressed calls and the bulk removals -/
def runQSpecOp (q : QSpec.State) (cfg : Cfg) (kv : KV) : Except String (QSpec.State × Out) := do
  let meth := kv.getD "m" ""
  let now ← match (kv.getD "now" "0").toInt? with | some n => pure n | none => throw "now"
  let hexOpt (name : String) : Except String Bytes :=
    match KV.get? kv name with
    | none => pure []
    | some "-" => pure []
    | some h => match hexToBytes h with | some b => pure b | none => throw name
  let kp ← hexOpt "kp"
  let vp ← hexOpt "vp"
  let E := obsE PyVal.none kp vp
  let getV : Except String PyVal :=
    match (KV.get? kv "v").bind parsePyVal with | some v => pure v | none => throw "v"
  let ttl ← match parseOptInt (kv.getD "ttl" "n") with | some t => pure t | none => throw "ttl"
  let tag ← match parseSqlVal (kv.getD "tag" "n") with | some t => pure t | none => throw "tag"
  let read := parseBool (kv.getD "read" "0")
  let et := parseBool (kv.getD "et" "0")
  let tg := parseBool (kv.getD "tg" "0")
  let pfx ← match optStr (kv.getD "prefix" "n") with | some p => pure p | none => throw "prefix"
  match meth with
  | "push" => do
    let v ← getV
    pure (QSpec.push q E cfg now v pfx (kv.getD "side" "back" == "back") ttl read tag)
  | "pull" => pure (QSpec.pull q E cfg now pfx (kv.getD "side" "front" == "front") et tg)
  | "peek" => pure (QSpec.peek q E cfg now pfx (kv.getD "side" "front" == "front") et tg)
  | "clear" => pure (QSpec.step q cfg .clear)
  | "evict" => pure (QSpec.step q cfg (.evict tag))
  | "expire" => pure (QSpec.step q cfg (.expire now))
  | "cull" => pure (QSpec.step q cfg (.cull now))
  | _ =>
    -- the key-addressed calls: the reference dictionary of C03 on the dictionary part
    match runSpecOp q.dict cfg kv with
    | .ok (m, out) => pure ({ q with dict := m }, out)
    | .error e => throw e

/-! ### `check` protocol -/

def splitList (s : String) (sep : String) : List String :=
  if s.isEmpty || s == "-" then [] else s.splitOn sep

def parseNats (s : String) (sep : String) : Option (List Nat) :=
  (splitList s sep).foldr (fun t acc => match acc, t.toNat? with
    | some l, some n => some (n :: l)
    | _, _ => none) (some [])

def parseCkState (kv : KV) : Option Check.St := do
  let rows ← (splitList (kv.getD "rows" "-") ";").foldr (fun t acc => do
      let l ← acc
      match t.splitOn ":" with
      | [a, b, c] =>
        let rowid ← a.toNat?
        let size ← b.toNat?
        let file ← (if c == "n" then some none else c.toNat?.map some)
        pure ({ rowid := rowid, size := size, file := file } :: l)
      | _ => none) (some [])
  let files ← (splitList (kv.getD "files" "-") ";").foldr (fun t acc => do
      let l ← acc
      match (parseNats t ":") with
      | some [a, b, c, d] => pure (({ id := a, d1 := b, d2 := c, size := d } : Check.FsFile) :: l)
      | _ => none) (some [])
  -- optional (absent = none): files directly in the cache directory `top=id:size;...`, files directly
  -- in a first-level directory `mid=id:d1:size;...`, and `skip=id,...` = the ids of the files (at any
  -- level) whose full path contains the text `cache.db`
  let top ← (splitList (kv.getD "top" "-") ";").foldr (fun t acc => do
      let l ← acc
      match (parseNats t ":") with
      | some [a, z] => pure (({ id := a, d1 := 0, d2 := 0, size := z, level := .top } : Check.FsFile) :: l)
      | _ => none) (some [])
  let mid ← (splitList (kv.getD "mid" "-") ";").foldr (fun t acc => do
      let l ← acc
      match (parseNats t ":") with
      | some [a, b, z] => pure (({ id := a, d1 := b, d2 := 0, size := z, level := .first } : Check.FsFile) :: l)
      | _ => none) (some [])
  let skip ← parseNats (kv.getD "skip" "-") ","
  let dirs1 ← parseNats (kv.getD "dirs1" "-") ","
  let dirs2 ← (splitList (kv.getD "dirs2" "-") ",").foldr (fun t acc => do
      let l ← acc
      match (parseNats t ":") with
      | some [a, b] => pure ((a, b) :: l)
      | _ => none) (some [])
  let count ← (kv.getD "count" "0").toInt?
  let size ← (kv.getD "size" "0").toInt?
  -- in the order `os.walk` meets them: cache directory, first-level directories, value tree
  let all := (top ++ mid ++ files).map (fun (f : Check.FsFile) => { f with db := skip.contains f.id })
  pure { rows := rows, count := count, size := size, files := all, dirs1 := dirs1, dirs2 := dirs2 }

def renderWarn : Check.Warn → String
  | .wrongSize r a b => s!"W{r}:{a}:{b}"
  | .notFound r => s!"N{r}"
  | .unknown f => s!"U{f}"
  | .emptyDir2 a b => s!"E2:{a}:{b}"
  | .emptyDir1 a => s!"E1:{a}"
  | .count a b => s!"C{a}:{b}"
  | .size a b => s!"Z{a}:{b}"

def renderCkState (s : Check.St) (ext : Bool := false) : String :=
  let lvl (l : Check.Level) := (isort (fun (a b : Check.FsFile) => a.id < b.id) (s.files.filter (·.level == l)))
  "rows=" ++ ";".intercalate (s.rows.map (fun r => s!"{r.rowid}:{r.size}:" ++ (match r.file with | some f => toString f | none => "n"))) ++
  s!" count={s.count} size={s.size} files=" ++
  ";".intercalate ((lvl .leaf).map (fun f => s!"{f.id}:{f.d1}:{f.d2}:{f.size}")) ++
  " dirs1=" ++ ",".intercalate ((isort (fun (a b : Nat) => a < b) s.dirs1).map toString) ++
  " dirs2=" ++ ",".intercalate ((isort (fun (a b : Nat × Nat) => a.1 < b.1 || (a.1 == b.1 && a.2 < b.2)) s.dirs2).map (fun d => s!"{d.1}:{d.2}")) ++
  (if ext then
    " top=" ++ ";".intercalate ((lvl .top).map (fun f => s!"{f.id}:{f.size}")) ++
    " mid=" ++ ";".intercalate ((lvl .first).map (fun f => s!"{f.id}:{f.d1}:{f.size}")) ++
    " skip=" ++ ",".intercalate ((isort (fun (a b : Nat) => a < b) ((s.files.filter (·.db)).map (·.id))).map toString)
   else "")

def answerCk (kv : KV) : String :=
  match parseCkState kv with
  | none => "bad-op ck"
  | some st =>
    let (st', ws) := Check.check (parseBool (kv.getD "fix" "0")) st
    -- the new fields are answered only when the line carried one of them: old lines, old answers
    let ext := (kv.get? "top").isSome || (kv.get? "mid").isSome || (kv.get? "skip").isSome
    "ck " ++ ",".intercalate (ws.map renderWarn) ++ " | " ++ renderCkState st' ext


/-! ### `args_to_key` protocol -/

def parseTok (s : String) : Option Memo.Tok :=
  if s == "N" then some .none
  else if s.front == 'V' then (s.drop 1).toString.toNat?.map .val
  else if s.front == 'T' then (s.drop 1).toString.toNat?.map .ty
  else none

def renderTok : Memo.Tok → String
  | .none => "N"
  | .val v => s!"V{v}"
  | .ty t => s!"T{t}"

def parseArg (s : String) : Option Memo.Arg :=
  match s.splitOn ":" with
  | [a, b] => do
    let t ← parseTok a
    let ty ← b.toNat?
    pure { tok := t, ty := ty }
  | _ => none

def answerMk (kv : KV) : String :=
  let r : Option String := do
    let base ← (splitList (kv.getD "base" "-") ",").mapM parseTok
    let args ← (splitList (kv.getD "args" "-") ",").mapM parseArg
    let kw ← (splitList (kv.getD "kw" "-") ",").mapM (fun t => match t.splitOn ":" with
      | [n, a, b] => do
        let n ← n.toNat?
        let arg ← parseArg (a ++ ":" ++ b)
        pure (n, arg)
      | _ => none)
    let ignp ← parseNats (kv.getD "ignp" "-") ","
    let ignk ← parseNats (kv.getD "ignk" "-") ","
    pure (",".intercalate ((Memo.argsToKey base args kw (parseBool (kv.getD "typed" "0")) ignp ignk).map renderTok))
  match r with
  | some s => "mk " ++ s
  | none => "bad-op mk"


def answerMc (st : Memo.Store Nat) (kv : KV) : Memo.Store Nat × String :=
  let r : Option (Memo.Store Nat × String) := do
    let base ← (splitList (kv.getD "base" "-") ",").mapM parseTok
    let args ← (splitList (kv.getD "args" "-") ",").mapM parseArg
    let kw ← (splitList (kv.getD "kw" "-") ",").mapM (fun t => match t.splitOn ":" with
      | [n, a, b] => do
        let n ← n.toNat?
        let arg ← parseArg (a ++ ":" ++ b)
        pure (n, arg)
      | _ => none)
    let ignp ← parseNats (kv.getD "ignp" "-") ","
    let ignk ← parseNats (kv.getD "ignk" "-") ","
    let res ← (kv.getD "res" "0").toNat?
    let now ← (kv.getD "now" "0").toInt?
    let expire ← parseOptInt (kv.getD "expire" "n")
    let (r, st', ran) := Memo.call (fun _ _ => res) base (parseBool (kv.getD "typed" "0")) ignp ignk expire now st args kw
    pure (st', s!"mc {r} {if ran then 1 else 0}")
  match r with
  | some x => x
  | none => (st, "bad-op mc")


/-! ### recipes protocol -/

open Recipes in
def parseEv (t : String) : Option Ev :=
  if t.front == 'a' then (t.drop 1).toString.toNat?.map Ev.acquire
  else if t.front == 'r' then (t.drop 1).toString.toNat?.map Ev.release
  else none

open Recipes in
def answerRk (kv : KV) : String :=
  match (splitList (kv.getD "evs" "-") ",").mapM parseEv with
  | none => "bad-op rk"
  | some evs =>
    let bit (b : Bool) : String := if b then "1" else "0"
    match kv.getD "kind" "" with
    | "lock" =>
      let r := evs.foldl (fun (acc : LockSys × List String) e => let (s, ok) := acc.1.step e; (s, acc.2 ++ [bit ok])) ({}, [])
      "rk " ++ ",".intercalate r.2
    | "rlock" =>
      let r := evs.foldl (fun (acc : RLockSys × List String) e => let (s, ok) := acc.1.step e; (s, acc.2 ++ [bit ok])) ({}, [])
      "rk " ++ ",".intercalate r.2
    | "sem" =>
      let n := (kv.getD "limit" "1").toNat?.getD 1
      let r := evs.foldl (fun (acc : SemSys × List String) e => let (s, ok) := acc.1.step e; (s, acc.2 ++ [bit ok]))
        ({ st := { limit := n, free := n } }, [])
      "rk " ++ ",".intercalate r.2
    | _ => "bad-op rk-kind"

open Recipes in
def answerTb (kv : KV) : String :=
  let r : Option String := do
    let count ← (kv.getD "count" "1").toNat?
    let seconds ← (kv.getD "seconds" "1").toNat?
    let start ← (kv.getD "start" "0").toInt?
    let times ← (splitList (kv.getD "times" "-") ",").mapM (·.toInt?)
    let res := times.foldl (fun (acc : Bucket × List String) t =>
      match acc.1.attempt t with
      | (b, none) => (b, acc.2 ++ ["p"])
      | (b, some d) => (b, acc.2 ++ [s!"d{d}"])) (Bucket.init count seconds start, [])
    pure (",".intercalate res.2)
  match r with
  | some s => "tb " ++ s
  | none => "bad-op tb"

open Recipes in
/-- `tq p= q= seconds= den= start= times=`: the throttle with count = p/q (DC.Recipes.QBucket).
`start` and `times` are integer multiples of 1/den second.  The model counts time in ticks of
1/(p·den) second and has the period `seconds·den` (in units of 1/den s), so the instants are
multiplied by p on the way in and a delay of d ticks is answered as the exact fraction
d/(p·den) of a second, in lowest terms: `d<num>/<den>`.  A passing attempt is answered `p`.
Every field is required and p, q, seconds, den must be positive (the real code divides by
`seconds` and by `rate`). -/
def answerTq (kv : KV) : String :=
  let r : Option String := do
    let p ← (← kv.get? "p").toNat?
    let q ← (← kv.get? "q").toNat?
    let seconds ← (← kv.get? "seconds").toNat?
    let den ← (← kv.get? "den").toNat?
    let start ← (← kv.get? "start").toInt?
    let times ← (splitList (← kv.get? "times") ",").mapM (·.toInt?)
    if p == 0 || q == 0 || seconds == 0 || den == 0 then none
    let unit := p * den
    let res := times.foldl (fun (acc : QBucket × List String) t =>
      match acc.1.attempt (t * p) with
      | (b, none) => (b, acc.2 ++ ["p"])
      | (b, some d) =>
        let g := Nat.gcd d.natAbs unit
        (b, acc.2 ++ [s!"d{d / g}/{unit / g}"])) (QBucket.init p q (seconds * den) (start * p), [])
    pure (",".intercalate res.2)
  match r with
  | some s => "tq " ++ s
  | none => "bad-op tq"

open Recipes in
def answerAv (kv : KV) : String :=
  let evs := (splitList (kv.getD "evs" "-") ",").mapM (fun t =>
    if t == "p" then some AvgEv.pop else if t.front == 'a' then (t.drop 1).toString.toInt?.map AvgEv.add else none)
  match evs with
  | none => "bad-op av"
  | some evs => let s := AvgSt.run {} evs; s!"av {s.total} {s.count}"

structure DState where
  cache : Cache := {}
  spec : Spec.Dict := []
  qspec : QSpec.State := {}
  dspec : DSpec.DList := {}
  jspec : Spec.Dict := []
  jconf : DjSpec.Conf := {}
  ospec : DC.ODict := []
  memo : Memo.Store Nat := []
  fan : Fanout := { shards := [] }
  dq : Deque := { cache := {} }
  ix : Index := { cache := {} }
  dj : Django := { fan := { shards := [] } }
  deriving Inhabited


/-! ### layers protocol (FanoutCache, Deque, Index, DjangoCache) -/

def parseTimeout (s : String) : Option Timeout :=
  if s == "d" then some .dflt else if s == "n" then some .forever else s.toInt?.map .secs

def strOfPy : PyVal → Option Str
  | .str s => some s
  | _ => none

/-- common fields of an `lop` line -/
structure LArgs where
  m : String
  now : Int
  env : List Nat
  k : PyVal
  E : Externals
  v : Option PyVal
  ttl : Option Int
  tag : SqlVal
  read : Bool
  et : Bool
  tg : Bool
  kv : KV
  vs : List PyVal := []
  ks : List PyVal := []

/-- `;`-separated value tokens (`-` = empty list) -/
def parseValList (s : String) : Option (List PyVal) :=
  if s == "-" || s.isEmpty then some [] else (s.splitOn ";").mapM parsePyVal

def parseHexList (s : String) : Option (List Bytes) :=
  if s == "-" || s.isEmpty then some [] else
    (s.splitOn ";").mapM (fun h => if h == "_" then some [] else hexToBytes h)

def lookupPickle (tbl : List (PyVal × Bytes)) (x : PyVal) : Option Bytes :=
  match tbl.find? (fun p => p.1 == x && !p.2.isEmpty) with
  | some p => some p.2
  | none => none

def parseLArgs (kv : KV) : Except String LArgs := do
  let now ← match (kv.getD "now" "0").toInt? with | some n => pure n | none => throw "now"
  let env ← match parseEnv (kv.getD "env" "-") with | some e => pure e | none => throw "env"
  let k ← match KV.get? kv "k" with
    | none => pure PyVal.none
    | some t => match parsePyVal t with | some k => pure k | none => throw "k"
  let hexOpt (name : String) : Except String Bytes :=
    match KV.get? kv name with
    | none => pure []
    | some "-" => pure []
    | some h => match hexToBytes h with | some b => pure b | none => throw name
  let kp ← hexOpt "kp"
  let vp ← hexOpt "vp"
  let v ← match KV.get? kv "v" with
    | none => pure none
    | some t => match parsePyVal t with | some v => pure (some v) | none => throw "v"
  let ttl ← match parseOptInt (kv.getD "ttl" "n") with | some t => pure t | none => throw "ttl"
  let tag ← match parseSqlVal (kv.getD "tag" "n") with | some t => pure t | none => throw "tag"
  -- values that come back out of the cache carry their own serialized form
  -- argument lists (extend, update, comparisons): each element with its own serialized form
  let vs ← match parseValList (kv.getD "vs" "-") with | some l => pure l | none => throw "vs"
  let ks ← match parseValList (kv.getD "ks" "-") with | some l => pure l | none => throw "ks"
  let vps ← match parseHexList (kv.getD "vps" "-") with | some l => pure l | none => throw "vps"
  let kps ← match parseHexList (kv.getD "kps" "-") with | some l => pure l | none => throw "kps"
  let vtbl := vs.zip vps
  let ktbl := ks.zip kps
  let E0 := obsE k kp vp
  let E : Externals := { E0 with
    dumpsV := fun x => match lookupPickle vtbl x with
      | some b => b
      | none => match x with | .obj o => (if vp.isEmpty then o else vp) | _ => vp,
    dumpsK := fun x => match lookupPickle ktbl x with
      | some b => b
      | none => match x with | .obj o => (if kp.isEmpty then o else kp) | _ => kp }
  pure { m := kv.getD "m" "", now := now, env := env, k := k, E := E, v := v, ttl := ttl, tag := tag,
         read := parseBool (kv.getD "read" "0"), et := parseBool (kv.getD "et" "0"),
         tg := parseBool (kv.getD "tg" "0"), kv := kv, vs := vs, ks := ks }

def needV (a : LArgs) : Except String PyVal :=
  match a.v with | some v => pure v | none => throw "v"

def runFanOp (f : Fanout) (a : LArgs) : Except String (Fanout × Out) := do
  let f := { f with env := a.env, envMiss := false }
  let keyErr (r : Fanout × Out) : Fanout × Out :=
    match r with | (x, .default) => (x, .exc "KeyError") | r => r
  match a.m with
  | "set" => do let v ← needV a; pure (f.keyed a.E a.k (fun s => s.set a.E a.now a.k v a.ttl a.read a.tag))
  | "add" => do let v ← needV a; pure (f.keyed a.E a.k (fun s => s.add a.E a.now a.k v a.ttl a.read a.tag))
  | "touch" => pure (f.keyed a.E a.k (fun s => s.touch a.E a.now a.k a.ttl))
  | "incr" =>
    let delta ← match (a.kv.getD "delta" "1").toInt? with | some d => pure d | none => throw "delta"
    let dflt ← match parseOptInt (a.kv.getD "default" "0") with | some d => pure d | none => throw "default"
    pure (f.keyed a.E a.k (fun s => s.incr a.E a.now a.k delta dflt))
  | "get" => pure (f.keyed a.E a.k (fun s => s.get a.E a.now a.k a.read a.et a.tg))
  | "getitem" => pure (keyErr (f.keyed a.E a.k (fun s => s.get a.E a.now a.k false false false)))
  | "contains" => pure (f.keyed a.E a.k (fun s => s.contains a.E a.now a.k))
  | "pop" => pure (f.keyed a.E a.k (fun s => s.pop a.E a.now a.k a.et a.tg))
  | "delete" => pure (f.keyed a.E a.k (fun s => s.delete a.E a.now a.k))
  | "delitem" => pure (f.keyed a.E a.k (fun s => s.delitem a.E a.now a.k))
  | "len" => pure f.len
  | "volume" => pure f.volume
  | "clear" => pure f.clear
  | "expire" => pure (f.expire a.now)
  | "evict" => pure (f.evict a.tag)
  | "cull" => pure (f.cull a.now)
  | "iter" => pure (f.iter a.E true)
  | "riter" => pure (f.iter a.E false)
  | "stats" => pure (f.stats (parseBool (a.kv.getD "enable" "1")) (parseBool (a.kv.getD "reset" "0")))
  | "route" => pure (f, .int (f.route a.E a.k))
  | "decr" =>
    let delta ← match (a.kv.getD "delta" "1").toInt? with | some d => pure d | none => throw "delta"
    let dflt ← match parseOptInt (a.kv.getD "default" "0") with | some d => pure d | none => throw "default"
    pure (f.keyed a.E a.k (fun s => s.incr a.E a.now a.k (-delta) dflt))
  | "read" => pure (keyErr (f.keyed a.E a.k (fun s => s.get a.E a.now a.k true false false)))
  | "tbegin" => pure f.tbegin
  | "tend" => pure f.tend
  | "traise" =>
    let n ← match (a.kv.getD "n" "1").toNat? with | some n => pure n | none => throw "n"
    pure (f.traise n)
  | "reset" =>
    let key := a.kv.getD "key" ""
    let val ← match (a.kv.getD "value" "0").toInt? with | some n => pure n | none => throw "value"
    -- every shard gets the value; the last shard's answer is returned (fanout.py:549-575)
    let rec go (shards : List Cache) (acc : List Cache) (last : Out) : Except String (List Cache × Out) :=
      match shards with
      | [] => pure (acc.reverse, last)
      | s :: rest => do
        let (s', o) ← resetSetting s key val
        go rest (s' :: acc) o
    let (shards, o) ← go f.shards [] .none
    pure ({ f with shards := shards }, o)
  | "check" =>
    -- warnings of every shard, in shard order
    if f.shards.all (fun s => match consistentOut s with | .list [] => true | _ => false)
    then pure (f, .list []) else pure (f, .exc "Inconsistent")
  | m => throw s!"fanout-method:{m}"

def runDequeOp (d : Deque) (a : LArgs) : Except String (Deque × Out) := do
  let d := { d with cache := { d.cache with env := a.env, envMiss := false, trace := [] } }
  let idx ← match (a.kv.getD "i" "0").toInt? with | some i => pure i | none => throw "i"
  match a.m with
  | "append" => do let v ← needV a; pure (d.append a.E a.now v false)
  | "appendleft" => do let v ← needV a; pure (d.append a.E a.now v true)
  | "pop" => pure (d.pop a.E a.now false)
  | "popleft" => pure (d.pop a.E a.now true)
  | "peek" => pure (d.peek a.E a.now false)
  | "peekleft" => pure (d.peek a.E a.now true)
  | "len" => pure d.len
  | "getitem" => pure (d.getitem a.E a.now idx)
  | "setitem" => do let v ← needV a; pure (d.setitem a.E a.now idx v)
  | "delitem" => pure (d.delitem a.E a.now idx)
  | "iter" => pure (d.iterVals a.E a.now false)
  | "riter" => pure (d.iterVals a.E a.now true)
  | "clear" => pure d.clear
  | "rotate" => pure (d.rotate a.E a.now idx)
  | "reverse" => pure (d.reverse a.E a.now)
  | "maxlen" => pure (d.setMaxlen a.E a.now idx.toNat)
  | "extend" => pure (d.extend a.E a.now a.vs false)
  | "iadd" => pure (d.extend a.E a.now a.vs false)
  | "extendleft" => pure (d.extend a.E a.now a.vs true)
  | "count" => do let v ← needV a; pure (d.countOf a.E a.now v)
  | "remove" => do let v ← needV a; pure (d.remove a.E a.now v)
  | "cmp" =>
    let op ← match a.kv.getD "op" "" with
      | "eq" => pure CmpOp.eq | "ne" => pure CmpOp.ne | "lt" => pure CmpOp.lt
      | "gt" => pure CmpOp.gt | "le" => pure CmpOp.le | "ge" => pure CmpOp.ge
      | o => throw s!"cmp-op:{o}"
    pure (d.compare a.E a.now op a.vs)
  | "copy" => pure d.rehandle
  | "pickle" => pure d.rehandle
  | "reopen" => pure d.rehandle
  | m => throw s!"deque-method:{m}"

def runIndexOp (x : Index) (a : LArgs) : Except String (Index × Out) := do
  let x : Index := { cache := { x.cache with env := a.env, envMiss := false, trace := [] } }
  match a.m with
  | "getitem" => pure (x.getitem a.E a.now a.k)
  | "setitem" => do let v ← needV a; pure (x.setitem a.E a.now a.k v)
  | "delitem" => pure (x.delitem a.E a.now a.k)
  | "setdefault" => do let v ← needV a; pure (x.setdefault a.E a.now a.k v)
  | "pop" => pure (x.pop a.E a.now a.k (parseBool (a.kv.getD "hasdefault" "0")))
  | "popitem" => pure (x.popitem a.E a.now (parseBool (a.kv.getD "last" "1")))
  | "peekitem" => pure (x.peekitem a.E a.now (parseBool (a.kv.getD "last" "1")))
  | "len" => pure x.len
  | "iter" => pure (x.iter a.E true)
  | "riter" => pure (x.iter a.E false)
  | "items" => pure (x.items a.E a.now)
  | "clear" => pure x.clear
  | "update" =>
    if a.ks.length != a.vs.length then throw "update-lengths" else pure (x.update a.E a.now (a.ks.zip a.vs))
  | "keys" => pure (x.iter a.E true)
  | "values" => pure (x.values a.E a.now)
  | "eq" =>
    if a.ks.length != a.vs.length then throw "eq-lengths"
    else pure (x.eqTo a.E a.now (parseBool (a.kv.getD "ordered" "0")) (a.ks.zip a.vs))
  | "ne" =>
    if a.ks.length != a.vs.length then throw "ne-lengths"
    else pure (x.neTo a.E a.now (parseBool (a.kv.getD "ordered" "0")) (a.ks.zip a.vs))
  | "pickle" => pure x.rehandle
  | "reopen" => pure x.rehandle
  | m => throw s!"index-method:{m}"

/-- one `dsop` line on the reference bounded list of C11 (DC.Model.DSpec): the fields of an `lop
cls=deque` line, the calls the specification covers -/
def runDSpecOp (m : DSpec.DList) (cfg : Cfg) (a : LArgs) : Except String (DSpec.DList × Out) := do
  let idx ← match (a.kv.getD "i" "0").toInt? with | some i => pure i | none => throw "i"
  match a.m with
  | "append" => do let v ← needV a; pure (DSpec.append m a.E cfg v false)
  | "appendleft" => do let v ← needV a; pure (DSpec.append m a.E cfg v true)
  | "pop" => pure (DSpec.pop m a.E cfg false)
  | "popleft" => pure (DSpec.pop m a.E cfg true)
  | "peek" => pure (DSpec.peek m a.E cfg false)
  | "peekleft" => pure (DSpec.peek m a.E cfg true)
  | "len" => pure (DSpec.len m)
  | "clear" => pure (DSpec.clear m)
  | "getitem" => pure (DSpec.getitem m a.E cfg idx)
  | "iter" => pure (DSpec.iter m a.E cfg false)
  | "riter" => pure (DSpec.iter m a.E cfg true)
  | "extend" => pure (DSpec.extend m a.E cfg a.vs false)
  | "iadd" => pure (DSpec.extend m a.E cfg a.vs false)
  | "extendleft" => pure (DSpec.extend m a.E cfg a.vs true)
  | "setitem" => do let v ← needV a; pure (DSpec.setitem m a.E cfg idx v)
  | "delitem" => pure (DSpec.delitem m idx)
  | "rotate" => pure (DSpec.rotate m idx)
  | "reverse" => pure (DSpec.reverse m)
  | "maxlen" => pure (DSpec.setMaxlen m idx.toNat)
  | "count" => do let v ← needV a; pure (DSpec.count m a.E cfg v)
  | "remove" => do let v ← needV a; pure (DSpec.remove m a.E cfg v)
  | "cmp" =>
    let op ← match a.kv.getD "op" "" with
      | "eq" => pure CmpOp.eq | "ne" => pure CmpOp.ne | "lt" => pure CmpOp.lt
      | "gt" => pure CmpOp.gt | "le" => pure CmpOp.le | "ge" => pure CmpOp.ge
      | o => throw s!"cmp-op:{o}"
    pure (DSpec.compare m a.E cfg op a.vs)
  | other => throw s!"dspec-method:{other}"

/-- one `osop` line on the reference insertion-ordered dictionary of C12 (DC.Model.OSpec) -/
def runOSpecOp (m : DC.ODict) (cfg : Cfg) (a : LArgs) : Except String (DC.ODict × Out) := do
  match a.m with
  | "getitem" => pure (OSpec.getitem m a.E cfg a.k)
  | "setitem" => do let v ← needV a; pure (OSpec.setitem m a.E cfg a.k v)
  | "delitem" => pure (OSpec.delitem m a.E cfg a.k)
  | "setdefault" => do let v ← needV a; pure (OSpec.setdefault m a.E cfg a.k v)
  | "pop" => pure (OSpec.pop m a.E cfg a.k (parseBool (a.kv.getD "hasdefault" "0")))
  | "popitem" => pure (OSpec.popitem m a.E cfg (parseBool (a.kv.getD "last" "1")))
  | "peekitem" => pure (OSpec.peekitem m a.E cfg (parseBool (a.kv.getD "last" "1")))
  | "len" => pure (OSpec.len m)
  | "iter" => pure (OSpec.iter m a.E cfg true)
  | "riter" => pure (OSpec.iter m a.E cfg false)
  | "clear" => pure (OSpec.clear m)
  | "update" =>
    if a.ks.length != a.vs.length then throw "update-lengths" else pure (OSpec.update m a.E cfg (a.ks.zip a.vs))
  | "items" => pure (OSpec.items m a.E cfg)
  | "keys" => pure (OSpec.iter m a.E cfg true)
  | "values" => pure (OSpec.values m a.E cfg)
  | "eq" =>
    if a.ks.length != a.vs.length then throw "eq-lengths"
    else pure (OSpec.eqTo m a.E cfg (parseBool (a.kv.getD "ordered" "0")) (a.ks.zip a.vs))
  | "ne" =>
    if a.ks.length != a.vs.length then throw "ne-lengths"
    else pure (OSpec.neTo m a.E cfg (parseBool (a.kv.getD "ordered" "0")) (a.ks.zip a.vs))
  | "pickle" => pure (OSpec.rehandle m)
  | "reopen" => pure (OSpec.rehandle m)
  | other => throw s!"ospec-method:{other}"

def runDjangoOp (d : Django) (a : LArgs) : Except String (Django × Out) := do
  let d := { d with fan := { d.fan with env := a.env, envMiss := false } }
  let key ← match KV.get? a.kv "key" with
    | none => pure []
    | some t => match (parsePyVal t).bind strOfPy with | some s => pure s | none => throw "key"
  let version ← match parseOptInt (a.kv.getD "version" "n") with | some v => pure v | none => throw "version"
  let t ← match parseTimeout (a.kv.getD "timeout" "d") with | some t => pure t | none => throw "timeout"
  -- the observed serialisation belongs to the namespaced key
  let mk := d.makeKey key version
  let E : Externals := { a.E with jsonz := fun x => if x == mk then a.E.jsonz a.k else a.E.jsonz x }
  match a.m with
  | "set" => do let v ← needV a; pure (d.set E a.now key v t version a.tag)
  | "add" => do let v ← needV a; pure (d.add E a.now key v t version a.tag)
  | "get" => pure (d.get E a.now key version)
  | "touch" => pure (d.touch E a.now key t version)
  | "delete" => pure (d.delete E a.now key version)
  | "pop" => pure (d.pop E a.now key version)
  | "has_key" => pure (d.hasKey E a.now key version)
  | "incr" =>
    let delta ← match (a.kv.getD "delta" "1").toInt? with | some d => pure d | none => throw "delta"
    pure (d.incr E a.now key delta version)
  | "decr" =>
    let delta ← match (a.kv.getD "delta" "1").toInt? with | some d => pure d | none => throw "delta"
    pure (d.decr E a.now key delta version)
  | "read" => pure (d.read E a.now key version)
  | "clear" => pure d.clear
  | "expire" => pure (d.expire a.now)
  | "cull" => pure (d.cull a.now)
  | "evict" => pure (d.evict a.tag)
  | "stats" => pure (d.stats (parseBool (a.kv.getD "enable" "1")) (parseBool (a.kv.getD "reset" "0")))
  | "backend_timeout" => pure (d, match d.backendTimeout t with | some x => .int x | none => .none)
  | "make_key" => pure (d, .val (d.makeKey key version))
  | m => throw s!"django-method:{m}"

/-- one `jsop` line on the Django-level specification (DC.Model.DjSpec over the reference
dictionary): the fields of an `lop cls=django` line, the ten calls the specification covers -/
def runDjSpecOp (m : Spec.Dict) (C : DjSpec.Conf) (cfg : Cfg) (a : LArgs) : Except String (Spec.Dict × Out) := do
  let key ← match KV.get? a.kv "key" with
    | none => pure []
    | some t => match (parsePyVal t).bind strOfPy with | some s => pure s | none => throw "key"
  let version ← match parseOptInt (a.kv.getD "version" "n") with | some v => pure v | none => throw "version"
  let t ← match parseTimeout (a.kv.getD "timeout" "d") with | some t => pure t | none => throw "timeout"
  let delta ← match (a.kv.getD "delta" "1").toInt? with | some d => pure d | none => throw "delta"
  let step (op : DjSpec.DOp) : Spec.Dict × Out := DjSpec.step m C cfg op
  match a.m with
  | "set" => do let v ← needV a; pure (step (.set a.E a.now key v t version a.tag))
  | "add" => do let v ← needV a; pure (step (.add a.E a.now key v t version a.tag))
  | "get" => pure (step (.get a.E a.now key version))
  | "touch" => pure (step (.touch a.E a.now key t version))
  | "delete" => pure (step (.delete a.E a.now key version))
  | "pop" => pure (step (.pop a.E a.now key version))
  | "has_key" => pure (step (.hasKey a.E a.now key version))
  | "incr" => pure (step (.incr a.E a.now key delta version))
  | "decr" => pure (step (.decr a.E a.now key delta version))
  | "clear" => pure (step .clear)
  | other => throw s!"djspec-method:{other}"

def renderFan (f : Fanout) : String := " || ".intercalate (f.shards.map renderState)

def mkShards (n : Nat) (c : Cfg) (stats : Bool) : List Cache := (Fanout.init n c stats).shards

def answerLayer (st : DState) (head : String) (kv : KV) : DState × String :=
  let cls := kv.getD "cls" ""
  match head with
  | "lcfg" =>
    match parseCfg kv with
    | none => (st, "bad-op lcfg")
    | some c =>
      let stats := parseBool (kv.getD "stats" "0")
      let n := (kv.getD "shards" "1").toNat?.getD 1
      match cls with
      | "fanout" => ({ st with fan := { shards := mkShards n c stats } }, "ok")
      | "deque" => ({ st with dq := { cache := { cfg := c, statistics := stats },
                                      maxlen := (kv.getD "maxlen" "n").toNat? },
                              dspec := { maxlen := (kv.getD "maxlen" "n").toNat? } }, "ok")
      | "index" => ({ st with ix := { cache := { cfg := c, statistics := stats } }, ospec := [] }, "ok")
      | "django" =>
        let pfx := ((KV.get? kv "prefix").bind parsePyVal).bind strOfPy |>.getD []
        let ver := (kv.getD "version" "1").toInt?.getD 1
        let dt := match kv.getD "deftimeout" "300" with | "n" => none | t => t.toInt?
        ({ st with dj := { fan := { shards := mkShards n c stats }, keyPrefix := pfx, version := ver, defaultTimeout := dt },
                   jspec := [], jconf := { keyPrefix := pfx, version := ver, defaultTimeout := dt } }, "ok")
      | _ => (st, "bad-op lcfg-cls")
  | "lstate" =>
    match cls with
    | "fanout" => (st, "state " ++ renderFan st.fan)
    | "deque" => (st, "state " ++ renderState st.dq.cache)
    | "index" => (st, "state " ++ renderState st.ix.cache)
    | "django" => (st, "state " ++ renderFan st.dj.fan)
    | _ => (st, "bad-op lstate-cls")
  | _ =>
    match parseLArgs kv with
    | .error e => (st, "bad-op " ++ e)
    | .ok a =>
      let fin {α} (r : Except String (α × Out)) (upd : α → DState) (miss : α → Bool) : DState × String :=
        match r with
        | .ok (x, out) => (upd x, "ret " ++ renderOut out ++ (if miss x then " | env-missing" else ""))
        | .error e => (st, "bad-op " ++ e)
      match cls with
      | "fanout" => fin (runFanOp st.fan a) (fun x => { st with fan := x }) (·.envMiss)
      | "deque" => fin (runDequeOp st.dq a) (fun x => { st with dq := x }) (·.cache.envMiss)
      | "index" => fin (runIndexOp st.ix a) (fun x => { st with ix := x }) (·.cache.envMiss)
      | "django" => fin (runDjangoOp st.dj a) (fun x => { st with dj := x }) (·.fan.envMiss)
      | _ => (st, "bad-op lop-cls")

def answer (st : DState) (line : String) : DState × String :=
  let kv := parseKV line
  match kv with
  | ("cfg", _) :: rest =>
    match parseCfg rest with
    | some c =>
      let stats := parseBool (KV.getD rest "stats" "0")
      ({ st with cache := { cfg := c, statistics := stats }, spec := [], qspec := {} }, "ok")
    | none => (st, "bad-op cfg")
  | ("state", _) :: _ => (st, "state " ++ renderState st.cache)
  | ("op", _) :: rest =>
    match runCacheOp st.cache rest with
    | .ok (c, out) =>
      ({ st with cache := c },
       "ret " ++ renderOut out ++ " | " ++ renderTrace c.trace ++ (if c.envMiss then " | env-missing" else ""))
    | .error e => (st, "bad-op " ++ e)
  | ("sop", _) :: rest =>
    match runSpecOp st.spec st.cache.cfg rest with
    | .ok (m, out) => ({ st with spec := m }, "ret " ++ renderOut out)
    | .error e => (st, "bad-op " ++ e)
  | ("qsop", _) :: rest =>
    match runQSpecOp st.qspec st.cache.cfg rest with
    | .ok (q, out) => ({ st with qspec := q }, "ret " ++ renderOut out)
    | .error e => (st, "bad-op " ++ e)
  | ("dsop", _) :: rest =>
    match parseLArgs rest with
    | .error e => (st, "bad-op " ++ e)
    | .ok a =>
      match runDSpecOp st.dspec st.dq.cache.cfg a with
      | .ok (m, out) => ({ st with dspec := m }, "ret " ++ renderOut out)
      | .error e => (st, "bad-op " ++ e)
  | ("jsop", _) :: rest =>
    match parseLArgs rest with
    | .error e => (st, "bad-op " ++ e)
    | .ok a =>
      let cfg := match st.dj.fan.shards.head? with | some sh => sh.cfg | none => {}
      match runDjSpecOp st.jspec st.jconf cfg a with
      | .ok (m, out) => ({ st with jspec := m }, "ret " ++ renderOut out)
      | .error e => (st, "bad-op " ++ e)
  | ("osop", _) :: rest =>
    match parseLArgs rest with
    | .error e => (st, "bad-op " ++ e)
    | .ok a =>
      match runOSpecOp st.ospec st.ix.cache.cfg a with
      | .ok (m, out) => ({ st with ospec := m }, "ret " ++ renderOut out)
      | .error e => (st, "bad-op " ++ e)
  | ("lcfg", _) :: rest => answerLayer st "lcfg" rest
  | ("lop", _) :: rest => answerLayer st "lop" rest
  | ("lstate", _) :: rest => answerLayer st "lstate" rest
  | ("rk", _) :: rest => (st, answerRk rest)
  | ("tb", _) :: rest => (st, answerTb rest)
  | ("tq", _) :: rest => (st, answerTq rest)
  | ("av", _) :: rest => (st, answerAv rest)
  | ("ck", _) :: rest => (st, answerCk rest)
  | ("mk", _) :: rest => (st, answerMk rest)
  | ("mc", _) :: rest => let (m, a) := answerMc st.memo rest; ({ st with memo := m }, a)
  | ("mreset", _) :: _ => ({ st with memo := [] }, "ok")
  | _ => (st, "bad-op line")

partial def loop (h : IO.FS.Stream) (out : IO.FS.Stream) (st : DState) : IO Unit := do
  let line ← h.getLine
  if line.isEmpty then return ()
  let line := (line.dropEndWhile (fun c => c == '\n' || c == '\r')).toString
  let (st', ans) := answer st line
  out.putStrLn ans
  loop h out st'

def driverMain : IO Unit := do
  let stdin ← IO.getStdin
  let stdout ← IO.getStdout
  loop stdin stdout {}
