import DC.Driver

def main : IO Unit := driverMain
