import DC.Model.Value
import DC.Model.Disk
import DC.Model.Cache
import DC.Driver
